"""Activation-flag discipline shared by C06 and C18: locating reads, writes and
constructions of the `(bool, RightSecretKey)` pairs stored in the master key, and
classifying where the pair came from (head of a chain, chain iteration, wire)."""
import re

from .facts import op_local, op_place, is_place, backward_slice, proj_names
from . import lib

PAIR_TY = '(bool, core::RightSecretKey)'

HEAD = (r'^std::collections::LinkedList::<[^>]*>::front(_mut)?$',
        r'^data_struct::revision_map::RevisionMap::<K, V>::get_latest(_mut)?$')
CHAIN_ITER = (r'^std::collections::LinkedList::<[^>]*>::(iter|iter_mut|back|back_mut|pop_back|pop_front)$',)
DESER = (r'bytes_ser_de::Deserializer::<?.*read',)


def is_flag_place(body, pl):
    """Place denoting the bool of a (bool, RightSecretKey) pair."""
    if PAIR_TY not in body.local_ty(pl['l']):
        return False
    for e in pl['p']:
        if isinstance(e, dict) and e.get('o') == 'tuple' and e.get('f') == 0 and e.get('ty') == 'bool':
            return True
    return False


def chain_iteration_call(c):
    """Iteration over a *chain* (LinkedList of pairs), as opposed to over the map."""
    if c.is_(*CHAIN_ITER) and PAIR_TY in c.full:
        return True
    if c.is_(r'^std::iter::Iterator::(next|next_back|nth|last|find|fold|for_each|map|filter|any|all)$',
             r'^std::iter::IntoIterator::into_iter$'):
        st = re.sub(r"^&('[a-z_0-9]+ )?(mut )?", '', c.self_ty or '')
        if re.match(r'std::collections::(linked_list::(Iter|IterMut|IntoIter)|LinkedList)<', st) and PAIR_TY in st:
            return True
    return False


def classify_pair_origin(F, body, base_local):
    """'head' | 'chain-iteration' | 'wire' | 'other' for the pair a flag is read from."""
    calls = lib.deep_calls(F, body, [base_local])
    it = [c for c in calls if chain_iteration_call(c)]
    hd = [c for c in calls if c.is_(*HEAD) and PAIR_TY in c.full]
    if it:
        return 'chain-iteration', it[0]
    if hd:
        return 'head', hd[0]
    return 'other', None


def flag_reads(F):
    """Every read of an activation flag in the crate: (body, block, ln, base local)."""
    out = []
    for body in F.fns():
        for b in sorted(body.live_blocks()):
            for st in body.stmts(b):
                rv = st['rv']
                pls = []
                if rv['k'] == 'use' and is_place(rv['a']):
                    pls.append(op_place(rv['a']))
                elif rv['k'] == 'ref' and not rv['mut']:
                    pls.append(rv['pl'])
                elif rv['k'] in ('bin',):
                    for o in (rv['a'], rv['b']):
                        if is_place(o):
                            pls.append(op_place(o))
                for pl in pls:
                    if is_flag_place(body, pl):
                        out.append((body, b, st['ln'], pl['l']))
            t = body.term(b)
            if t['k'] == 'switch' and is_place(t['d']) and is_flag_place(body, op_place(t['d'])):
                out.append((body, b, t['ln'], op_local(t['d'])))
    return out


def flag_writes(F):
    """Assignments to an activation flag of an existing pair: (body, block, ln, value operand,
    base local of the pair)."""
    out = []
    for body in F.fns():
        refs = None
        for b in sorted(body.live_blocks()):
            for st in body.stmts(b):
                lhs = st['lhs']
                if is_flag_place(body, lhs) and '*' in proj_names(lhs):
                    out.append((body, b, st['ln'], st['rv'], lhs['l']))
                    continue
                # write through `&mut pair.0`
                if lhs['p'] and lhs['p'][0] == '*' and len(lhs['p']) == 1 and body.local_ty(lhs['l']) == '&mut bool':
                    for (pl, m) in body.refs().get(lhs['l'], []):
                        if m and is_flag_place(body, pl):
                            out.append((body, b, st['ln'], st['rv'], pl['l']))
    return out


def pair_constructions(F):
    """Tuple aggregates of type (bool, RightSecretKey): (body, block, ln, flag operand, lhs local)."""
    out = []
    for body in F.fns():
        for b in sorted(body.live_blocks()):
            for st in body.stmts(b):
                rv = st['rv']
                if rv['k'] == 'agg' and rv.get('tuple') and len(rv['ops']) == 2 and not st['lhs']['p'] \
                        and body.local_ty(st['lhs']['l']) == PAIR_TY:
                    out.append((body, b, st['ln'], rv['ops'][0], st['lhs']['l']))
    return out
