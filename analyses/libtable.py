"""Library-semantics tables (trusted base).  Keyed by resolved def path (regex),
one line of reason per entry.  Nothing here describes /repo's own code except
where stated."""

# Calls returning Result whose Err is unreachable in practice (E-ATOM / C09).
INFALLIBLE = [
    (r'^cosmian_crypto_core::bytes_ser_de::Serializable::serialize$',
     'serialises into a growable Vec; io::Write on Vec never fails; every crate impl of write only '
     'forwards Serializer errors'),
    (r'^cosmian_crypto_core::bytes_ser_de::Serializer::write(_array|_vec|_leb128_u64)?$',
     'writes into a Vec<u8>; the only Err is io::Error from Vec::write, which never occurs'),
    (r'^cosmian_crypto_core::bytes_ser_de::Serializer::write::',
     'Serializer::write::<T> forwards T::write, see Serializable::serialize'),
    (r'^std::convert::TryFrom::try_from$|^std::convert::TryInto::try_into$',
     'only usize<->u64 conversions occur in the crate; identical width on the 64-bit targets built here'),
]

# Combinators that forward the Ok/Err-ness (or Some/None-ness) of their receiver.
RESULT_FORWARDERS = [
    r'^std::result::Result::<T, E>::map_err$',
    r'^std::result::Result::<T, E>::map$',
]

# Callees that receive a mutable handle but do not themselves mutate the referent
# (they hand back a derived handle, or only read).  A closure argument is still
# examined.
NONWRITING = [
    r'::get_mut$', r'::get_latest_mut$', r'::iter_mut$', r'::front_mut$', r'::back_mut$',
    r'::values_mut$', r'::as_mut$', r'^std::ops::DerefMut::deref_mut$', r'^std::ops::Deref::deref$',
    r'::entry$', r'^std::option::Option::<T>::map$', r'^std::option::Option::<T>::and_then$',
    r'^std::option::Option::<T>::ok_or(_else)?$', r'^std::option::Option::<T>::as_deref_mut$',
    r'^std::iter::Iterator::(next|map|filter|filter_map|for_each|try_for_each|fold|try_fold|zip|by_ref|'
    r'take|take_while|skip|enumerate|rev|find|any|all|collect|unzip|sum|count|flat_map|cloned|copied)$',
    r'^std::iter::IntoIterator::into_iter$', r'^std::borrow::BorrowMut::borrow_mut$',
    r'^std::ops::Try::branch$', r'^std::ops::FromResidual::from_residual$',
    r'^std::result::Result::<T, E>::(map|map_err|ok|and_then|expect|unwrap)$',
    r'^std::option::Option::<T>::(expect|unwrap|is_some|is_none|as_ref)$',
    r'^std::collections::hash_map::(OccupiedEntry|VacantEntry)::<.*>::(key|get)$',
    r'^std::sync::Mutex::<T>::lock$',
    r'^std::ops::Index(Mut)?::index(_mut)?$',
    r'^core::slice::<impl \[T\]>::(iter_mut|iter|len|get_mut|first_mut|last_mut)$',
    r'^std::vec::Vec::<[^>]*>::(len|is_empty|iter|as_mut_slice|as_slice)$',
    # random-number generators are state, not keys: drawing from the RNG is not a key write
    r'RngCore::|rand_core::',
]

# Mutators whose *return value* tells whether anything was written: a failure
# derived from that value (None / false) implies that nothing was written.
SELF_REPORTING = [
    (r'^std::collections::HashMap::<[^>]*>::remove$', 'None iff the key was absent (nothing removed)'),
    (r'^std::collections::HashSet::<[^>]*>::remove$', 'false iff absent'),
    (r'^data_struct::dictionary::Dict::<K, V>::remove$',
     'crate-local: returns through `?` on indices.remove(key) before its first other write'),
    (r'^data_struct::revision_map::RevisionMap::<K, V>::remove$', 'forwards HashMap::remove'),
    (r'^std::option::Option::<T>::map$', 'the closure (the write) runs iff Some; None is forwarded'),
    (r'^std::collections::LinkedList::<[^>]*>::pop_front$', 'None iff empty'),
]

# pass-through combinators that preserve Some/None (Ok/Err)-ness, used when an
# error is traced back to a self-reporting write
PRESERVING = [
    r'^std::option::Option::<T>::map$', r'^std::option::Option::<T>::ok_or(_else)?$',
    r'^std::result::Result::<T, E>::map(_err)?$',
]

# Allocation sinks: (callee regex, index of the size argument)  (C14)
ALLOC_SINKS = [
    (r'::with_capacity$', 0),
    (r'::with_capacity_and_hasher$', 0),
    (r'::reserve(_exact)?$', 1),
    (r'^std::vec::from_elem$', 1),
    (r'::resize$', 1),
    (r'^cosmian_crypto_core::bytes_ser_de::Serializer::with_capacity$', 0),
]
