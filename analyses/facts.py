"""Fact loader and core program representation (CFG, dominators, def/use,
provenance slices) over the JSON exported by /verif/driver (ccfacts).

Everything here is generic; repository-specific rules live in props/.
"""
import json
import re
from collections import defaultdict, deque


# ----------------------------------------------------------------- operands
def is_place(op):
    return 'cp' in op or 'mv' in op


def op_place(op):
    return op.get('cp') or op.get('mv')


def op_local(op):
    p = op_place(op)
    return None if p is None else p['l']


def op_const(op):
    return op.get('c')


def const_val(op):
    c = op.get('c')
    if c is None:
        return None
    return c.get('v')


def proj_names(place):
    """Projection rendered as a tuple of short tokens: '*', field names,
    '@Variant', '[i]'."""
    out = []
    for e in place['p']:
        if e == '*':
            out.append('*')
        elif isinstance(e, str):
            out.append(e)
        elif 'n' in e:
            out.append(e['n'])
        elif 'dc' in e:
            out.append('@' + e['dc'])
        elif 'idx' in e:
            out.append('[_%d]' % e['idx'])
        elif 'cidx' in e:
            out.append('[%d]' % e['cidx'])
        elif 'sub_from' in e:
            out.append('[%d..%s%d]' % (e['sub_from'], '-' if e['from_end'] else '', e['sub_to']))
        else:
            out.append('?')
    return tuple(out)


def field_path(place):
    """Only the field names / variants (no derefs)."""
    return tuple(x for x in proj_names(place) if x != '*')


def pstr(place):
    s = '_%d' % place['l']
    for t in proj_names(place):
        s += '.' + t
    return s


def opstr(op):
    if 'cp' in op:
        return 'copy ' + pstr(op['cp'])
    if 'mv' in op:
        return 'move ' + pstr(op['mv'])
    if 'c' in op:
        c = op['c']
        if 'fn' in c:
            return 'fn ' + c['fn']['full']
        return 'const ' + c.get('s', '?')
    return '?'


def rvstr(rv):
    k = rv['k']
    if k == 'use':
        return opstr(rv['a'])
    if k == 'ref':
        return ('&mut ' if rv['mut'] else '&') + pstr(rv['pl'])
    if k == 'rawptr':
        return '&raw ' + pstr(rv['pl'])
    if k == 'agg':
        if 'adt' in rv:
            head = '%s::%s' % (rv['adt'], rv['variant'])
        elif 'closure' in rv:
            head = 'closure %s' % rv['closure']
        elif 'tuple' in rv:
            head = 'tuple'
        else:
            head = 'array'
        return '%s(%s)' % (head, ', '.join(opstr(o) for o in rv['ops']))
    if k == 'bin':
        return '%s(%s, %s)' % (rv['op'], opstr(rv['a']), opstr(rv['b']))
    if k == 'un':
        return '%s(%s)' % (rv['op'], opstr(rv['a']))
    if k == 'cast':
        return 'cast<%s>(%s) as %s' % (rv['ck'], opstr(rv['a']), rv['ty'])
    if k == 'discr':
        return 'discr(%s)' % pstr(rv['pl'])
    if k == 'repeat':
        return '[%s; %s]' % (opstr(rv['a']), rv['n'])
    if k == 'setdiscr':
        return 'setdiscr %d' % rv['vi']
    return rv.get('s', k)


class Call:
    """A call terminator."""
    __slots__ = ('body', 'b', 't', 'fn', 'defp', 'full', 'res', 'name', 'args', 'dest',
                 'target', 'ln', 'exp')

    def __init__(self, body, b, t):
        self.body = body
        self.b = b
        self.t = t
        f = t['f']
        fn = (f.get('c') or {}).get('fn')
        self.fn = fn
        self.defp = fn['def'] if fn else None
        self.full = fn['full'] if fn else opstr(f)
        self.res = fn.get('res') if fn else None
        self.name = fn['name'] if fn else None
        self.args = t['args']
        self.dest = t['dest']
        self.target = t['t']
        self.ln = t['ln']
        self.exp = t.get('exp', False)

    @property
    def callee(self):
        """Best identification: resolved instance if any, else the declared def."""
        return self.res or self.defp or self.full

    @property
    def trait(self):
        return self.fn.get('trait') if self.fn else None

    @property
    def self_ty(self):
        return self.fn.get('self_ty') if self.fn else None

    def is_(self, *pats):
        """Match declared def path, resolved path or full text against regexes."""
        for p in pats:
            r = re.compile(p)
            for s in (self.defp, self.res, self.full):
                if s and r.search(s):
                    return True
        return False

    def indirect_local(self):
        """Local holding the callee when the call is indirect (fn pointer)."""
        if self.fn is None:
            return op_local(self.t['f'])
        return None

    def where(self):
        return '%s:%d' % (self.body.file, self.ln)

    def __repr__(self):
        return '<call %s @bb%d %s>' % (self.full, self.b, self.where())


class Def:
    """One definition site of (part of) a local."""
    __slots__ = ('b', 'i', 'kind', 'lhs', 'rv', 'call', 'via')

    def __init__(self, b, i, kind, lhs=None, rv=None, call=None, via=None):
        self.b = b          # block
        self.i = i          # statement index, or None for the terminator
        self.kind = kind    # 'assign' | 'call' (destination) | 'mutarg' (call given &mut)
        self.lhs = lhs
        self.rv = rv
        self.call = call
        self.via = via      # for writes through a reference: the reference local


class Body:
    def __init__(self, d, facts):
        self.d = d
        self.facts = facts
        self.key = d['key']
        self.kind = d['kind']
        self.name = d.get('name')
        self.file = d['span'].rsplit(':', 1)[0]
        self.line = int(d['span'].rsplit(':', 1)[1])
        self.argc = d['argc']
        self.locals = d['locals']
        self.blocks = d['blocks']
        self.n = len(self.blocks)
        self.vars = d['vars']
        self.is_pub = d.get('pub', False)
        self.impl_trait = d.get('impl_trait')
        self.impl_self = d.get('impl_self')
        self.parent = d.get('parent')
        self.root = d.get('root')
        self._build_cfg()
        self._calls = None
        self._defs = None
        self._idom = None
        self._refs = None

    # ------------------------------------------------------------- basics
    def __repr__(self):
        return '<Body %s>' % self.key

    def where(self, ln=None):
        return '%s:%d' % (self.file, ln if ln is not None else self.line)

    def local_ty(self, l):
        return self.locals[l]['ty']

    def local_head(self, l):
        return self.locals[l]['h']

    def var_locals(self, name):
        return [v['pl']['l'] for v in self.vars if v['name'] == name and not v['pl']['p']]

    def var_name(self, l):
        for v in self.vars:
            if v['pl']['l'] == l and not v['pl']['p']:
                return v['name']
        return None

    def upvar_names(self):
        """For a closure body: debug names bound to fields of the environment (_1)."""
        out = {}
        for v in self.vars:
            pl = v['pl']
            if pl['l'] == 1 and pl['p']:
                for e in pl['p']:
                    if isinstance(e, dict) and 'f' in e:
                        out[e['f']] = v['name']
                        break
        return out

    def _build_cfg(self):
        self.succs = [[] for _ in range(self.n)]
        self.preds = [[] for _ in range(self.n)]
        self.cleanup = [b['cleanup'] for b in self.blocks]
        for i, b in enumerate(self.blocks):
            if b['cleanup']:
                continue
            t = b['term']
            k = t['k']
            ss = []
            if k == 'goto':
                ss = [t['t']]
            elif k == 'switch':
                ss = [c[1] for c in t['cases']] + [t['else']]
            elif k in ('call', 'drop', 'assert'):
                if t.get('t') is not None:
                    ss = [t['t']]
            seen = []
            for s in ss:
                if s not in seen and not self.blocks[s]['cleanup']:
                    seen.append(s)
            self.succs[i] = seen
            for s in seen:
                self.preds[s].append(i)

    def term(self, b):
        return self.blocks[b]['term']

    def stmts(self, b):
        return self.blocks[b]['st']

    def live_blocks(self):
        """Blocks reachable from entry on normal edges."""
        return self.reach(0)

    def reach(self, start, avoid_edges=(), avoid_blocks=()):
        avoid_edges = set(avoid_edges)
        avoid_blocks = set(avoid_blocks)
        starts = [start] if isinstance(start, int) else list(start)
        seen = set(s for s in starts if s not in avoid_blocks)
        dq = deque(seen)
        while dq:
            b = dq.popleft()
            for s in self.succs[b]:
                if (b, s) in avoid_edges or s in avoid_blocks or s in seen:
                    continue
                seen.add(s)
                dq.append(s)
        return seen

    def reach_from_succ(self, b, s, **kw):
        """Blocks reachable after taking edge b->s."""
        return self.reach(s, **kw)

    def edge_dominates(self, edge, target):
        """Every path entry -> target takes `edge` (target reachable at all)."""
        r = self.reach(0, avoid_edges=[edge])
        return target not in r

    def edges_dominate(self, edges, target):
        """Every path entry -> target takes at least one of `edges`."""
        r = self.reach(0, avoid_edges=list(edges))
        return target not in r

    def block_dominates(self, a, target):
        if a == target:
            return True
        r = self.reach(0, avoid_blocks=[a])
        return target not in r

    def return_blocks(self):
        live = self.live_blocks()
        return [b for b in live if self.term(b)['k'] == 'return']

    # -------------------------------------------------------------- calls
    def calls(self, *pats):
        if self._calls is None:
            cs = []
            for i, b in enumerate(self.blocks):
                if b['cleanup']:
                    continue
                if b['term']['k'] == 'call':
                    cs.append(Call(self, i, b['term']))
            self._calls = cs
        if not pats:
            return list(self._calls)
        return [c for c in self._calls if c.is_(*pats)]

    def call_at(self, b):
        for c in self.calls():
            if c.b == b:
                return c
        return None

    # --------------------------------------------------------------- defs
    def refs(self):
        """ref local -> list of (place, is_mut) it may point to (from `_r = &[mut] place`
        and copies/reborrows of such refs)."""
        if self._refs is not None:
            return self._refs
        direct = defaultdict(list)
        copies = defaultdict(set)
        for i, b in enumerate(self.blocks):
            if b['cleanup']:
                continue
            for st in b['st']:
                lhs, rv = st['lhs'], st['rv']
                if lhs['p']:
                    continue
                if rv['k'] in ('ref', 'rawptr'):
                    pl = rv['pl']
                    if pl['p'] and pl['p'][0] == '*':
                        # reborrow through another ref: &(*_r).x
                        copies[lhs['l']].add((pl['l'], json.dumps(pl['p'][1:])))
                    else:
                        direct[lhs['l']].append((pl, rv['mut']))
                elif rv['k'] in ('use', 'cast') and is_place(rv['a']):
                    pl = op_place(rv['a'])
                    if not pl['p']:
                        copies[lhs['l']].add((pl['l'], '[]'))
        # resolve copies transitively (bounded)
        out = defaultdict(list)
        for l, v in direct.items():
            out[l].extend(v)
        changed = True
        rounds = 0
        while changed and rounds < 20:
            changed = False
            rounds += 1
            for l, srcs in copies.items():
                for (src, extra) in srcs:
                    extra = json.loads(extra)
                    for (pl, m) in list(out.get(src, [])):
                        npl = {'l': pl['l'], 'p': pl['p'] + extra}
                        key = (json.dumps(npl), m)
                        have = set((json.dumps(p), mm) for p, mm in out[l])
                        if key not in have:
                            out[l].append((npl, m))
                            changed = True
        # reborrows through a reference that has no known target (a parameter, a call
        # result): the place itself, rooted at that reference, is the target
        for b in self.blocks:
            if b['cleanup']:
                continue
            for st in b['st']:
                lhs, rv = st['lhs'], st['rv']
                if lhs['p'] or rv['k'] not in ('ref', 'rawptr'):
                    continue
                pl = rv['pl']
                if pl['p'] and pl['p'][0] == '*' and not out.get(pl['l']):
                    key = (json.dumps(pl), rv['mut'])
                    have = set((json.dumps(p), mm) for p, mm in out[lhs['l']])
                    if key not in have:
                        out[lhs['l']].append((pl, rv['mut']))
        # second round of copies for the newly added targets
        for _ in range(5):
            grew = False
            for l, srcs in copies.items():
                for (src, extra) in srcs:
                    extra_l = json.loads(extra)
                    for (pl, m) in list(out.get(src, [])):
                        npl = {'l': pl['l'], 'p': pl['p'] + extra_l}
                        key = (json.dumps(npl), m)
                        have = set((json.dumps(p), mm) for p, mm in out[l])
                        if key not in have:
                            out[l].append((npl, m))
                            grew = True
            if not grew:
                break
        self._refs = out
        return out

    def through_ref(self, pl):
        """Rewrite `(*_r).rest` into `target.rest` when _r has a single known target."""
        cur = pl
        for _ in range(6):
            if not cur['p'] or cur['p'][0] != '*':
                return cur
            ts = self.refs().get(cur['l'], [])
            if len(ts) != 1:
                return cur
            tgt = ts[0][0]
            if tgt['l'] == cur['l']:
                return cur
            cur = {'l': tgt['l'], 'p': tgt['p'] + cur['p'][1:]}
        return cur

    def defs(self):
        """local -> [Def].  Includes writes through `&mut` references to the local
        and calls that receive a `&mut` reference to it."""
        if self._defs is not None:
            return self._defs
        defs = defaultdict(list)
        refs = self.refs()
        for bi, b in enumerate(self.blocks):
            if b['cleanup']:
                continue
            for si, st in enumerate(b['st']):
                lhs, rv = st['lhs'], st['rv']
                d = Def(bi, si, 'assign', lhs=lhs, rv=rv)
                defs[lhs['l']].append(d)
                if lhs['p'] and lhs['p'][0] == '*':
                    for (pl, m) in refs.get(lhs['l'], []):
                        defs[pl['l']].append(Def(bi, si, 'assign', lhs=lhs, rv=rv, via=lhs['l']))
            t = b['term']
            if t['k'] == 'call':
                c = self.call_at(bi)
                defs[c.dest['l']].append(Def(bi, None, 'call', lhs=c.dest, call=c))
                for a in c.args:
                    l = op_local(a)
                    if l is None or op_place(a)['p']:
                        continue
                    for (pl, m) in refs.get(l, []):
                        if m:
                            defs[pl['l']].append(Def(bi, None, 'mutarg', lhs=pl, call=c, via=l))
        self._defs = defs
        return defs

    def is_param(self, l):
        return 1 <= l <= self.argc

    # ------------------------------------------------------- pretty print
    def dump(self, cleanup=False):
        out = ['fn %s  [%s]  %s' % (self.key, self.kind, self.d['span'])]
        for v in self.vars:
            out.append('  debug %s => %s' % (v['name'], pstr(v['pl'])))
        for i, b in enumerate(self.blocks):
            if b['cleanup'] and not cleanup:
                continue
            out.append(' bb%d%s:' % (i, ' (cleanup)' if b['cleanup'] else ''))
            for st in b['st']:
                out.append('    %s = %s   // %d' % (pstr(st['lhs']), rvstr(st['rv']), st['ln']))
            t = b['term']
            k = t['k']
            if k == 'call':
                c = Call(self, i, t)
                res = ''
                if c.res and c.res != c.defp:
                    res = '  => ' + c.res
                out.append('    %s = CALL %s(%s) -> %s%s   // %d' % (
                    pstr(c.dest), c.full, ', '.join(opstr(a) for a in c.args),
                    'bb%s' % t['t'] if t['t'] is not None else '!', res, t['ln']))
            elif k == 'switch':
                out.append('    SWITCH %s %s else bb%d   // %d' % (
                    opstr(t['d']), ' '.join('%d:bb%d' % (v, bb) for v, bb in t['cases']), t['else'], t['ln']))
            elif k == 'goto':
                out.append('    GOTO bb%d' % t['t'])
            elif k == 'drop':
                out.append('    DROP %s -> bb%d' % (pstr(t['pl']), t['t']))
            elif k == 'assert':
                out.append('    ASSERT %s == %s [%s %s] -> bb%d   // %d' % (
                    opstr(t['cond']), t['expected'], t['msg'], t['op'], t['t'], t['ln']))
            else:
                out.append('    %s' % k.upper())
        return '\n'.join(out)


class Facts:
    def __init__(self, path):
        with open(path) as f:
            d = json.load(f)
        self.path = path
        self.crate = d['crate']
        self.features = d['features']
        self.raw = d
        self.bodies = {}
        for b in d['bodies']:
            self.bodies[b['key']] = Body(b, self)
        self.adts = {a['path']: a for a in d['adts']}
        self.impls = d['impls']
        self.statics = d['statics']
        self.consts = {c['path']: c for c in d['consts']}
        self._closures_of = None

    def __contains__(self, k):
        return k in self.bodies

    def get(self, key):
        return self.bodies.get(key)

    def fn(self, key):
        b = self.bodies.get(key)
        if b is None:
            raise AnchorMissing('function %s not found' % key)
        return b

    def find(self, pattern, kinds=('Fn', 'AssocFn', 'Closure'), promoted=False):
        r = re.compile(pattern)
        return [b for k, b in self.bodies.items()
                if r.search(k) and b.kind in kinds and (promoted or 'promoted_of' not in b.d)]

    def fns(self):
        return [b for b in self.bodies.values() if 'promoted_of' not in b.d]

    def closures_of(self, key, deep=True):
        """Closure bodies nested in function `key` (transitively)."""
        out = []
        for k, b in self.bodies.items():
            if b.kind == 'Closure' and 'promoted_of' not in b.d:
                if deep and b.root == key or (not deep and b.parent == key):
                    out.append(b)
        return out

    def family(self, key):
        """A function together with all closures nested in it."""
        b = self.fn(key)
        return [b] + self.closures_of(key)

    def promoted(self, key, idx):
        return self.bodies.get('%s::promoted[%d]' % (key, idx))

    def trait_impls(self, trait_pat):
        r = re.compile(trait_pat)
        return [i for i in self.impls if i.get('trait') and r.search(i['trait'])]

    def impl_method(self, impl, name):
        for it in impl['items']:
            if it['name'] == name:
                return self.bodies.get(it['key'])
        return None


class AnchorMissing(Exception):
    pass


# ============================================================== provenance
class Slice:
    """Result of a backward data-dependence slice inside one body."""

    def __init__(self, body):
        self.body = body
        self.locals = set()
        self.params = set()      # param locals reached
        self.consts = []         # constant operands reached
        self.calls = []          # Call objects whose result (or &mut effect) was reached
        self.aggs = []           # aggregate rvalues reached
        self.rvs = []            # all (Def) visited
        self.places = []         # every place read

    def has_call(self, *pats):
        return [c for c in self.calls if c.is_(*pats)]

    def param_names(self):
        return set(self.body.var_name(p) or ('_%d' % p) for p in self.params)


def backward_slice(body, start, stop_call=None, follow_mutarg=True, max_nodes=5000):
    """Backward slice from locals `start` (iterable of local indices or operands).

    stop_call(call) -> True makes that call a leaf (its arguments are not followed).
    The slice is flow-insensitive (all definitions of a local), which is sound for
    "may derive from" and is used with ALL-origins conditions for "must".
    """
    sl = Slice(body)
    defs = body.defs()
    work = deque()

    def push_op(op):
        if op is None:
            return
        if 'c' in op:
            sl.consts.append(op['c'])
            return
        pl = op_place(op)
        if pl is not None:
            push_place(pl)

    def push_place(pl):
        sl.places.append(pl)
        work.append(pl['l'])
        for e in pl['p']:
            if isinstance(e, dict) and 'idx' in e:
                work.append(e['idx'])

    for s in start:
        if isinstance(s, int):
            work.append(s)
        elif isinstance(s, dict) and ('l' in s and 'p' in s):
            push_place(s)
        else:
            push_op(s)
    seen_calls = set()
    while work and len(sl.locals) < max_nodes:
        l = work.popleft()
        if l in sl.locals:
            continue
        sl.locals.add(l)
        if body.is_param(l):
            sl.params.add(l)
        for d in defs.get(l, []):
            if d.kind == 'mutarg' and not follow_mutarg:
                continue
            sl.rvs.append(d)
            if d.kind == 'assign':
                rv = d.rv
                k = rv['k']
                if k == 'use':
                    push_op(rv['a'])
                elif k in ('ref', 'rawptr', 'discr'):
                    push_place(rv['pl'])
                elif k == 'agg':
                    sl.aggs.append(rv)
                    for o in rv['ops']:
                        push_op(o)
                elif k == 'bin':
                    push_op(rv['a'])
                    push_op(rv['b'])
                elif k in ('un', 'cast', 'repeat'):
                    push_op(rv['a'])
            else:
                c = d.call
                if id(c) in seen_calls:
                    continue
                seen_calls.add(id(c))
                sl.calls.append(c)
                if stop_call is not None and stop_call(c):
                    continue
                for a in c.args:
                    push_op(a)
                il = c.indirect_local()
                if il is not None:
                    work.append(il)
    return sl


def copy_chain_sources(body, op_or_local, through_calls=()):
    """Identity-form provenance: follow only moves/copies/reborrows/derefs and the
    listed pass-through calls (regexes).  Returns a set of terminal descriptors:
      ('param', local, field_path) | ('const', s) | ('call', Call) | ('agg', rv) | ('other', rvstr)
    """
    out = []
    seen = set()
    defs = body.defs()

    def go(l, path):
        keyp = (l, path)
        if keyp in seen:
            return
        seen.add(keyp)
        if body.is_param(l):
            out.append(('param', l, path))
            return
        ds = [d for d in defs.get(l, []) if d.kind != 'mutarg' and d.via is None]
        if not ds:
            out.append(('undef', l, path))
        for d in ds:
            if d.kind == 'assign':
                if d.lhs['p']:
                    # partial write: only relevant if path matches prefix; keep conservative
                    out.append(('partial', rvstr(d.rv)))
                    continue
                rv = d.rv
                if rv['k'] == 'use':
                    a = rv['a']
                    if 'c' in a:
                        out.append(('const', a['c'].get('s'), a['c']))
                    else:
                        pl = op_place(a)
                        go(pl['l'], field_path(pl) + path)
                elif rv['k'] in ('ref', 'rawptr'):
                    pl = rv['pl']
                    go(pl['l'], field_path(pl) + path)
                elif rv['k'] == 'cast' and is_place(rv['a']):
                    pl = op_place(rv['a'])
                    go(pl['l'], field_path(pl) + path)
                elif rv['k'] == 'agg':
                    if rv.get('tuple') and path and path[0].isdigit() and int(path[0]) < len(rv['ops']):
                        o = rv['ops'][int(path[0])]
                        if 'c' in o:
                            out.append(('const', o['c'].get('s'), o['c']))
                        else:
                            pl = op_place(o)
                            go(pl['l'], field_path(pl) + path[1:])
                    else:
                        out.append(('agg', rv, path))
                else:
                    out.append(('other', rvstr(rv)))
            else:
                c = d.call
                if through_calls and c.is_(*through_calls) and c.args:
                    a = c.args[0]
                    if 'c' in a:
                        out.append(('const', a['c'].get('s'), a['c']))
                    else:
                        pl = op_place(a)
                        go(pl['l'], field_path(pl) + path)
                else:
                    out.append(('call', c, path))

    if isinstance(op_or_local, int):
        go(op_or_local, ())
    elif 'c' in op_or_local:
        out.append(('const', op_or_local['c'].get('s'), op_or_local['c']))
    else:
        pl = op_place(op_or_local) if is_place(op_or_local) else op_or_local
        go(pl['l'], field_path(pl))
    return out


# pass-through calls that do not change "which value this is"
IDENTITY_CALLS = (
    r'^std::ops::Deref::deref$', r'^std::ops::DerefMut::deref_mut$',
    r'^std::borrow::Borrow::borrow$', r'^std::convert::AsRef::as_ref$',
    r'^std::convert::Into::into$', r'^std::convert::From::from$',
    r'^std::clone::Clone::clone$', r'^std::option::Option::<T>::as_ref$',
    r'^std::option::Option::<T>::as_deref$',
    r'^std::iter::IntoIterator::into_iter$', r'^std::vec::Vec::<T, A>::as_slice$',
    r'^std::string::String::as_str$', r'^std::option::Option::<&T>::cloned$',
    r'^std::option::Option::<&T>::copied$',
)


def switch_on(body, local):
    """Switch terminators whose discriminant is `local` (directly, via copies, or via
    a `Not`)."""
    out = []
    for b in range(body.n):
        if body.cleanup[b]:
            continue
        t = body.term(b)
        if t['k'] != 'switch':
            continue
        l = op_local(t['d'])
        if l is None:
            continue
        neg = False
        cur = l
        ok = False
        for _ in range(6):
            if cur == local:
                ok = True
                break
            ds = [d for d in body.defs().get(cur, []) if d.kind == 'assign' and not d.lhs['p']]
            if len(ds) != 1:
                break
            rv = ds[0].rv
            if rv['k'] == 'use' and is_place(rv['a']) and not op_place(rv['a'])['p']:
                cur = op_local(rv['a'])
            elif rv['k'] == 'un' and rv['op'] == 'Not' and is_place(rv['a']):
                neg = not neg
                cur = op_local(rv['a'])
            else:
                break
        if ok:
            out.append((b, neg))
    return out


def bool_edges(body, b, neg=False):
    """(true_edge, false_edge) of a boolean switch at block b."""
    t = body.term(b)
    f_t = None
    for v, bb in t['cases']:
        if v == 0:
            f_t = bb
    t_t = t['else']
    if f_t is None:
        return None, None
    te, fe = (b, t_t), (b, f_t)
    if neg:
        te, fe = fe, te
    return te, fe
