"""Fact loader and core program representation (CFG, dominators, def/use,
provenance slices) over the JSON exported by /verif/driver (ccfacts).

Everything here is generic; repository-specific rules live in props/.
"""
import json
import re
from collections import defaultdict, deque


# ----------------------------------------------------------------- operands
def is_place(op):
    return 'cp' in op or 'mv' in op


def op_place(op):
    return op.get('cp') or op.get('mv')


def op_local(op):
    p = op_place(op)
    return None if p is None else p['l']


def op_const(op):
    return op.get('c')


def const_val(op):
    c = op.get('c')
    if c is None:
        return None
    return c.get('v')


def proj_names(place):
    """Projection rendered as a tuple of short tokens: '*', field names,
    '@Variant', '[i]'."""
    out = []
    for e in place['p']:
        if e == '*':
            out.append('*')
        elif isinstance(e, str):
            out.append(e)
        elif 'n' in e:
            out.append(e['n'])
        elif 'dc' in e:
            out.append('@' + e['dc'])
        elif 'idx' in e:
            out.append('[_%d]' % e['idx'])
        elif 'cidx' in e:
            out.append('[%d]' % e['cidx'])
        elif 'sub_from' in e:
            out.append('[%d..%s%d]' % (e['sub_from'], '-' if e['from_end'] else '', e['sub_to']))
        else:
            out.append('?')
    return tuple(out)


def field_path(place):
    """Only the field names / variants (no derefs)."""
    return tuple(x for x in proj_names(place) if x != '*')


def pstr(place):
    s = '_%d' % place['l']
    for t in proj_names(place):
        s += '.' + t
    return s


def opstr(op):
    if 'cp' in op:
        return 'copy ' + pstr(op['cp'])
    if 'mv' in op:
        return 'move ' + pstr(op['mv'])
    if 'c' in op:
        c = op['c']
        if 'fn' in c:
            return 'fn ' + c['fn']['full']
        return 'const ' + c.get('s', '?')
    return '?'


def rvstr(rv):
    k = rv['k']
    if k == 'use':
        return opstr(rv['a'])
    if k == 'ref':
        return ('&mut ' if rv['mut'] else '&') + pstr(rv['pl'])
    if k == 'rawptr':
        return '&raw ' + pstr(rv['pl'])
    if k == 'agg':
        if 'adt' in rv:
            head = '%s::%s' % (rv['adt'], rv['variant'])
        elif 'closure' in rv:
            head = 'closure %s' % rv['closure']
        elif 'tuple' in rv:
            head = 'tuple'
        else:
            head = 'array'
        return '%s(%s)' % (head, ', '.join(opstr(o) for o in rv['ops']))
    if k == 'bin':
        return '%s(%s, %s)' % (rv['op'], opstr(rv['a']), opstr(rv['b']))
    if k == 'un':
        return '%s(%s)' % (rv['op'], opstr(rv['a']))
    if k == 'cast':
        return 'cast<%s>(%s) as %s' % (rv['ck'], opstr(rv['a']), rv['ty'])
    if k == 'discr':
        return 'discr(%s)' % pstr(rv['pl'])
    if k == 'repeat':
        return '[%s; %s]' % (opstr(rv['a']), rv['n'])
    if k == 'setdiscr':
        return 'setdiscr %d' % rv['vi']
    return rv.get('s', k)


class Call:
    """A call terminator."""
    __slots__ = ('body', 'b', 't', 'fn', 'defp', 'full', 'res', 'name', 'args', 'dest',
                 'target', 'ln', 'exp')

    def __init__(self, body, b, t):
        self.body = body
        self.b = b
        self.t = t
        f = t['f']
        fn = (f.get('c') or {}).get('fn')
        self.fn = fn
        self.defp = fn['def'] if fn else None
        self.full = fn['full'] if fn else opstr(f)
        self.res = fn.get('res') if fn else None
        self.name = fn['name'] if fn else None
        self.args = t['args']
        self.dest = t['dest']
        self.target = t['t']
        self.ln = t['ln']
        self.exp = t.get('exp', False)

    @property
    def callee(self):
        """Best identification: resolved instance if any, else the declared def."""
        return self.res or self.defp or self.full

    @property
    def trait(self):
        return self.fn.get('trait') if self.fn else None

    @property
    def self_ty(self):
        return self.fn.get('self_ty') if self.fn else None

    def is_(self, *pats):
        """Match declared def path, resolved path or full text against regexes."""
        for p in pats:
            r = re.compile(p)
            for s in (self.defp, self.res, self.full):
                if s and r.search(s):
                    return True
        return False

    def indirect_local(self):
        """Local holding the callee when the call is indirect (fn pointer)."""
        if self.fn is None:
            return op_local(self.t['f'])
        return None

    def where(self):
        return '%s:%d' % (self.body.file, self.ln)

    def __repr__(self):
        return '<call %s @bb%d %s>' % (self.full, self.b, self.where())


class Def:
    """One definition site of (part of) a local."""
    __slots__ = ('b', 'i', 'kind', 'lhs', 'rv', 'call', 'via')

    def __init__(self, b, i, kind, lhs=None, rv=None, call=None, via=None):
        self.b = b          # block
        self.i = i          # statement index, or None for the terminator
        self.kind = kind    # 'assign' | 'call' (destination) | 'mutarg' (call given &mut)
        self.lhs = lhs
        self.rv = rv
        self.call = call
        self.via = via      # for writes through a reference: the reference local


class Body:
    def __init__(self, d, facts):
        self.d = d
        self.facts = facts
        self.key = d['key']
        self.kind = d['kind']
        self.name = d.get('name')
        self.file = d['span'].rsplit(':', 1)[0]
        self.line = int(d['span'].rsplit(':', 1)[1])
        self.argc = d['argc']
        self.locals = d['locals']
        self.blocks = d['blocks']
        self.n = len(self.blocks)
        self.vars = d['vars']
        self.is_pub = d.get('pub', False)
        self.impl_trait = d.get('impl_trait')
        self.impl_self = d.get('impl_self')
        self.parent = d.get('parent')
        self.root = d.get('root')
        self._build_cfg()
        self._calls = None
        self._defs = None
        self._idom = None
        self._refs = None

    # ------------------------------------------------------------- basics
    def __repr__(self):
        return '<Body %s>' % self.key

    def where(self, ln=None):
        return '%s:%d' % (self.file, ln if ln is not None else self.line)

    def local_ty(self, l):
        return self.locals[l]['ty']

    def local_head(self, l):
        return self.locals[l]['h']

    def var_locals(self, name):
        return [v['pl']['l'] for v in self.vars if v['name'] == name and not v['pl']['p']]

    def var_name(self, l):
        for v in self.vars:
            if v['pl']['l'] == l and not v['pl']['p']:
                return v['name']
        return None

    def upvar_names(self):
        """For a closure body: debug names bound to fields of the environment (_1)."""
        out = {}
        for v in self.vars:
            pl = v['pl']
            if pl['l'] == 1 and pl['p']:
                for e in pl['p']:
                    if isinstance(e, dict) and 'f' in e:
                        out[e['f']] = v['name']
                        break
        return out

    def _build_cfg(self):
        self.succs = [[] for _ in range(self.n)]
        self.preds = [[] for _ in range(self.n)]
        self.cleanup = [b['cleanup'] for b in self.blocks]
        for i, b in enumerate(self.blocks):
            if b['cleanup']:
                continue
            t = b['term']
            k = t['k']
            ss = []
            if k == 'goto':
                ss = [t['t']]
            elif k == 'switch':
                d = t.get('d') or {}
                cv = d['c'].get('v') if 'c' in d else None
                if cv is None and is_place(d) and not op_place(d)['p']:
                    # `_4 = const false; switchInt(move _4)`: the temporary assigned in this very block
                    for st in reversed(b['st']):
                        if st['lhs']['l'] == op_place(d)['l'] and not st['lhs']['p']:
                            if st['rv']['k'] == 'use' and 'c' in st['rv']['a']:
                                cv = st['rv']['a']['c'].get('v')
                            break
                if cv is not None and not isinstance(cv, str):
                    # `if false { .. }` / `if CONST { .. }`: a switch on a literal takes one edge only
                    cv = int(cv)
                    hit = [c[1] for c in t['cases'] if c[0] == cv]
                    ss = hit[:1] if hit else [t['else']]
                else:
                    ss = [c[1] for c in t['cases']]
                    if not self._exhaustive_switch(b, t):
                        ss.append(t['else'])
            elif k in ('call', 'drop', 'assert'):
                if t.get('t') is not None:
                    ss = [t['t']]
            seen = []
            for s in ss:
                if s not in seen and not self.blocks[s]['cleanup']:
                    seen.append(s)
            self.succs[i] = seen
            for s in seen:
                self.preds[s].append(i)

    STD_VARIANTS = {'std::option::Option': 2, 'std::result::Result': 2, 'std::ops::ControlFlow': 2}

    def place_ty(self, pl):
        """Type (as printed by rustc) of a place, as far as the exported projections tell."""
        ty = self.local_ty(pl['l'])
        for e in pl['p']:
            if e == '*':
                ty = re.sub(r"^&('\w+ )?(mut )?", '', ty)
            elif isinstance(e, dict) and 'ty' in e:
                ty = e['ty']
            elif isinstance(e, dict) and 'dc' in e:
                pass
            else:
                return None
        return ty

    def _exhaustive_switch(self, blk, t):
        """The switch tests the discriminant of an enum and has one case per variant: its `otherwise` edge cannot be
        taken (rustc keeps it when the source has a `_` arm)."""
        d = t.get('d')
        if not d or not is_place(d) or op_place(d)['p']:
            return False
        dl = op_place(d)['l']
        src = None
        for st in reversed(blk['st']):
            if st['lhs']['l'] == dl and not st['lhs']['p']:
                src = st['rv']
                break
        if src is None or src['k'] != 'discr':
            return False
        ty = self.place_ty(src['pl'])
        if not ty:
            return False
        path = re.sub(r'<.*$', '', ty)
        n = self.STD_VARIANTS.get(path)
        if n is None and self.facts is not None:
            a = (self.facts.raw_adts or {}).get(path)
            if a is not None and a.get('kind') == 'Enum':
                n = len(a['variants'])
        if not n:
            return False
        vals = set(c[0] for c in t['cases'])
        return vals == set(range(n))

    def term(self, b):
        return self.blocks[b]['term']

    def stmts(self, b):
        return self.blocks[b]['st']

    def live_blocks(self):
        """Blocks reachable from entry on normal edges."""
        lv = self.__dict__.get('_live')
        if lv is None:
            lv = self.__dict__['_live'] = frozenset(self.reach(0))
        return lv

    def reach(self, start, avoid_edges=(), avoid_blocks=()):
        avoid_edges = set(avoid_edges)
        avoid_blocks = set(avoid_blocks)
        starts = [start] if isinstance(start, int) else list(start)
        seen = set(s for s in starts if s not in avoid_blocks)
        dq = deque(seen)
        while dq:
            b = dq.popleft()
            for s in self.succs[b]:
                if (b, s) in avoid_edges or s in avoid_blocks or s in seen:
                    continue
                seen.add(s)
                dq.append(s)
        return seen

    # ---------------------------------------------- path-sensitive reachability
    def _feas_prep(self):
        if getattr(self, '_feas', None) is not None:
            return self._feas
        borrowed = set()
        for b in self.blocks:
            if b['cleanup']:
                continue
            for st in b['st']:
                rv = st['rv']
                if (rv['k'] == 'ref' and rv.get('mut')) or rv['k'] == 'rawptr':
                    borrowed.add(rv['pl']['l'])
        # only locals whose variant can influence a branch are worth tracking: bases of discriminant reads and
        # switch operands, closed under "is copied / wrapped / `?`-ed into"
        rel = set()
        flows = []   # (dst, src)
        for b in self.blocks:
            if b['cleanup']:
                continue
            for st in b['st']:
                lhs, rv = st['lhs'], st['rv']
                if rv['k'] == 'discr':
                    rel.add(rv['pl']['l'])
                    rel.add(lhs['l'])
                elif rv['k'] == 'use' and is_place(rv['a']):
                    flows.append((lhs['l'], op_place(rv['a'])['l']))
                elif rv['k'] == 'agg':
                    for o in rv['ops']:
                        if is_place(o):
                            flows.append((lhs['l'], op_place(o)['l']))
            t = b['term']
            if t['k'] == 'switch' and is_place(t['d']):
                rel.add(op_place(t['d'])['l'])
            elif t['k'] == 'call':
                fn = ((t.get('f') or {}).get('c') or {}).get('fn') or {}
                if fn.get('def') == 'std::ops::Try::branch' and t['args'] and is_place(t['args'][0]):
                    flows.append((t['dest']['l'], op_place(t['args'][0])['l']))
        changed = True
        while changed:
            changed = False
            for d, s in flows:
                if d in rel and s not in rel:
                    rel.add(s)
                    changed = True
        # everything not relevant is treated like a borrowed local: never tracked
        borrowed = borrowed | (set(range(len(self.locals))) - rel)
        self._feas = borrowed
        return borrowed

    def _named_locals(self):
        if getattr(self, '_named', None) is None:
            self._named = set(v['pl']['l'] for v in self.vars if not v['pl']['p'])
        return self._named

    def _imm_place_key(self, pl):
        """Key of a place whose value cannot change during the call: a path under a shared-reference parameter."""
        cur = self.through_ref(pl)
        l = cur['l']
        if not self.is_param(l) or self.kind == 'Closure' and l == 1:
            return None
        ty = self.local_ty(l)
        if not ty.startswith('&') or ty.startswith('&mut'):
            return None
        if any(not (e == '*' or (isinstance(e, dict) and ('n' in e or 'dc' in e))) for e in cur['p']):
            return None
        # a `*` past the first one could go through a `&mut` field: only plain paths behind the one shared borrow
        if list(cur['p']).count('*') != 1 or cur['p'][0] != '*':
            return None
        return ('P', pstr(cur))

    def _feas_step(self, b, state):
        """Abstract execution of block b on `state`: returns [(successor, state')].  The state maps
        ('L', local, path) -> variant index / small constant held at that path of a never-mutably-borrowed local,
        ('P', place) -> variant of a place behind a shared-reference parameter, and ('D', tmp) -> the key whose
        discriminant `tmp` holds (so that the switch on tmp refines that key on each edge)."""
        borrowed = self._feas_prep()
        st_ = dict(state)

        def kill(l):
            for k in [k for k in st_ if (k[0] == 'L' and k[1] == l) or (k[0] == 'D' and k[1] == l)]:
                del st_[k]
            for k in [k for k, v in st_.items() if k[0] == 'D' and v[0] == 'L' and v[1] == l]:
                del st_[k]

        def copy_facts(sl, sp, dl, dp):
            if sl in borrowed:
                return
            n = len(sp)
            for k, v in list(st_.items()):
                if k[0] == 'L' and k[1] == sl and k[2][:n] == sp:
                    st_[('L', dl, dp + k[2][n:])] = v

        def plain_path(pl):
            pn = proj_names(pl)
            if any(x == '*' or x.startswith('[') or x == '?' for x in pn):
                return None
            return tuple(pn)
        for s in self.blocks[b]['st']:
            lhs, rv = s['lhs'], s['rv']
            l = lhs['l']
            if l in borrowed:
                # never tracked: nothing known about it, nothing to forget (moves out of tracked locals are handled below)
                k = rv['k']
                if k == 'use' and 'mv' in rv['a'] and not rv['a']['mv']['p'] and rv['a']['mv']['l'] not in borrowed:
                    kill(rv['a']['mv']['l'])
                elif k == 'agg':
                    for o in rv['ops']:
                        if 'mv' in o and not o['mv']['p'] and o['mv']['l'] not in borrowed:
                            kill(o['mv']['l'])
                continue
            if lhs['p']:
                if lhs['p'][0] != '*':
                    kill(l)
                continue
            # evaluate the right-hand side on the old state, then overwrite
            new = {}
            k = rv['k']
            if l not in borrowed:
                if k == 'agg' and ('vi' in rv or rv.get('tuple')):
                    if 'vi' in rv:
                        new[()] = rv['vi']
                    for i, o in enumerate(rv['ops']):
                        if not is_place(o):
                            continue
                        opl = op_place(o)
                        pp = plain_path(opl)
                        if pp is None or opl['l'] in borrowed:
                            continue
                        pre = (('@' + rv['variant'], rv['fields'][i]) if 'vi' in rv and i < len(rv.get('fields', [])) else (str(i),))
                        n = len(pp)
                        for kk, v in st_.items():
                            if kk[0] == 'L' and kk[1] == opl['l'] and kk[2][:n] == pp:
                                new[pre + kk[2][n:]] = v
                elif k == 'use':
                    a = rv['a']
                    if 'c' in a:
                        # compiler temporaries (drop flags) are not tracked: they multiply the states for nothing
                        v = a['c'].get('v') if l in self._named_locals() else None
                        if isinstance(v, bool):
                            new[()] = int(v)
                        elif isinstance(v, int) and 0 <= v < 256:
                            new[()] = v
                    else:
                        pl = op_place(a)
                        pp = plain_path(pl)
                        if pp is not None and pl['l'] not in borrowed:
                            n = len(pp)
                            for kk, v in st_.items():
                                if kk[0] == 'L' and kk[1] == pl['l'] and kk[2][:n] == pp:
                                    new[kk[2][n:]] = v
                elif k == 'discr':
                    pl = rv['pl']
                    pp = plain_path(pl)
                    key = None
                    if pp is not None and pl['l'] not in borrowed:
                        key = ('L', pl['l'], pp)
                    else:
                        key = self._imm_place_key(pl)
                    if key is not None:
                        if key in st_:
                            new[()] = st_[key]
                        new['D'] = key
            kill(l)
            # a moved-from local holds nothing any more
            if k == 'use' and 'mv' in rv['a'] and not rv['a']['mv']['p']:
                kill(rv['a']['mv']['l'])
            elif k == 'agg':
                for o in rv['ops']:
                    if 'mv' in o and not o['mv']['p']:
                        kill(o['mv']['l'])
            for pth, v in new.items():
                if pth == 'D':
                    st_[('D', l)] = v
                else:
                    st_[('L', l, pth)] = v
        t = self.blocks[b]['term']
        k = t['k']
        out = []
        if k == 'switch':
            d = t['d']
            dl = op_local(d) if is_place(d) and not op_place(d)['p'] else None
            val = st_.get(('L', dl, ())) if dl is not None else None
            link = st_.get(('D', dl)) if dl is not None else None
            cvals = [c[0] for c in t['cases']]
            for v, tgt in t['cases']:
                if val is not None and val != v:
                    continue
                s2 = dict(st_)
                if dl is not None and dl not in borrowed:
                    s2[('L', dl, ())] = v
                if link is not None:
                    s2[link] = v
                out.append((tgt, s2))
            if not (val is not None and val in cvals):
                out.append((t['else'], st_))
            return out
        if k == 'call':
            dest = t['dest']
            new = {}
            if not dest['p'] and dest['l'] not in borrowed:
                fn = ((t.get('f') or {}).get('c') or {}).get('fn') or {}
                dp = fn.get('def') or ''
                sty = fn.get('self_ty') or ''
                if dp == 'std::ops::Try::branch' and t['args'] and is_place(t['args'][0]):
                    apl = op_place(t['args'][0])
                    pp = plain_path(apl)
                    if pp is not None and apl['l'] not in borrowed:
                        isres = sty.startswith('std::result::Result<')
                        isopt = sty.startswith('std::option::Option<')
                        av = st_.get(('L', apl['l'], pp))
                        if av is not None and (isres or isopt):
                            new[()] = av if isres else 1 - av     # Ok(0)/Some(1) -> Continue(0); Err(1)/None(0) -> Break(1)
                        good = pp + (('@Ok', '0') if isres else ('@Some', '0'))
                        n = len(good)
                        if isres or isopt:
                            for kk, v in st_.items():
                                if kk[0] == 'L' and kk[1] == apl['l'] and kk[2][:n] == good:
                                    new[('@Continue', '0') + kk[2][n:]] = v
                elif dp == 'std::ops::FromResidual::from_residual':
                    if sty.startswith('std::result::Result<'):
                        new[()] = 1
                    elif sty.startswith('std::option::Option<'):
                        new[()] = 0
            if dest['l'] not in borrowed:
                kill(dest['l'])
            for pth, v in new.items():
                st_[('L', dest['l'], pth)] = v
        for s in self.succs[b]:
            out.append((s, st_))
        return out

    def reach_feasible(self, start, avoid_edges=(), avoid_blocks=()):
        """Blocks reachable from `start` along paths that are consistent on the variants / small constants held by
        never-borrowed locals and by places behind shared-reference parameters (a `match` on the same scrutinee twice
        takes the same arm twice; an `Ok(..)` built on one path is not seen as `Err` by the `?` that follows).
        Over-approximates real reachability, under-approximates plain CFG reachability."""
        avoid_edges = set(avoid_edges)
        avoid_blocks = set(avoid_blocks)
        starts = [start] if isinstance(start, int) else list(start)
        seen_states = {}
        seen = set()
        work = deque()
        for s in starts:
            if s not in avoid_blocks:
                work.append((s, frozenset()))
        CAP = 200
        while work:
            b, fs = work.popleft()
            ss = seen_states.setdefault(b, set())
            if fs in ss or frozenset() in ss:
                continue
            if len(ss) >= CAP:
                fs = frozenset()
            ss.add(fs)
            seen.add(b)
            for (s, st2) in self._feas_step(b, dict(fs)):
                if (b, s) in avoid_edges or s in avoid_blocks or self.cleanup[s]:
                    continue
                work.append((s, frozenset(st2.items())))
        return seen

    def reach_from_succ(self, b, s, **kw):
        """Blocks reachable after taking edge b->s."""
        return self.reach(s, **kw)

    def edge_dominates(self, edge, target):
        """Every path entry -> target takes `edge` (target reachable at all)."""
        if target not in self.live_blocks():
            return False
        return target not in self._reach_avoiding(frozenset([tuple(edge)]), frozenset(), target)

    def edges_dominate(self, edges, target):
        """Every path entry -> target takes at least one of `edges` (target reachable at all)."""
        if target not in self.live_blocks():
            return False
        return target not in self._reach_avoiding(frozenset(tuple(e) for e in edges), frozenset(), target)

    def block_dominates(self, a, target):
        if a == target:
            return True
        if target not in self.live_blocks():
            return False
        return target not in self._reach_avoiding(frozenset(), frozenset([a]), target)

    def dominated_by_edge(self, edge):
        """All live blocks every path to which takes `edge`."""
        live = self.live_blocks()
        r = self._reach_avoiding(frozenset([tuple(edge)]), frozenset(), None)
        return set(b for b in live if b not in r)

    def dominated_by_block(self, a):
        live = self.live_blocks()
        r = self._reach_avoiding(frozenset(), frozenset([a]), None)
        return set(b for b in live if b not in r) | {a}

    def is_live(self, b):
        return b in self.live_blocks()

    def _reach_avoiding(self, edges, blocks, target):
        """Blocks reachable from the entry without the given edges / blocks: the plain CFG answer when it already excludes
        `target`, otherwise the path-sensitive one.  Both are cached per (edges, blocks)."""
        cache = self.__dict__.setdefault('_ra_cache', {})
        key = (edges, blocks)
        ent = cache.get(key)
        if ent is None:
            ent = cache[key] = [self.reach(0, avoid_edges=edges, avoid_blocks=blocks), None]
        if target is not None and target not in ent[0]:
            return ent[0]
        if ent[1] is None:
            ent[1] = self.reach_feasible(0, avoid_edges=edges, avoid_blocks=blocks)
        return ent[1]

    def return_blocks(self):
        live = self.live_blocks()
        return [b for b in live if self.term(b)['k'] == 'return']

    # -------------------------------------------------------------- calls
    def calls(self, *pats):
        if self._calls is None:
            cs = []
            live = self.live_blocks()
            for i, b in enumerate(self.blocks):
                if b['cleanup'] or i not in live:
                    continue      # unwinding paths and dead code (`if false { .. }`) are not part of the program
                if b['term']['k'] == 'call':
                    cs.append(Call(self, i, b['term']))
            self._calls = cs
        if not pats:
            return list(self._calls)
        return [c for c in self._calls if c.is_(*pats)]

    def call_at(self, b):
        """The Call of block b (also for a dead block, which `calls()` does not list: callers that walk raw blocks must not crash)."""
        if getattr(self, '_call_by_block', None) is None:
            self._call_by_block = {c.b: c for c in self.calls()}
        c = self._call_by_block.get(b)
        if c is None and 0 <= b < len(self.blocks) and self.blocks[b]['term']['k'] == 'call':
            c = Call(self, b, self.blocks[b]['term'])
            self._call_by_block[b] = c
        return c

    # --------------------------------------------------------------- defs
    def refs(self):
        """ref local -> list of (place, is_mut) it may point to (from `_r = &[mut] place`
        and copies/reborrows of such refs)."""
        if self._refs is not None:
            return self._refs
        direct = defaultdict(list)
        copies = defaultdict(set)
        for i, b in enumerate(self.blocks):
            if b['cleanup']:
                continue
            for st in b['st']:
                lhs, rv = st['lhs'], st['rv']
                if lhs['p']:
                    continue
                if rv['k'] in ('ref', 'rawptr'):
                    pl = rv['pl']
                    if pl['p'] and pl['p'][0] == '*':
                        # reborrow through another ref: &(*_r).x
                        copies[lhs['l']].add((pl['l'], json.dumps(pl['p'][1:])))
                    else:
                        direct[lhs['l']].append((pl, rv['mut']))
                elif rv['k'] in ('use', 'cast') and is_place(rv['a']):
                    pl = op_place(rv['a'])
                    if not pl['p']:
                        copies[lhs['l']].add((pl['l'], '[]'))
        # resolve copies transitively (bounded)
        out = defaultdict(list)
        for l, v in direct.items():
            out[l].extend(v)
        changed = True
        rounds = 0
        while changed and rounds < 20:
            changed = False
            rounds += 1
            for l, srcs in copies.items():
                for (src, extra) in srcs:
                    extra = json.loads(extra)
                    for (pl, m) in list(out.get(src, [])):
                        npl = {'l': pl['l'], 'p': pl['p'] + extra}
                        key = (json.dumps(npl), m)
                        have = set((json.dumps(p), mm) for p, mm in out[l])
                        if key not in have:
                            out[l].append((npl, m))
                            changed = True
        # reborrows through a reference that has no known target (a parameter, a call
        # result): the place itself, rooted at that reference, is the target
        for b in self.blocks:
            if b['cleanup']:
                continue
            for st in b['st']:
                lhs, rv = st['lhs'], st['rv']
                if lhs['p'] or rv['k'] not in ('ref', 'rawptr'):
                    continue
                pl = rv['pl']
                if pl['p'] and pl['p'][0] == '*' and not out.get(pl['l']):
                    key = (json.dumps(pl), rv['mut'])
                    have = set((json.dumps(p), mm) for p, mm in out[lhs['l']])
                    if key not in have:
                        out[lhs['l']].append((pl, rv['mut']))
        # second round of copies for the newly added targets
        for _ in range(5):
            grew = False
            for l, srcs in copies.items():
                for (src, extra) in srcs:
                    extra_l = json.loads(extra)
                    for (pl, m) in list(out.get(src, [])):
                        npl = {'l': pl['l'], 'p': pl['p'] + extra_l}
                        key = (json.dumps(npl), m)
                        have = set((json.dumps(p), mm) for p, mm in out[l])
                        if key not in have:
                            out[l].append((npl, m))
                            grew = True
            if not grew:
                break
        self._refs = out
        return out

    def through_ref(self, pl):
        """Rewrite `(*_r).rest` into `target.rest` when _r has a single known target."""
        cur = pl
        for _ in range(6):
            if not cur['p'] or cur['p'][0] != '*':
                return cur
            ts = self.refs().get(cur['l'], [])
            if len(ts) != 1:
                return cur
            tgt = ts[0][0]
            if tgt['l'] == cur['l']:
                return cur
            cur = {'l': tgt['l'], 'p': tgt['p'] + cur['p'][1:]}
        return cur

    def defs(self):
        """local -> [Def].  Includes writes through `&mut` references to the local
        and calls that receive a `&mut` reference to it."""
        if self._defs is not None:
            return self._defs
        defs = defaultdict(list)
        refs = self.refs()
        live = self.live_blocks()
        for bi, b in enumerate(self.blocks):
            if b['cleanup'] or bi not in live:
                # dead code (a switch on a literal, the arm of an exhaustive match that cannot be taken) is outside the program
                continue
            for si, st in enumerate(b['st']):
                lhs, rv = st['lhs'], st['rv']
                d = Def(bi, si, 'assign', lhs=lhs, rv=rv)
                defs[lhs['l']].append(d)
                if lhs['p'] and lhs['p'][0] == '*':
                    for (pl, m) in refs.get(lhs['l'], []):
                        defs[pl['l']].append(Def(bi, si, 'assign', lhs=lhs, rv=rv, via=lhs['l']))
            t = b['term']
            if t['k'] == 'call':
                c = self.call_at(bi)
                defs[c.dest['l']].append(Def(bi, None, 'call', lhs=c.dest, call=c))
                for a in c.args:
                    l = op_local(a)
                    if l is None or op_place(a)['p']:
                        continue
                    for (pl, m) in refs.get(l, []):
                        if m:
                            defs[pl['l']].append(Def(bi, None, 'mutarg', lhs=pl, call=c, via=l))
        self._defs = defs
        return defs

    def is_param(self, l):
        return 1 <= l <= self.argc

    # ------------------------------------------------------- pretty print
    def dump(self, cleanup=False):
        out = ['fn %s  [%s]  %s' % (self.key, self.kind, self.d['span'])]
        for v in self.vars:
            out.append('  debug %s => %s' % (v['name'], pstr(v['pl'])))
        for i, b in enumerate(self.blocks):
            if b['cleanup'] and not cleanup:
                continue
            out.append(' bb%d%s:' % (i, ' (cleanup)' if b['cleanup'] else ''))
            for st in b['st']:
                out.append('    %s = %s   // %d' % (pstr(st['lhs']), rvstr(st['rv']), st['ln']))
            t = b['term']
            k = t['k']
            if k == 'call':
                c = Call(self, i, t)
                res = ''
                if c.res and c.res != c.defp:
                    res = '  => ' + c.res
                out.append('    %s = CALL %s(%s) -> %s%s   // %d' % (
                    pstr(c.dest), c.full, ', '.join(opstr(a) for a in c.args),
                    'bb%s' % t['t'] if t['t'] is not None else '!', res, t['ln']))
            elif k == 'switch':
                out.append('    SWITCH %s %s else bb%d   // %d' % (
                    opstr(t['d']), ' '.join('%d:bb%d' % (v, bb) for v, bb in t['cases']), t['else'], t['ln']))
            elif k == 'goto':
                out.append('    GOTO bb%d' % t['t'])
            elif k == 'drop':
                out.append('    DROP %s -> bb%d' % (pstr(t['pl']), t['t']))
            elif k == 'assert':
                out.append('    ASSERT %s == %s [%s %s] -> bb%d   // %d' % (
                    opstr(t['cond']), t['expected'], t['msg'], t['op'], t['t'], t['ln']))
            else:
                out.append('    %s' % k.upper())
        return '\n'.join(out)


class Facts:
    def __init__(self, path, view='plain'):
        with open(path) as f:
            txt = f.read()
        # Container vocabulary (normal form, DESIGN 4.1): a VecDeque is a LinkedList as far as the rules are concerned — the
        # methods the two share (push_front / push_back / pop_* / front / back / iter / len / split_off / append ...) mean the same
        # on both, so a faithful migration of a chain or of the tracer list from one to the other leaves every verdict unchanged.
        # Methods only VecDeque has (indexing, swap, remove(i), insert(i, ..)) keep a name no LinkedList rule knows.
        txt = txt.replace('std::collections::VecDeque::<', 'std::collections::LinkedList::<') \
                 .replace('std::collections::VecDeque<', 'std::collections::LinkedList<') \
                 .replace('std::collections::vec_deque::', 'std::collections::linked_list::')
        d = json.loads(txt)
        self.path = path
        self.view = view
        from . import inline
        self.inline_report = inline.transform(d)
        if view == 'expanded':
            self.inline_report['expanded_closures'] = inline.expand_call_once(d)
        self.crate = d['crate']
        self.features = d['features']
        self.raw = d
        self.raw_adts = {a['path']: a for a in d['adts']}
        self.bodies = {}
        for b in d['bodies']:
            self.bodies[b['key']] = Body(b, self)
        self.adts = {a['path']: a for a in d['adts']}
        self.impls = d['impls']
        self.statics = d['statics']
        self.consts = {c['path']: c for c in d['consts']}
        self._closures_of = None

    def __contains__(self, k):
        return k in self.bodies

    def get(self, key):
        return self.bodies.get(key)

    def fn(self, key):
        b = self.bodies.get(key)
        if b is None:
            raise AnchorMissing('function %s not found' % key)
        return b

    def find(self, pattern, kinds=('Fn', 'AssocFn', 'Closure'), promoted=False):
        r = re.compile(pattern)
        return [b for k, b in self.bodies.items()
                if r.search(k) and b.kind in kinds and (promoted or 'promoted_of' not in b.d)]

    def fns(self):
        return [b for b in self.bodies.values() if 'promoted_of' not in b.d]

    def closures_of(self, key, deep=True):
        """Closure bodies nested in function `key` (transitively)."""
        out = []
        for k, b in self.bodies.items():
            if b.kind == 'Closure' and 'promoted_of' not in b.d:
                if deep and b.root == key or (not deep and b.parent == key):
                    out.append(b)
        return out

    def family(self, key):
        """A function together with all closures nested in it."""
        b = self.fn(key)
        return [b] + self.closures_of(key)

    def promoted(self, key, idx):
        return self.bodies.get('%s::promoted[%d]' % (key, idx))

    def trait_impls(self, trait_pat):
        r = re.compile(trait_pat)
        return [i for i in self.impls if i.get('trait') and r.search(i['trait'])]

    def impl_method(self, impl, name):
        for it in impl['items']:
            if it['name'] == name:
                return self.bodies.get(it['key'])
        return None


class AnchorMissing(Exception):
    pass


# ============================================================== provenance
class Slice:
    """Result of a backward data-dependence slice inside one body."""

    def __init__(self, body):
        self.body = body
        self.locals = set()
        self.params = set()      # param locals reached
        self.consts = []         # constant operands reached
        self.calls = []          # Call objects whose result (or &mut effect) was reached
        self.aggs = []           # aggregate rvalues reached
        self.rvs = []            # all (Def) visited
        self.places = []         # every place read

    def has_call(self, *pats):
        return [c for c in self.calls if c.is_(*pats)]

    def param_names(self):
        return set(self.body.var_name(p) or ('_%d' % p) for p in self.params)


def backward_slice(body, start, stop_call=None, follow_mutarg=True, max_nodes=5000):
    """Backward slice from locals `start` (iterable of local indices or operands).

    stop_call(call) -> True makes that call a leaf (its arguments are not followed).
    The slice is flow-insensitive (all definitions of a local), which is sound for
    "may derive from" and is used with ALL-origins conditions for "must".
    """
    sl = Slice(body)
    defs = body.defs()
    work = deque()
    # Work items are (local, path): `path` is the field path of the part of the local that is needed (() = all of it).
    # Aggregates, `?` and partial assignments are followed field-sensitively: the `.1` of `(a, b)` depends on b only.

    def push_op(op, path=()):
        if op is None:
            return
        if 'c' in op:
            sl.consts.append(op['c'])
            return
        pl = op_place(op)
        if pl is not None:
            push_place(pl, path)

    def push_place(pl, path=()):
        sl.places.append(pl)
        fp = field_path(pl)
        if any(isinstance(e, dict) and ('idx' in e or 'cidx' in e or 'sub_from' in e) for e in pl['p']):
            work.append((pl['l'], ()))
        else:
            work.append((pl['l'], tuple(fp) + tuple(path)))
        for e in pl['p']:
            if isinstance(e, dict) and 'idx' in e:
                work.append((e['idx'], ()))

    for s in start:
        if isinstance(s, int):
            work.append((s, ()))
        elif isinstance(s, dict) and ('l' in s and 'p' in s):
            push_place(s)
        else:
            push_op(s)
    seen_calls = set()
    seen = set()
    while work and len(sl.locals) < max_nodes:
        l, path = work.popleft()
        if len(path) > 8:
            path = ()
        if (l, path) in seen or (l, ()) in seen:
            continue
        seen.add((l, path))
        sl.locals.add(l)
        if body.is_param(l):
            sl.params.add(l)
        for d in defs.get(l, []):
            if d.kind == 'mutarg' and not follow_mutarg:
                continue
            if d.kind == 'assign':
                rv = d.rv
                k = rv['k']
                p2 = path
                lfp = tuple(field_path(d.lhs)) if d.lhs is not None and d.lhs['l'] == l and d.via is None else ()
                if lfp:
                    # a write into part of the local: relevant only if it overlaps the part that is needed
                    n = min(len(lfp), len(path))
                    if lfp[:n] != path[:n]:
                        continue
                    p2 = path[len(lfp):] if len(path) >= len(lfp) else ()
                elif d.via is not None:
                    p2 = ()
                sl.rvs.append(d)
                if k == 'use':
                    push_op(rv['a'], p2)
                elif k in ('ref', 'rawptr'):
                    push_place(rv['pl'], p2)
                elif k == 'discr':
                    push_place(rv['pl'])
                elif k == 'agg':
                    ops = rv['ops']
                    sel = None
                    if p2:
                        h = p2[0]
                        if rv.get('tuple') and h.isdigit() and int(h) < len(ops):
                            sel = (int(h), p2[1:])
                        elif 'vi' in rv and h.startswith('@'):
                            if h != '@' + rv['variant']:
                                continue          # another variant: this definition cannot supply the needed part
                            if len(p2) > 1 and p2[1] in rv.get('fields', []):
                                sel = (rv['fields'].index(p2[1]), p2[2:])
                        elif 'adt' in rv and h in rv.get('fields', []):
                            sel = (rv['fields'].index(h), p2[1:])
                    sl.aggs.append(rv)
                    if sel is not None:
                        push_op(ops[sel[0]], sel[1])
                    else:
                        for o in ops:
                            push_op(o)
                elif k == 'bin':
                    push_op(rv['a'])
                    push_op(rv['b'])
                elif k in ('un', 'cast', 'repeat'):
                    push_op(rv['a'], p2 if k == 'cast' else ())
            else:
                c = d.call
                if d.kind == 'call' and c.defp == 'std::ops::FromResidual::from_residual' and path and path[0] in ('@Ok', '@Some', '@Continue'):
                    continue      # builds an Err / None: cannot supply the success payload that is needed
                sl.rvs.append(d)
                first = id(c) not in seen_calls
                if first:
                    seen_calls.add(id(c))
                    sl.calls.append(c)
                if stop_call is not None and stop_call(c):
                    continue
                if d.kind == 'call' and c.defp == 'std::ops::Try::branch' and c.args and path[:2] == ('@Continue', '0'):
                    # `x?`: the continue payload is the Ok / Some payload of x
                    sty = c.self_ty or ''
                    inner = ('@Ok', '0') if sty.startswith('std::result::Result<') else (('@Some', '0') if sty.startswith('std::option::Option<') else None)
                    if inner is not None:
                        push_op(c.args[0], inner + tuple(path[2:]))
                        continue
                for a in c.args:
                    push_op(a)
                il = c.indirect_local()
                if il is not None:
                    work.append((il, ()))
    return sl


def copy_chain_sources(body, op_or_local, through_calls=()):
    """Identity-form provenance: follow only moves/copies/reborrows/derefs and the
    listed pass-through calls (regexes).  Returns a set of terminal descriptors:
      ('param', local, field_path) | ('const', s) | ('call', Call) | ('agg', rv) | ('other', rvstr)
    """
    out = []
    seen = set()
    defs = body.defs()

    def go(l, path):
        keyp = (l, path)
        if keyp in seen:
            return
        seen.add(keyp)
        if body.is_param(l):
            out.append(('param', l, path))
            return
        ds = [d for d in defs.get(l, []) if d.kind != 'mutarg' and d.via is None]
        if not ds:
            out.append(('undef', l, path))
        want = path[0] if path and str(path[0]).startswith('@') else None
        for d in ds:
            if want is not None:
                # only the definitions that can build the variant whose payload is followed
                if d.kind == 'call' and d.call.defp == 'std::ops::FromResidual::from_residual' and want in ('@Ok', '@Some', '@Continue'):
                    continue
                if d.kind == 'assign' and not d.lhs['p'] and d.rv['k'] == 'agg' and 'vi' in d.rv and '@' + d.rv['variant'] != want:
                    continue
            if d.kind == 'assign':
                if d.lhs['p']:
                    # partial write: only relevant if path matches prefix; keep conservative
                    out.append(('partial', rvstr(d.rv)))
                    continue
                rv = d.rv
                if rv['k'] == 'use':
                    a = rv['a']
                    if 'c' in a:
                        out.append(('const', a['c'].get('s'), a['c']))
                    else:
                        pl = op_place(a)
                        go(pl['l'], field_path(pl) + path)
                elif rv['k'] in ('ref', 'rawptr'):
                    pl = rv['pl']
                    go(pl['l'], field_path(pl) + path)
                elif rv['k'] == 'cast' and is_place(rv['a']):
                    pl = op_place(rv['a'])
                    go(pl['l'], field_path(pl) + path)
                elif rv['k'] == 'agg':
                    if rv.get('tuple') and path and path[0].isdigit() and int(path[0]) < len(rv['ops']):
                        o = rv['ops'][int(path[0])]
                        if 'c' in o:
                            out.append(('const', o['c'].get('s'), o['c']))
                        else:
                            pl = op_place(o)
                            go(pl['l'], field_path(pl) + path[1:])
                    elif 'vi' in rv and len(path) >= 2 and path[0] == '@' + rv['variant'] and path[1] in rv.get('fields', []):
                        o = rv['ops'][rv['fields'].index(path[1])]
                        if 'c' in o:
                            out.append(('const', o['c'].get('s'), o['c']))
                        else:
                            pl = op_place(o)
                            go(pl['l'], field_path(pl) + path[2:])
                    else:
                        out.append(('agg', rv, path))
                else:
                    out.append(('other', rvstr(rv)))
            else:
                c = d.call
                if through_calls and c.is_(*through_calls) and c.args:
                    a = c.args[0]
                    if 'c' in a:
                        out.append(('const', a['c'].get('s'), a['c']))
                    else:
                        pl = op_place(a)
                        p2 = path
                        if c.defp == 'std::ops::Try::branch' and tuple(path[:2]) == ('@Continue', '0'):
                            sty = c.self_ty or ''
                            p2 = (('@Ok', '0') if sty.startswith('std::result::Result<') else ('@Some', '0')) + tuple(path[2:])
                        go(pl['l'], field_path(pl) + p2)
                else:
                    out.append(('call', c, path))

    if isinstance(op_or_local, int):
        go(op_or_local, ())
    elif 'c' in op_or_local:
        out.append(('const', op_or_local['c'].get('s'), op_or_local['c']))
    else:
        pl = op_place(op_or_local) if is_place(op_or_local) else op_or_local
        go(pl['l'], field_path(pl))
    return out


# pass-through calls that do not change "which value this is"
IDENTITY_CALLS = (
    r'^std::ops::Deref::deref$', r'^std::ops::DerefMut::deref_mut$',
    r'^std::borrow::Borrow::borrow$', r'^std::convert::AsRef::as_ref$',
    r'^std::convert::Into::into$', r'^std::convert::From::from$',
    r'^std::clone::Clone::clone$', r'^std::option::Option::<T>::as_ref$',
    r'^std::option::Option::<T>::as_deref$',
    r'^std::iter::IntoIterator::into_iter$', r'^std::vec::Vec::<T, A>::as_slice$',
    r'^std::string::String::as_str$', r'^std::option::Option::<&T>::cloned$',
    r'^std::option::Option::<&T>::copied$',
)


def switch_on(body, local):
    """Switch terminators whose discriminant is `local` (directly, via copies, or via
    a `Not`)."""
    out = []
    for b in range(body.n):
        if body.cleanup[b]:
            continue
        t = body.term(b)
        if t['k'] != 'switch':
            continue
        l = op_local(t['d'])
        if l is None:
            continue
        neg = False
        cur = l
        ok = False
        for _ in range(6):
            if cur == local:
                ok = True
                break
            ds = [d for d in body.defs().get(cur, []) if d.kind == 'assign' and not d.lhs['p']]
            if len(ds) != 1:
                break
            rv = ds[0].rv
            if rv['k'] == 'use' and is_place(rv['a']) and not op_place(rv['a'])['p']:
                cur = op_local(rv['a'])
            elif rv['k'] == 'un' and rv['op'] == 'Not' and is_place(rv['a']):
                neg = not neg
                cur = op_local(rv['a'])
            else:
                break
        if ok:
            out.append((b, neg))
    return out


def bool_edges(body, b, neg=False):
    """(true_edge, false_edge) of a boolean switch at block b."""
    t = body.term(b)
    f_t = None
    for v, bb in t['cases']:
        if v == 0:
            f_t = bb
    t_t = t['else']
    if f_t is None:
        return None, None
    te, fe = (b, t_t), (b, f_t)
    if neg:
        te, fe = fe, te
    return te, fe
