"""Shared analyses: `?`-sites and error exits, derived infallibility, closure
linking, mutable-handle taint (who writes through a &mut parameter)."""
import re

from .facts import (op_local, op_place, is_place, pstr, opstr, rvstr, proj_names, field_path,
                    backward_slice, switch_on, bool_edges)
from . import libtable as T


# ------------------------------------------------------------ small utils
def single_def(body, l):
    ds = [d for d in body.defs().get(l, []) if d.kind != 'mutarg' and d.via is None and not (d.lhs and d.lhs['p'])]
    return ds[0] if len(ds) == 1 else None


def resolve_copy(body, l, limit=12):
    """Follow plain moves/copies backwards to the first interesting definition.
    Returns (local, Def or None)."""
    cur = l
    for _ in range(limit):
        d = single_def(body, cur)
        if d is None:
            return cur, None
        if d.kind == 'assign' and d.rv['k'] == 'use' and is_place(d.rv['a']) and not op_place(d.rv['a'])['p']:
            cur = op_local(d.rv['a'])
            continue
        return cur, d
    return cur, None


def flows_to(body, l, target=0, limit=50):
    """Forward: does local l reach `target` through plain moves/copies — or, for a Result / Option, through a `?` that re-raises
    it (`x?` returns from_residual(x's error) to the caller: the error x carries reaches the return place)?"""
    S = {l}
    changed = True
    n = 0
    tries = None
    while changed and n < limit:
        changed = False
        n += 1
        if tries is None:
            tries = []
            for c in body.calls(r'^std::ops::Try::branch$'):
                if c.args and is_place(c.args[0]) and not op_place(c.args[0])['p']:
                    tries.append((op_local(c.args[0]), c))
        for (al, c) in tries:
            if al in S:
                # the residual of this `?`: the from_residual call fed by the Break payload of the branch result
                for r in body.calls(r'^std::ops::FromResidual::from_residual$'):
                    if r.dest['p'] or r.dest['l'] in S or not r.args or not is_place(r.args[0]):
                        continue
                    cur, d = resolve_copy(body, op_local(r.args[0]))
                    src = None
                    if d is not None and d.kind == 'assign' and d.rv['k'] == 'use' and is_place(d.rv['a']):
                        src = op_place(d.rv['a'])
                    if src is not None and src['l'] == c.dest['l']:
                        S.add(r.dest['l'])
                        changed = True
        for b in range(body.n):
            if body.cleanup[b]:
                continue
            for st in body.stmts(b):
                rv = st['rv']
                if rv['k'] == 'use' and is_place(rv['a']) and not st['lhs']['p']:
                    src = op_place(rv['a'])
                    if src['l'] in S and not src['p'] and st['lhs']['l'] not in S:
                        S.add(st['lhs']['l'])
                        changed = True
    return target in S


def closure_args(F, call):
    """Closure bodies passed (by value or by reference) as arguments of `call`.
    Returns [(arg index, closure Body, aggregate rvalue)]."""
    body = call.body
    out = []
    for i, a in enumerate(call.args):
        l = op_local(a)
        if l is None:
            continue
        for cb, rv in closures_in_local(F, body, l):
            out.append((i, cb, rv))
    return out


def closures_in_local(F, body, l, depth=0):
    out = []
    if depth > 4:
        return out
    for d in body.defs().get(l, []):
        if d.kind != 'assign' or d.lhs['p']:
            continue
        rv = d.rv
        if rv['k'] == 'agg' and 'closure' in rv:
            cb = F.get(rv['closure'])
            if cb is not None:
                out.append((cb, rv))
        elif rv['k'] == 'use' and is_place(rv['a']):
            out.extend(closures_in_local(F, body, op_local(rv['a']), depth + 1))
        elif rv['k'] == 'ref':
            out.extend(closures_in_local(F, body, rv['pl']['l'], depth + 1))
    return out


def local_callee(F, call):
    """Body of the crate-local function a call resolves to (None for std / deps /
    unresolved generic dispatch)."""
    if call.fn is None:
        return None
    if call.fn.get('res_local') and call.res in F.bodies:
        return F.bodies[call.res]
    if call.defp in F.bodies and call.fn.get('res') in (None, call.defp):
        return F.bodies[call.defp]
    return None


def ret_ty(body):
    return body.locals[0]['ty']


def returns_result(body):
    return body.locals[0]['ty'].startswith('std::result::Result<')


# ---------------------------------------------------------------- `?` sites
class TrySite:
    __slots__ = ('branch', 'src_local', 'src_def', 'sw_block', 'cont', 'brk', 'residual', 'kind')

    def __repr__(self):
        return '<? @bb%d src=%s>' % (self.branch.b, self.src_def.call.full if self.src_def and self.src_def.call else self.src_local)


def try_sites(body):
    """All `expr?` in the body: the Try::branch call, the value it tests and where
    that value comes from, the continue / break successors and the from_residual call."""
    out = []
    for c in body.calls(r'^std::ops::Try::branch$'):
        ts = TrySite()
        ts.branch = c
        ts.kind = 'result' if 'Result<' in (c.self_ty or '') else 'option'
        l = op_local(c.args[0])
        ts.src_local, ts.src_def = resolve_copy(body, l) if l is not None else (None, None)
        ts.sw_block = ts.cont = ts.brk = None
        ts.residual = None
        # the switch on the discriminant of the ControlFlow
        dl = c.dest['l']
        nb = c.target
        seen = 0
        while nb is not None and seen < 4:
            t = body.term(nb)
            if t['k'] == 'switch':
                ts.sw_block = nb
                for v, bb in t['cases']:
                    if v == 0:
                        ts.cont = bb
                    elif v == 1:
                        ts.brk = bb
                if ts.cont is None:
                    ts.cont = t['else']
                break
            if t['k'] == 'goto':
                nb = t['t']
                seen += 1
                continue
            break
        if ts.brk is not None:
            # from_residual reachable from the break block before anything else
            cur = ts.brk
            for _ in range(6):
                t = body.term(cur)
                if t['k'] == 'call':
                    cc = body.call_at(cur)
                    if cc.is_(r'^std::ops::FromResidual::from_residual$'):
                        ts.residual = cc
                    break
                if t['k'] == 'goto':
                    cur = t['t']
                    continue
                break
        out.append(ts)
    return out


class ErrExit:
    """A point where the function starts returning an error."""
    __slots__ = ('b', 'i', 'kind', 'src_call', 'src_local', 'try_site', 'desc', 'ln', 'variant')

    def __repr__(self):
        return '<err %s bb%d %s>' % (self.kind, self.b, self.desc)


def err_variant_of(body, op):
    """Error::<Variant> when the operand is a freshly built crate Error."""
    l = op_local(op)
    if l is None:
        return None
    _, d = resolve_copy(body, l)
    if d is not None and d.kind == 'assign' and d.rv['k'] == 'agg' and d.rv.get('adt', '').endswith('error::Error'):
        return d.rv['variant']
    return None


def assembled_result(body, l, seen=None):
    """Every definition of local l builds the Result / Option in place: an Ok / Some / Err / None aggregate, the from_residual of
    an inner `?`, or a move of such a local."""
    seen = seen if seen is not None else set()
    if l in seen:
        return True
    seen.add(l)
    ds = [d for d in body.defs().get(l, []) if d.via is None]
    if not ds:
        return False
    for d in ds:
        if d.kind == 'mutarg' or (d.lhs is not None and d.lhs['p']):
            return False
        if d.kind == 'assign':
            rv = d.rv
            if rv['k'] == 'agg' and rv.get('adt') in ('std::result::Result', 'std::option::Option'):
                continue
            if rv['k'] == 'use' and is_place(rv['a']) and not op_place(rv['a'])['p']:
                if not assembled_result(body, op_local(rv['a']), seen):
                    return False
                continue
            return False
        if not d.call.is_(r'^std::ops::FromResidual::from_residual$'):
            return False
    return True


def reraised_call(body, op):
    """The call whose `Err` payload the operand is (moved out of `(r as Err).0`, possibly through From::from), else None."""
    from .facts import proj_names
    for _ in range(4):
        if not is_place(op):
            return None
        l = op_local(op)
        cur, d = resolve_copy(body, l)
        if d is None:
            return None
        if d.kind == 'call' and d.call.is_(r'^std::convert::(From::from|Into::into)$') and d.call.args:
            op = d.call.args[0]
            continue
        if d.kind != 'assign' or d.rv['k'] != 'use' or not is_place(d.rv['a']):
            return None
        pl = op_place(d.rv['a'])
        names = proj_names(pl)
        if names[:1] == ('@Err',) and len(names) == 2:
            _, d2 = resolve_copy(body, pl['l'])
            if d2 is not None and d2.kind == 'call':
                return d2.call
            return None
        return None
    return None


def error_exits(body):
    """Explicit `Err(..)` returns, `?` propagations and tail-returned Results."""
    out = []
    if not (returns_result(body) or body.locals[0]['ty'].startswith('std::ops::ControlFlow')):
        return out
    live = body.live_blocks()
    for b in sorted(live):
        for i, st in enumerate(body.stmts(b)):
            rv = st['rv']
            if rv['k'] == 'agg' and rv.get('adt') == 'std::result::Result' and rv['variant'] == 'Err':
                if st['lhs']['p']:
                    continue
                if st['lhs']['l'] == 0 or flows_to(body, st['lhs']['l']):
                    e = ErrExit()
                    e.b, e.i, e.kind = b, i, 'explicit'
                    e.src_call = e.src_local = e.try_site = None
                    e.variant = err_variant_of(body, rv['ops'][0])
                    e.desc = 'Err(%s)' % (e.variant or '..')
                    e.ln = st['ln']
                    # `match r { Err(e) => Err(e), .. }`: the error of the call that produced r, re-raised (what `?` does)
                    src = reraised_call(body, rv['ops'][0])
                    if src is not None:
                        e.kind = 'try'
                        e.src_call = src
                        e.src_local = src.dest['l']
                        e.desc = '%s? (re-raised)' % src.full
                    out.append(e)
    for ts in try_sites(body):
        if ts.residual is None or ts.branch.b not in live:
            continue
        dl = ts.residual.dest
        if dl['p'] or not (dl['l'] == 0 or flows_to(body, dl['l'])):
            continue
        e = ErrExit()
        e.b, e.i, e.kind = ts.residual.b, None, 'try'
        e.try_site = ts
        e.src_local = ts.src_local
        e.src_call = ts.src_def.call if (ts.src_def is not None and ts.src_def.kind == 'call') else None
        e.variant = None
        e.desc = '%s?' % (e.src_call.full if e.src_call else '_%s' % ts.src_local)
        e.ln = ts.branch.ln
        if e.src_call is None and ts.src_local is not None and assembled_result(body, ts.src_local):
            # `?` on a Result assembled in place (the return value of an inlined helper): it only relays the errors raised
            # inside, each of which is an exit of its own (flows_to follows them through this `?`)
            e.kind = 'relay'
        out.append(e)
    for c in body.calls():
        if c.b not in live or c.dest['p']:
            continue
        if c.is_(r'^std::ops::FromResidual::from_residual$', r'^std::ops::Try::branch$'):
            continue
        if c.dest['l'] == 0 or (body.locals[c.dest['l']]['ty'] == ret_ty(body) and flows_to(body, c.dest['l'])):
            e = ErrExit()
            e.b, e.i, e.kind = c.b, None, 'tail'
            e.src_call = c
            e.src_local = c.dest['l']
            e.try_site = None
            e.variant = None
            e.desc = 'return %s' % c.full
            e.ln = c.ln
            out.append(e)
    return out


# ----------------------------------------------------- derived infallibility
class Fallibility:
    """A crate-local function is *infallible in practice* when every error exit has
    an infallible source; leaves come from libtable.INFALLIBLE."""

    def __init__(self, F):
        self.F = F
        self.memo = {}
        self.why = {}

    def call_infallible(self, call):
        F = self.F
        for pat, reason in T.INFALLIBLE:
            if call.is_(pat):
                # the receiver type must be a fixed-size datum where required
                return True
        cal = local_callee(F, call)
        if cal is not None:
            return self.fn_infallible(cal.key)
        # generic dispatch to a crate trait: all crate impls infallible?
        if call.fn and call.fn.get('res') is None and call.trait:
            impls = [i for i in F.impls if i.get('trait') == call.trait]
            bodies = [F.impl_method(i, call.name) for i in impls]
            bodies = [b for b in bodies if b is not None]
            if bodies and all(self.fn_infallible(b.key) for b in bodies):
                return True
        # try_for_each / try_fold fail exactly when the closure they run fails
        if call.is_(r'^std::iter::Iterator::(try_for_each|try_fold)$'):
            cl = closure_args(F, call)
            if cl and all(self.fn_infallible(cb.key) for (_i, cb, _rv) in cl):
                return True
        # Option<Result<..>>::transpose forwards the error of the Result inside the Option it is given
        if call.is_(r'^std::option::Option::<std::result::Result<T, E>>::transpose$') and call.args and is_place(call.args[0]):
            return self.value_infallible(call.body, op_local(call.args[0]))
        # std combinators carrying closures: infallible iff they only forward
        if call.is_(*T.RESULT_FORWARDERS):
            srcs = self.forwarded_sources(call)
            if srcs is not None:
                return all(srcs)
        return False

    def value_infallible(self, body, l, depth=0, seen=None):
        """No definition of local l (a Result, or an Option holding one) can be / contain an `Err` that stems from a
        fallible source."""
        seen = seen if seen is not None else set()
        if l in seen or depth > 12:
            return True
        seen.add(l)
        ds = body.defs().get(l, [])
        if not ds:
            return False
        tsites = None
        for d in ds:
            if d.kind == 'mutarg' or (d.lhs is not None and d.lhs['p']):
                return False
            if d.kind == 'assign':
                rv = d.rv
                if rv['k'] == 'agg' and rv.get('adt') in ('std::result::Result', 'std::option::Option'):
                    if rv['variant'] in ('Ok', 'None'):
                        continue
                    if rv['variant'] == 'Some':
                        o = rv['ops'][0]
                        if is_place(o) and not op_place(o)['p'] and ('Result<' in body.local_ty(op_local(o))):
                            if not self.value_infallible(body, op_local(o), depth + 1, seen):
                                return False
                        continue
                    src = reraised_call(body, rv['ops'][0])
                    if src is None or not self.call_infallible(src):
                        return False
                    continue
                if rv['k'] == 'use' and is_place(rv['a']) and not op_place(rv['a'])['p']:
                    if not self.value_infallible(body, op_local(rv['a']), depth + 1, seen):
                        return False
                    continue
                return False
            if d.kind == 'call':
                c = d.call
                if c.is_(r'^std::ops::FromResidual::from_residual$'):
                    if tsites is None:
                        tsites = try_sites(body)
                    ts = [x for x in tsites if x.residual is c]
                    if not ts or ts[0].src_def is None or ts[0].src_def.kind != 'call' or not self.call_infallible(ts[0].src_def.call):
                        return False
                    continue
                if not self.call_infallible(c):
                    return False
        return True

    def forwarded_sources(self, call):
        """For `x.map_err(f)`, `x.map(f)`: the fallibility of x."""
        body = call.body
        if not call.args:
            return None
        l = op_local(call.args[0])
        if l is None:
            return None
        _, d = resolve_copy(body, l)
        if d is None or d.kind != 'call':
            return None
        return [self.call_infallible(d.call)]

    def fn_infallible(self, key):
        if key in self.memo:
            return self.memo[key]
        self.memo[key] = True   # optimistic for recursion
        body = self.F.bodies[key]
        res = True
        reasons = []
        if not returns_result(body):
            self.memo[key] = True
            return True
        for e in error_exits(body):
            if e.kind == 'relay':
                continue
            if e.kind == 'explicit':
                res = False
                reasons.append(e.desc)
            elif e.src_call is not None:
                if not self.call_infallible(e.src_call):
                    res = False
                    reasons.append(e.desc)
            elif e.kind == 'try' and e.src_local is not None and self.value_infallible(body, e.src_local):
                pass      # `?` on a Result assembled in place (an inlined helper's return value) that cannot be an Err
            else:
                res = False
                reasons.append(e.desc)
        # closures that can produce an error which the function forwards
        self.memo[key] = res
        self.why[key] = reasons
        return res


# ------------------------------------------------- mutable-handle taint
HANDLE_RE = re.compile(r'&mut |IterMut|Entry<|::Drain<|MutexGuard|ValuesMut|&\'[a-z_0-9]+ mut ')


def is_handle_ty(ty):
    return bool(HANDLE_RE.search(ty)) or ty.startswith('*mut')


class WriteSite:
    __slots__ = ('b', 'i', 'desc', 'call', 'ln', 'self_reporting')

    def __repr__(self):
        return '<write bb%d %s>' % (self.b, self.desc)


class MutAnalysis:
    """Which statements of a body may write memory reachable from parameter P
    (a `&mut T`), directly, through derived handles, through closures, or through
    crate-local callees (summaries computed on demand)."""

    def __init__(self, F):
        self.F = F
        self.summ = {}   # (key, param) -> bool (may write through param)

    def derived(self, body, seeds):
        """Locals that (may) hold a mutable handle derived from the seed locals."""
        D = set(seeds)
        changed = True
        rounds = 0
        while changed and rounds < 30:
            changed = False
            rounds += 1
            for b in range(body.n):
                if body.cleanup[b]:
                    continue
                for st in body.stmts(b):
                    lhs, rv = st['lhs'], st['rv']
                    tgt = lhs['l']
                    if tgt in D:
                        continue
                    src = None
                    k = rv['k']
                    if k in ('ref', 'rawptr'):
                        if rv['mut'] and rv['pl']['l'] in D and ('*' in proj_names(rv['pl']) or is_handle_ty(body.local_ty(rv['pl']['l']))):
                            src = rv['pl']['l']
                        elif rv['pl']['l'] in D and is_handle_ty(body.local_ty(tgt)):
                            src = rv['pl']['l']
                    elif k == 'use' and is_place(rv['a']):
                        if op_local(rv['a']) in D and is_handle_ty(body.local_ty(tgt)):
                            src = op_local(rv['a'])
                    elif k == 'agg':
                        if any(op_local(o) in D for o in rv['ops'] if is_place(o)):
                            if is_handle_ty(body.local_ty(tgt)) or 'closure' in rv:
                                src = 1
                    elif k == 'cast' and is_place(rv['a']):
                        if op_local(rv['a']) in D and is_handle_ty(body.local_ty(tgt)):
                            src = 1
                    if src is not None and not lhs['p']:
                        D.add(tgt)
                        changed = True
                t = body.term(b)
                if t['k'] == 'call':
                    c = body.call_at(b)
                    if c.dest['l'] not in D and not c.dest['p']:
                        if any(op_local(a) in D for a in c.args if is_place(a)) and is_handle_ty(body.local_ty(c.dest['l'])):
                            D.add(c.dest['l'])
                            changed = True
        return D

    def closure_writes(self, cb, rv, D_creator, depth):
        """Does closure `cb` (created by aggregate rv) write through a handle it
        captured from D_creator, or through a handle parameter?"""
        seeds = set()
        # captured handles: env is _1; fields f whose creator operand is in D
        cap = [i for i, o in enumerate(rv['ops']) if is_place(o) and op_local(o) in D_creator]
        return cap, cb

    def writes(self, body, seeds, depth=0, param_handles=True):
        """List of WriteSite for writes through handles derived from `seeds`."""
        F = self.F
        D = self.derived(body, seeds)
        out = []
        live = body.live_blocks()
        for b in sorted(live):
            for i, st in enumerate(body.stmts(b)):
                lhs = st['lhs']
                if lhs['l'] in D and '*' in proj_names(lhs):
                    w = WriteSite()
                    w.b, w.i, w.call, w.ln = b, i, None, st['ln']
                    w.desc = 'assign %s = %s' % (pstr(lhs), rvstr(st['rv'])[:60])
                    w.self_reporting = False
                    out.append(w)
                # closure environment field (captured by &mut): _1.f.* = ..
            t = body.term(b)
            if t['k'] != 'call':
                continue
            c = body.call_at(b)
            hargs = [(k, a) for k, a in enumerate(c.args) if is_place(a) and op_local(a) in D]
            if not hargs:
                continue
            wr, why = self.call_writes(c, hargs, D, depth)
            if wr:
                w = WriteSite()
                w.b, w.i, w.call, w.ln = b, None, c, c.ln
                w.desc = 'call %s%s' % (c.full[:90], why)
                w.self_reporting = any(c.is_(p) for p, _ in T.SELF_REPORTING)
                out.append(w)
        return out, D

    def call_writes(self, c, hargs, D, depth):
        F = self.F
        body = c.body
        if c.is_(*T.NONWRITING):
            # may still run a writing closure on the handle (Option::map etc.)
            for (ai, cb, rv) in closure_args(F, c):
                if self.closure_may_write(cb, rv, D, depth, handle_params=True):
                    return True, ' [closure %s writes]' % cb.key.rsplit('::', 1)[-1]
            return False, ''
        cal = local_callee(F, c)
        if cal is not None and depth < 6:
            for (k, a) in hargs:
                if self.param_written(cal, k + 1, depth + 1):
                    return True, ' [callee writes arg %d]' % k
            # closures handed to a crate-local callee
            for (ai, cb, rv) in closure_args(F, c):
                if self.closure_may_write(cb, rv, D, depth, handle_params=False):
                    return True, ' [closure writes]'
            return False, ''
        # closure call: <closure as FnMut>::call_mut(&mut clos, args)
        if c.is_(r'^std::ops::Fn(Mut|Once)?::call'):
            for (ai, cb, rv) in closure_args(F, c):
                if self.closure_may_write(cb, rv, D, depth, handle_params=True):
                    return True, ' [closure writes]'
        # unknown / std callee given a mutable handle: it writes unless only closures
        for (k, a) in hargs:
            ty = body.local_ty(op_local(a))
            if is_handle_ty(ty):
                return True, ''
        return False, ''

    def closure_may_write(self, cb, rv, D_creator, depth, handle_params):
        if depth > 6:
            return True
        seeds = set()
        cap_fields = [i for i, o in enumerate(rv['ops']) if is_place(o) and op_local(o) in D_creator]
        # handle parameters (|attr: &mut Attribute| ...)
        if handle_params:
            for p in range(2, cb.argc + 1):
                if is_handle_ty(cb.local_ty(p)) or 'tuple' in cb.local_head(p) or True:
                    if HANDLE_RE.search(cb.local_ty(p)):
                        seeds.add(p)
        # captured: locals defined from `_1.<f>` / `(*_1).<f>`
        if cap_fields:
            for b in range(cb.n):
                if cb.cleanup[b]:
                    continue
                for st in cb.stmts(b):
                    rvv = st['rv']
                    pl = None
                    if rvv['k'] == 'use' and is_place(rvv['a']):
                        pl = op_place(rvv['a'])
                    elif rvv['k'] in ('ref', 'rawptr'):
                        pl = rvv['pl']
                    if pl is not None and pl['l'] == 1:
                        for e in pl['p']:
                            if isinstance(e, dict) and 'f' in e:
                                if e['f'] in cap_fields and not st['lhs']['p']:
                                    seeds.add(st['lhs']['l'])
                                break
            # direct writes through env fields: (*_1.f) = ...
            for b in range(cb.n):
                if cb.cleanup[b]:
                    continue
                for st in cb.stmts(b):
                    lhs = st['lhs']
                    if lhs['l'] == 1 and '*' in proj_names(lhs):
                        for e in lhs['p']:
                            if isinstance(e, dict) and 'f' in e:
                                if e['f'] in cap_fields:
                                    return True
                                break
                t = cb.term(b)
                if t['k'] == 'call':
                    # env field passed directly
                    pass
        if not seeds:
            return False
        ws, _ = self.writes(cb, seeds, depth + 1)
        return bool(ws)

    def param_written(self, body, param, depth=0):
        key = (body.key, param)
        if key in self.summ:
            return self.summ[key]
        self.summ[key] = False
        if param > body.argc:
            return False
        if not is_handle_ty(body.local_ty(param)):
            self.summ[key] = False
            return False
        ws, _ = self.writes(body, {param}, depth)
        self.summ[key] = bool(ws)
        return bool(ws)


# ------------------------------------------------------------- call graph
class CallGraph:
    """Resolved crate-local call graph.  Edges: direct calls to crate-local
    functions, closures created in a body (they run at the latest when the value they
    are handed to is used), and — for calls dispatched on a generic parameter to a
    crate trait — every crate impl of that trait method."""

    def __init__(self, F):
        self.F = F
        self.out = {}
        self.direct = {}     # precise edges only: resolved crate-local callees and closures created
        by_adt = {}
        for i in F.impls:
            h = i.get('self_head') or {}
            if isinstance(h, dict) and h.get('adt') and i.get('trait'):
                by_adt.setdefault(h['adt'], []).append(i)
        for body in F.fns():
            es = set()
            ds = set()
            for c in body.calls():
                cal0 = local_callee(F, c)
                if cal0 is not None:
                    ds.add(cal0.key)
                # generic library code instantiated with a crate type may call any trait
                # method of that type (Deserializer::read::<T> -> T::read)
                if c.fn and not c.fn.get('res_local'):
                    for g in c.fn.get('gargs', []):
                        g0 = g.lstrip('&').replace('mut ', '')
                        g0 = g0.split('<')[0]
                        for i in by_adt.get(g0, []):
                            for it in i['items']:
                                if it['key'] in F.bodies:
                                    es.add(it['key'])
                cal = local_callee(F, c)
                if cal is not None:
                    es.add(cal.key)
                elif c.fn and c.fn.get('res') is None and c.trait:
                    for i in F.impls:
                        if i.get('trait') == c.trait:
                            m = F.impl_method(i, c.name)
                            if m is not None:
                                es.add(m.key)
                    # default method body of a crate trait
                    if c.defp in F.bodies:
                        es.add(c.defp)
            for b in range(body.n):
                if body.cleanup[b]:
                    continue
                for st in body.stmts(b):
                    rv = st['rv']
                    if rv['k'] == 'agg' and 'closure' in rv and rv['closure'] in F.bodies:
                        es.add(rv['closure'])
                        ds.add(rv['closure'])
                    # function items used as values (map(Serializable::length))
                    if rv['k'] == 'use' and 'c' in rv['a'] and 'fn' in rv['a']['c']:
                        fn = rv['a']['c']['fn']
                        k = fn.get('res') or fn.get('def')
                        if k in F.bodies:
                            es.add(k)
                t = body.term(b)
                if t['k'] == 'call':
                    for a in t['args']:
                        if 'c' in a and 'fn' in a['c']:
                            fn = a['c']['fn']
                            k = fn.get('res') or fn.get('def')
                            if k in F.bodies:
                                es.add(k)
            self.out[body.key] = es
            self.direct[body.key] = ds

    def reachable(self, roots):
        seen = set()
        work = list(roots)
        while work:
            k = work.pop()
            if k in seen or k not in self.out:
                continue
            seen.add(k)
            work.extend(self.out[k])
        return seen

    def callers(self, key):
        return [k for k, es in self.out.items() if key in es]


def api_roots(F):
    """Functions callable from outside the crate: public free functions, public
    methods of public types, and trait impl methods of public types."""
    roots = []
    for b in F.fns():
        if b.kind == 'Closure':
            continue
        head = b.d.get('impl_self_head') or {}
        adt = head.get('adt') if isinstance(head, dict) else None
        if b.impl_trait:
            if adt is None or (adt in F.adts and F.adts[adt]['pub']) or adt not in F.adts:
                roots.append(b.key)
        elif b.is_pub:
            if adt is None or (adt in F.adts and F.adts[adt]['pub']):
                roots.append(b.key)
    return roots


# ------------------------------------------------------------ panic sites
PANIC_CALLS = [
    (r'^std::option::Option::<T>::(unwrap|expect)$', 'unwrap'),
    (r'^std::result::Result::<T, E>::(unwrap|expect|unwrap_err|expect_err)$', 'unwrap'),
    (r'^core::panicking::|^std::rt::begin_panic|^std::rt::panic_fmt|^core::panic', 'panic'),
    (r'^std::ops::Index::index$|^std::ops::IndexMut::index_mut$', 'index'),
    (r'^core::slice::<impl \[T\]>::(copy_from_slice|clone_from_slice|split_at|split_at_mut|swap|chunks|'
     r'chunks_exact|windows|rotate_left|rotate_right|copy_within|select_nth_unstable)$', 'slice-op'),
    (r'^std::vec::Vec::<[^>]*>::(remove|swap_remove|insert|split_off|drain|truncate_front)$', 'vec-op'),
    (r'^std::collections::LinkedList::<[^>]*>::split_off$', 'list-split'),
    (r'^std::collections::VecDeque::<[^>]*>::(remove|insert|swap|split_off)$', 'deque-op'),
    (r'^core::str::<impl str>::(split_at|split_at_mut)$', 'str-op'),
    (r'^std::string::String::(remove|insert|insert_str|split_off|drain|replace_range|truncate)$', 'string-op'),
    (r'^std::iter::Iterator::step_by$', 'step_by'),
    (r'^std::cell::RefCell::<T>::(borrow|borrow_mut)$', 'refcell'),
    # crypto_core 10.3.0: `self.readable.split_at(len)` with the announced length, unchecked (read_vec uses read_exact instead)
    (r"^cosmian_crypto_core::bytes_ser_de::Deserializer::<'a>::read_vec_as_ref$", 'lib-panic'),
]


class PanicSite:
    __slots__ = ('body', 'b', 'kind', 'detail', 'ln', 'call', 'term', 'exp')

    def key(self):
        return '%s:%s' % (self.kind, self.detail)

    def __repr__(self):
        return '<panic %s %s %s:%d>' % (self.kind, self.detail, self.body.key, self.ln)


def narrow_int_type(body, t):
    cond = t.get('cond')
    if cond is None or not is_place(cond):
        return None
    l = op_place(cond)['l']
    for d in body.defs().get(l, []):
        if d.kind == 'assign' and d.rv['k'] == 'bin' and d.rv['op'].endswith('WithOverflow'):
            for o in (d.rv['a'], d.rv['b']):
                ty = body.local_ty(op_local(o)) if is_place(o) and not op_place(o)['p'] else (o.get('c', {}).get('ty') if 'c' in o else None)
                if ty in ('i8', 'u8', 'i16', 'u16', 'i32', 'u32'):
                    return ty
    return None


def panic_sites(body):
    out = []
    live = body.live_blocks()
    for b in sorted(live):
        t = body.term(b)
        if t['k'] == 'assert':
            ps = PanicSite()
            ps.body, ps.b, ps.ln, ps.call, ps.term = body, b, t['ln'], None, t
            ps.exp = t.get('exp', False)
            ps.kind = t['msg']
            ps.detail = t['op'] or t['msg']
            if ps.kind == 'overflow':
                # arithmetic on integers narrower than a pointer is named with its type: the arguments that discharge
                # length / counter arithmetic on usize do not carry over to an i8 or a u32
                nt = narrow_int_type(body, t)
                if nt:
                    ps.detail = '%s:%s' % (ps.detail, nt)
            out.append(ps)
        elif t['k'] == 'call':
            c = body.call_at(b)
            for pat, kind in PANIC_CALLS:
                if c.is_(pat):
                    ps = PanicSite()
                    ps.body, ps.b, ps.ln, ps.call, ps.term = body, b, c.ln, c, t
                    ps.exp = c.exp
                    ps.kind = kind
                    st = c.fn.get('self_ty') or c.fn.get('impl_self') or ''
                    ps.detail = '%s<%s>' % (c.name, re.sub(r"'[a-z_0-9]+ ", '', st)[:60]) if kind == 'index' else c.name
                    out.append(ps)
                    break
            if t.get('t') is None and not any(x.b == b for x in out):
                # diverging call (panic!, unreachable!, todo!)
                ps = PanicSite()
                ps.body, ps.b, ps.ln, ps.call, ps.term = body, b, c.ln, c, t
                ps.exp = c.exp
                ps.kind = 'diverge'
                ps.detail = c.name or '?'
                out.append(ps)
    return out


# --------------------------------------------------- length guards (E-PANIC)
from .facts import copy_chain_sources, IDENTITY_CALLS  # noqa: E402

LEN_CALLS = (r'^core::slice::<impl \[T\]>::len$', r'^std::vec::Vec::<[^>]*>::len$',
             r'^core::str::<impl str>::len$', r'^std::string::String::len$',
             r'^std::collections::LinkedList::<[^>]*>::len$', r'^std::collections::VecDeque::<[^>]*>::len$')


def roots_of(body, op):
    """Identity roots (params / calls / aggregates) of an operand, as hashable keys."""
    out = set()
    for s in copy_chain_sources(body, op, through_calls=IDENTITY_CALLS):
        if s[0] == 'param':
            out.add(('param', s[1], s[2]))
        elif s[0] == 'call':
            out.add(('call', s[1].b))
        elif s[0] == 'const':
            out.add(('const', s[1]))
        elif s[0] == 'agg':
            out.add(('agg', id(s[1])))
        else:
            out.add((s[0], str(s[1:])[:80]))
    return out


def classify_scalar(body, op):
    """('const', v) | ('len', roots) | ('other', None) for an integer operand."""
    if 'c' in op:
        return ('const', op['c'].get('v'))
    l = op_local(op)
    if l is None:
        return ('other', None)
    cur, d = resolve_copy(body, l)
    if d is None:
        return ('other', None)
    if d.kind == 'call' and d.call.is_(*LEN_CALLS):
        return ('len', roots_of(body, d.call.args[0]))
    if d.kind == 'assign':
        rv = d.rv
        if rv['k'] == 'use' and 'c' in rv['a']:
            return ('const', rv['a']['c'].get('v'))
        if rv['k'] == 'cast':
            return classify_scalar(body, rv['a'])
        if rv['k'] == 'un' and rv['op'] == 'PtrMetadata':
            return ('len', roots_of(body, rv['a']))
    return ('other', None)


def comparisons(body):
    """Switches on the result of an integer comparison: list of dicts
    {b, op, a, b_, true_edge, false_edge}."""
    out = []
    for b in range(body.n):
        if body.cleanup[b]:
            continue
        for st in body.stmts(b):
            rv = st['rv']
            if rv['k'] == 'bin' and rv['op'] in ('Lt', 'Le', 'Gt', 'Ge', 'Eq', 'Ne') and not st['lhs']['p']:
                for (sb, neg) in switch_on(body, st['lhs']['l']):
                    te, fe = bool_edges(body, sb, neg)
                    if te is None:
                        continue
                    out.append({'blk': sb, 'op': rv['op'], 'a': rv['a'], 'b': rv['b'], 'te': te, 'fe': fe,
                                'ln': st['ln']})
    return out


def len_at_least_edges(body, roots, need):
    """Edges on which len(x) >= need is known, for x with identity roots `roots`."""
    edges = []
    if need <= 1:
        for c in body.calls(r'::is_empty$'):
            if c.args and roots_of(body, c.args[0]) & roots:
                for (sb, neg) in switch_on(body, c.dest['l']):
                    te, fe = bool_edges(body, sb, neg)
                    if fe is not None:
                        edges.append(fe)
    # `x.get(..N)` / `x.get(N..)` is Some only when len(x) >= N: the Some edge of a match on it, the continue edge of a `?`
    # on it or on its `ok_or(..)`
    for c in body.calls(r'core::slice::<impl \[T\]>::get$'):
        if len(c.args) != 2 or not (roots_of(body, c.args[0]) & roots):
            continue
        ra = range_arg(body, c.args[1])
        if ra is None:
            continue
        consts = [v[1] for v in ra[2] if v[0] == 'const' and v[1] is not None]
        if len(consts) != len(ra[2]) or not consts or max(consts) < need:
            continue
        edges += present_edges(body, c)
        for k in body.calls(r'^std::option::Option::<T>::ok_or(_else)?$'):
            if k.args and is_place(k.args[0]):
                cur, d = resolve_copy(body, op_local(k.args[0]))
                if cur == c.dest['l'] or (d is not None and d.kind == 'call' and d.call is c):
                    edges += present_edges(body, k)
    for cmp_ in comparisons(body):
        ca, cb = classify_scalar(body, cmp_['a']), classify_scalar(body, cmp_['b'])
        op = cmp_['op']
        if ca[0] == 'len' and cb[0] == 'const' and ca[1] & roots and cb[1] is not None:
            g = cb[1]
            # len OP g
            if op == 'Lt' and g >= need:
                edges.append(cmp_['fe'])
            elif op == 'Ge' and g >= need:
                edges.append(cmp_['te'])
            elif op == 'Gt' and g + 1 >= need:
                edges.append(cmp_['te'])
            elif op == 'Le' and g + 1 >= need:
                edges.append(cmp_['fe'])
            elif op == 'Eq' and g >= need:
                edges.append(cmp_['te'])
            elif op == 'Ne' and g >= need:
                edges.append(cmp_['fe'])
        elif cb[0] == 'len' and ca[0] == 'const' and cb[1] & roots and ca[1] is not None:
            g = ca[1]
            # g OP len
            if op == 'Gt' and g >= need:
                edges.append(cmp_['fe'])
            elif op == 'Le' and g >= need:
                edges.append(cmp_['te'])
            elif op == 'Lt' and g + 1 >= need:
                edges.append(cmp_['te'])
            elif op == 'Ge' and g + 1 >= need:
                edges.append(cmp_['fe'])
            elif op == 'Eq' and g >= need:
                edges.append(cmp_['te'])
            elif op == 'Ne' and g >= need:
                edges.append(cmp_['fe'])
    return edges


def range_arg(body, op):
    """Decode a Range* aggregate operand: (kind, start, end) with constant bounds or None."""
    l = op_local(op)
    if l is None:
        return None
    _, d = resolve_copy(body, l)
    if d is None or d.kind != 'assign' or d.rv['k'] != 'agg' or 'adt' not in d.rv:
        return None
    adt = d.rv['adt']
    if not adt.startswith('std::ops::Range'):
        return None
    vals = []
    for o in d.rv['ops']:
        c = classify_scalar(body, o)
        vals.append(c)
    return (adt.rsplit('::', 1)[-1], d.rv['fields'], vals, d.rv['ops'])


def all_places(body):
    """Every place mentioned in a live statement or terminator of `body` (reads and writes alike)."""
    out = []

    def walk(x):
        if isinstance(x, dict):
            if 'l' in x and 'p' in x and isinstance(x.get('l'), int):
                out.append(x)
            for v in x.values():
                walk(v)
        elif isinstance(x, list):
            for v in x:
                walk(v)
    for b in body.live_blocks():
        for st in body.stmts(b):
            walk(st)
        walk(body.term(b))
    return out


def const_splits(body):
    """Every constant-position cut of a slice in `body`, normalised to the range form:
    `x[..N]` -> ('RangeTo', (N,)), `x[N..]` -> ('RangeFrom', (N,)), `x[A..B]` -> ('Range', (A, B));
    `x.split_at(N)` contributes ('RangeTo', (N,)) when its .0 is read and ('RangeFrom', (N,)) when its .1 is."""
    from .facts import field_path
    out = []
    for c in body.calls(r'^std::ops::Index(Mut)?::index(_mut)?$', r'core::slice::<impl \[T\]>::get(_mut)?$'):
        ra = range_arg(body, c.args[1]) if len(c.args) == 2 else None
        if ra:
            out.append((ra[0], tuple(v[1] for v in ra[2]), c))
    for c in body.calls(r'core::slice::<impl \[T\]>::split_at(_mut)?$'):
        n = classify_scalar(body, c.args[1])
        if c.dest is None:
            continue
        used = set()
        for pl in all_places(body):
            if pl['l'] == c.dest['l']:
                fp = field_path(pl)
                if fp:
                    used.add(fp[0])
        if '0' in used:
            out.append(('RangeTo', (n[1],), c))
        if '1' in used:
            out.append(('RangeFrom', (n[1],), c))
    return out


def array_len_of_ty(ty):
    m = re.search(r'\[[^;\[\]]+; (\d+)\]', ty)
    return int(m.group(1)) if m else None


# ------------------------------------------------ closure <-> creator linking
def closure_creation_sites(F, cb):
    """(parent body, block, stmt, aggregate rvalue, closure local) where closure cb is built."""
    out = []
    par = F.get(cb.parent) if cb.parent in F.bodies else None
    cands = [par] if par is not None else []
    if not cands:
        cands = [b for b in F.fns() if b.key == cb.root]
    for pb in cands:
        for b in sorted(pb.live_blocks()):
            for st in pb.stmts(b):
                rv = st['rv']
                if rv['k'] == 'agg' and rv.get('closure') == cb.key:
                    out.append((pb, b, st, rv, st['lhs']['l']))
    return out


def closure_consumers(F, cb):
    """Calls in the parent that receive the closure (possibly through moves / refs):
    [(parent body, Call, index of the closure argument)]."""
    out = []
    for (pb, b, st, rv, cl) in closure_creation_sites(F, cb):
        S = {cl}
        for _ in range(5):
            for bb in sorted(pb.live_blocks()):
                for s2 in pb.stmts(bb):
                    r2 = s2['rv']
                    if s2['lhs']['p']:
                        continue
                    if r2['k'] == 'use' and is_place(r2['a']) and op_local(r2['a']) in S:
                        S.add(s2['lhs']['l'])
                    elif r2['k'] == 'ref' and r2['pl']['l'] in S:
                        S.add(s2['lhs']['l'])
        for c in pb.calls():
            for i, a in enumerate(c.args):
                if is_place(a) and op_local(a) in S:
                    out.append((pb, c, i))
    return out


def upvar_operand(F, cb, field_index):
    """Creator-side operand captured as environment field `field_index` of closure cb."""
    for (pb, b, st, rv, cl) in closure_creation_sites(F, cb):
        if field_index < len(rv['ops']):
            return pb, rv['ops'][field_index]
    return None, None


def env_field_of(place):
    """For a place rooted at the closure environment (_1): index of the captured field."""
    if place['l'] != 1:
        return None
    for e in place['p']:
        if isinstance(e, dict) and 'f' in e:
            return e['f']
    return None


def deep_calls(F, body, ops, depth=0, seen=None, follow_mutarg=False):
    """Calls in the backward slice of `ops`, continued through closure parameters (to the
    receiver of the combinator the closure is handed to) and captured variables (to the
    creator's operand).  Returns a list of Call objects (from several bodies)."""
    if seen is None:
        seen = set()
    sl = backward_slice(body, ops, follow_mutarg=follow_mutarg)
    out = list(sl.calls)
    # values produced by closures in the slice (x.map(|..| f(..)).collect()): the calls made
    # inside those closures contribute to the value
    for rv in sl.aggs:
        ck = rv.get('closure')
        if ck and ck in F.bodies and ('in', ck) not in seen and depth < 5:
            seen.add(('in', ck))
            cb = F.bodies[ck]
            out.extend(cb.calls())
            for b2 in F.closures_of(cb.root or cb.key):
                if b2.parent == ck and ('in', b2.key) not in seen:
                    seen.add(('in', b2.key))
                    out.extend(b2.calls())
    if body.kind == 'Closure' and depth < 5:
        # parameters other than the environment
        if any(p >= 2 for p in sl.params):
            for (pb, c, idx) in closure_consumers(F, body):
                k = (pb.key, c.b, 'p')
                if k in seen:
                    continue
                seen.add(k)
                out.append(c)
                others = [a for i, a in enumerate(c.args) if i != idx]
                out.extend(deep_calls(F, pb, others, depth + 1, seen, follow_mutarg))
        if 1 in sl.params:
            fields = set()
            for pl in sl.places:
                f = env_field_of(pl)
                if f is not None:
                    fields.add(f)
            for f in fields:
                pb, op = upvar_operand(F, body, f)
                if pb is not None and op is not None:
                    k = (pb.key, f, body.key)
                    if k in seen:
                        continue
                    seen.add(k)
                    out.extend(deep_calls(F, pb, [op], depth + 1, seen, follow_mutarg))
    return out


# ------------------------------------------------------ enum constant operands
def enum_const(F, body, op, depth=0):
    """Variant name when the operand is (a reference to) a constant unit enum variant:
    a promoted `&Enum::Variant`, or a local assigned such an aggregate."""
    if depth > 6:
        return None
    if 'c' in op:
        c = op['c']
        if 'promoted' in c:
            root = body.d.get('promoted_of') or body.key
            pb = F.bodies.get('%s::promoted[%d]' % (root, c['promoted']))
            if pb is None:
                return None
            for st in pb.stmts(0):
                rv = st['rv']
                if rv['k'] == 'agg' and 'adt' in rv and not rv['ops']:
                    return rv['variant']
        return None
    l = op_local(op)
    if l is None:
        return None
    _, d = resolve_copy(body, l)
    if d is None or d.kind != 'assign':
        return None
    rv = d.rv
    if rv['k'] == 'agg' and 'adt' in rv and not rv['ops'] and 'closure' not in rv:
        return rv['variant']
    if rv['k'] == 'use':
        return enum_const(F, body, rv['a'], depth + 1)
    if rv['k'] == 'ref' and not rv['pl']['p']:
        return enum_const(F, body, {'cp': rv['pl']}, depth + 1)
    if rv['k'] == 'ref' and rv['pl']['p'] == ['*']:
        return enum_const(F, body, {'cp': {'l': rv['pl']['l'], 'p': []}}, depth + 1)
    return None


# ------------------------------------------------------------ constant labels
def const_label(F, body, op, depth=0):
    """A comparable value for a constant byte-string / array operand: the printed literal
    for `b"..."`/`"..."`, or the tuple of element values for a promoted `&[a, b, ..]`."""
    if depth > 8:
        return None
    if 'c' in op:
        c = op['c']
        if 'promoted' in c:
            root = body.d.get('promoted_of') or body.key
            pb = F.bodies.get('%s::promoted[%d]' % (root, c['promoted']))
            if pb is None:
                return None
            for st in pb.stmts(0):
                rv = st['rv']
                if rv['k'] == 'agg' and 'array' in rv:
                    vals = tuple(o['c'].get('v') if 'c' in o else None for o in rv['ops'])
                    return ('array',) + vals
                if rv['k'] == 'repeat' and 'c' in rv['a']:
                    return ('repeat', rv['a']['c'].get('v'), rv['n'])
                if rv['k'] == 'use' and 'c' in rv['a']:
                    s2 = rv['a']['c'].get('s') or ''
                    if s2.replace('const ', '').startswith(('"', 'b"')):
                        return ('lit', s2.replace('const ', ''))
            return None
        s = c.get('s')
        if s and (s.startswith('b"') or s.startswith('"') or s.startswith('const b"') or s.startswith('const "')):
            return ('lit', s.replace('const ', ''))
        if 'v' in c:
            return ('int', c['v'])
        if 'uneval' in c:
            return ('constref', c['uneval'])      # a named constant: equal names denote equal values
        return None
    l = op_local(op)
    if l is None:
        return None
    cur, d = resolve_copy(body, l)
    if d is None or d.kind != 'assign':
        if d is not None and d.kind == 'call' and d.call.is_(r'^std::ops::Deref::deref$', r'^std::convert::AsRef::as_ref$') and d.call.args:
            return const_label(F, body, d.call.args[0], depth + 1)
        return None
    rv = d.rv
    if rv['k'] == 'use':
        return const_label(F, body, rv['a'], depth + 1)
    if rv['k'] == 'ref':
        return const_label(F, body, {'cp': {'l': rv['pl']['l'], 'p': []}}, depth + 1)
    if rv['k'] == 'cast':
        return const_label(F, body, rv['a'], depth + 1)
    if rv['k'] == 'agg' and 'array' in rv:
        return ('array',) + tuple(o['c'].get('v') if 'c' in o else None for o in rv['ops'])
    return None


def param_by_type(body, pattern, nth=0):
    """Index (local) of the nth parameter whose type matches the regex; None if absent."""
    hits = [p for p in range(1, body.argc + 1) if re.search(pattern, body.local_ty(p))]
    return hits[nth] if len(hits) > nth else None


def params_by_type(body, pattern):
    return [p for p in range(1, body.argc + 1) if re.search(pattern, body.local_ty(p))]


def guard_accessors(F):
    """Crate functions that hand out a MutexGuard (Covercrypt::rng, private lock helpers): calling one IS an
    acquisition of the lock."""
    return set(b.key for b in F.fns() if b.kind != 'Closure' and 'MutexGuard<' in b.locals[0]['ty'])


_CG_CACHE = {}


def callgraph(F):
    if id(F) not in _CG_CACHE:
        _CG_CACHE.clear()
        _CG_CACHE[id(F)] = CallGraph(F)
    return _CG_CACHE[id(F)]


def reach_bodies(F, key, stop=(), precise=True):
    """The function, its closures and every crate function reachable from it through resolved direct calls
    (helpers extracted from it included); `stop`: keys not to enter.  precise=False also follows the
    over-approximate edges (generic dispatch, trait methods of crate types used as generic arguments)."""
    CG = callgraph(F)
    E = CG.direct if precise else CG.out
    seen = set()
    work = [key]
    while work:
        k = work.pop()
        if k in seen or k not in E or k in stop:
            continue
        seen.add(k)
        work.extend(E[k])
    return [F.bodies[k] for k in sorted(seen)]


def only_reached_via(F, fn_key, root_key):
    """Every call path to fn_key goes through root_key (fn_key is root_key, or a private helper all of whose
    callers are themselves only reached via root_key)."""
    CG = callgraph(F)
    seen = set()

    def ok(k, depth=0):
        if k == root_key:
            return True
        if k in seen or depth > 8:
            return True
        seen.add(k)
        callers = CG.callers(k)
        b = F.bodies.get(k)
        if not callers:
            return False
        if b is not None and b.is_pub and b.kind != 'Closure':
            return False
        return all(ok(c, depth + 1) for c in callers)
    return ok(fn_key)


def role_owner(F, key, table):
    """The entry of a who-may table `key` belongs to: itself, or — for a private helper — the single listed function
    every call path to it goes through.  A helper split out of a listed function keeps that function's role."""
    if key in table:
        return key
    for k in table:
        if k in F.bodies and only_reached_via(F, key, k):
            return k
    return None


def family_ext(F, key):
    """F.family(key) plus the families of private helpers every call path to which goes through `key`: the code that
    runs as part of `key` and of nothing else, however it is split into functions."""
    out = list(F.family(key))
    have = set(b.key for b in out)
    for fb in reach_bodies(F, key, precise=True):
        r = fb.root or fb.key
        if r in have or r == key or r not in F.bodies:
            continue
        if only_reached_via(F, r, key):
            for x in F.family(r):
                if x.key not in have:
                    have.add(x.key)
                    out.append(x)
    return out


def present_edges(body, call):
    """CFG edges on which the Option / Result returned by `call` is known to be Some / Ok: the Some (Ok) case of a switch on
    its discriminant, and the continue edge of a `?` applied to it."""
    out = []
    dl = call.dest['l']
    is_res = 'Result<' in body.local_ty(dl)

    def is_it(l):
        if l == dl:
            return True
        cur, d = resolve_copy(body, l)
        return cur == dl or (d is not None and d.kind == 'call' and d.call is call)
    for b in sorted(body.live_blocks()):
        t = body.term(b)
        if t['k'] != 'switch' or not is_place(t['d']):
            continue
        _, d = resolve_copy(body, op_local(t['d']))
        if d is None or d.kind != 'assign' or d.rv['k'] != 'discr' or d.rv['pl']['p']:
            continue
        if not is_it(d.rv['pl']['l']):
            continue
        want = 0 if is_res else 1
        cases = {v: tgt for v, tgt in t['cases']}
        if want in cases:
            out.append((b, cases[want]))
        elif len(cases) == 1 and t['else'] is not None:
            out.append((b, t['else']))
    for ts in try_sites(body):
        if ts.src_local is not None and ts.cont is not None and ts.sw_block is not None:
            if is_it(ts.src_local) or (ts.src_def is not None and ts.src_def.kind == 'call' and ts.src_def.call is call):
                out.append((ts.sw_block, ts.cont))
    return out


ZEROIZE = r'zeroize::Zeroize::zeroize$|::zeroize$'


def zeroizing_params(F, g, depth=0):
    """Indices (1-based) of the `&mut` parameters of function / closure g that g zeroizes (directly)."""
    from .facts import copy_chain_sources as ccs
    out = set()
    for c in g.calls(ZEROIZE):
        if not c.args or not is_place(c.args[0]):
            continue
        for s in ccs(g, c.args[0], through_calls=IDENTITY_CALLS):
            if s[0] == 'param' and g.local_ty(s[1]).startswith('&mut'):
                out.add(s[1])
    return out


def use_after_zeroize(F, body):
    """[(local, zeroizing call, block of the later use)]: a local wiped by `zeroize()` (directly, or by a closure / crate function
    that zeroizes the `&mut` it is given) and then used again without having been assigned a new value."""
    out = []
    sites = []
    for c in body.calls():
        if c.is_(ZEROIZE) and c.args and is_place(c.args[0]):
            pl = body.through_ref(op_place(c.args[0]) if op_place(c.args[0])['p'] else {'l': op_local(c.args[0]), 'p': ['*']})
            if not [x for x in pl['p'] if x != '*'] and not body.is_param(pl['l']):
                sites.append((c, pl['l']))
            continue
        callees = [cb for (_i, cb, _rv) in closure_args(F, c)] if c.is_(r'^std::ops::Fn(Mut|Once)?::call') else []
        g = local_callee(F, c)
        if g is not None:
            callees.append(g)
        for g in callees:
            zp = zeroizing_params(F, g)
            if not zp:
                continue
            # arguments of a closure call are packed in a tuple (args[1]); of a plain call they are positional
            if c.is_(r'^std::ops::Fn(Mut|Once)?::call') and len(c.args) > 1 and is_place(c.args[1]):
                _, d = resolve_copy(body, op_local(c.args[1]))
                ops = d.rv['ops'] if d is not None and d.kind == 'assign' and d.rv['k'] == 'agg' else []
                pairs = [(i + 2, o) for i, o in enumerate(ops)]
            else:
                pairs = [(i + 1, o) for i, o in enumerate(c.args)]
            for (pi, o) in pairs:
                if pi in zp and is_place(o):
                    pl = body.through_ref({'l': op_local(o), 'p': ['*']})
                    if not [x for x in pl['p'] if x != '*'] and not body.is_param(pl['l']):
                        sites.append((c, pl['l']))
    defs = body.defs()
    for (c, x) in sites:
        redef = set(d.b for d in defs.get(x, []) if d.kind in ('assign', 'call') and d.via is None and d.lhs is not None and not d.lhs['p'])
        start = [s for s in body.succs[c.b]]
        r = body.reach(start, avoid_blocks=redef) if start else set()
        for b in sorted(r):
            used = False
            for st in body.stmts(b):
                for pl in _places_in(st['rv']):
                    if pl['l'] == x:
                        used = True
            t = body.term(b)
            if t['k'] == 'call':
                for a in t['args']:
                    if is_place(a) and op_place(a)['l'] == x:
                        used = True
            if used:
                out.append((x, c, b))
                break
    return out


def _places_in(x):
    out = []
    if isinstance(x, dict):
        if 'l' in x and 'p' in x and isinstance(x.get('l'), int) and isinstance(x.get('p'), list):
            out.append(x)
        for v in x.values():
            out += _places_in(v)
    elif isinstance(x, list):
        for v in x:
            out += _places_in(v)
    return out


def forward_uses(body, l, through=(r'^std::ops::Try::branch$',)):
    """Forward closure of a value: locals that hold (part of) what local `l` holds, or a reference to it — through moves, copies,
    field reads, references, casts, aggregates and the calls named in `through` — and what happens to them:
    (S, sinks) where sinks = [(kind, detail, line)] with kind in 'call' (detail = (Call, arg index)), 'return', 'stored' (written
    into a place of another local), 'captured' (moved into a closure)."""
    S = {l}
    sinks = []
    changed = True
    while changed:
        changed = False
        for b in sorted(body.live_blocks()):
            if body.cleanup[b]:
                continue
            for st in body.stmts(b):
                rv = st['rv']
                used = False
                for pl in _places_in(rv):
                    if pl['l'] in S:
                        used = True
                if not used:
                    continue
                tl = st['lhs']['l']
                if st['lhs']['p'] and tl not in S:
                    # stored inside another value: that value now holds it
                    pass
                if tl not in S:
                    S.add(tl)
                    changed = True
            t = body.term(b)
            if t['k'] == 'call':
                c = body.call_at(b)
                if any(is_place(a) and op_local(a) in S for a in c.args) and any(c.is_(p) for p in through):
                    if c.dest['l'] not in S:
                        S.add(c.dest['l'])
                        changed = True
    for b in sorted(body.live_blocks()):
        if body.cleanup[b]:
            continue
        for st in body.stmts(b):
            rv = st['rv']
            if rv['k'] == 'agg' and 'closure' in rv and any(is_place(o) and op_local(o) in S for o in rv['ops']):
                sinks.append(('captured', rv['closure'], st['ln']))
        t = body.term(b)
        if t['k'] == 'call':
            c = body.call_at(b)
            if any(c.is_(p) for p in through):
                continue
            for i, a in enumerate(c.args):
                if is_place(a) and op_local(a) in S:
                    sinks.append(('call', (c, i), c.ln))
    if 0 in S and l != 0:
        sinks.append(('return', None, 0))
    return S, sinks


DROPPING_ADAPTORS = (r'^std::iter::Iterator::(filter|filter_map|skip|take|take_while|skip_while|step_by|nth|last|find|find_map|map_while|'
                     r'flatten|flat_map|dedup|position)$')


def pipeline_after(body, call):
    """The iterator calls that consume the value produced by `call`, one after the other (map -> filter -> collect ...)."""
    out = []
    cur = call
    for _ in range(12):
        nxt = None
        for c in body.calls():
            if c is cur or not c.args or not is_place(c.args[0]):
                continue
            l, _d = resolve_copy(body, op_local(c.args[0]))
            if l == cur.dest['l'] or op_local(c.args[0]) == cur.dest['l']:
                nxt = c
                break
        if nxt is None:
            break
        out.append(nxt)
        cur = nxt
    return out


def absence_is_an_error(F, fb, g):
    """The Option returned by lookup `g` (in body fb): does its None force an error out of fb (and, when fb is a closure run by an
    iterator adaptor, out of the function that runs the adaptor)?  Returns (ok, why)."""
    forced = False
    why = 'a missing entry is not turned into an error'
    # (A) ok_or / ok_or_else and then `?` or return
    for c in fb.calls(r'^std::option::Option::<T>::ok_or(_else)?$'):
        if not c.args or not is_place(c.args[0]):
            continue
        l, d = resolve_copy(fb, op_local(c.args[0]))
        if not (l == g.dest['l'] or (d is not None and d.kind == 'call' and d.call is g)):
            continue
        for ts in try_sites(fb):
            if ts.src_def is not None and ts.src_def.kind == 'call' and ts.src_def.call is c and ts.residual is not None:
                forced = True
        if flows_to(fb, c.dest['l']):
            forced = True
    # (B) a match whose None arm cannot reach the return without an explicit error
    if not forced:
        errs = [e.b for e in error_exits(fb) if e.kind == 'explicit']
        pres = present_edges(fb, g)
        for (sb, tgt) in pres:
            others = [s for s in fb.succs[sb] if s != tgt]
            rets = fb.return_blocks()
            if others and errs and all(not any(r in fb.reach(o, avoid_blocks=tuple(errs)) for r in rets) for o in others):
                forced = True
    if not forced:
        return False, why
    if fb.kind != 'Closure':
        return True, ''
    # the closure's error must leave the adaptor chain as an error
    cons = closure_consumers(F, fb)
    if not cons:
        return False, 'the closure that looks the entry up is not run by an iterator'
    for (pb, cc, _i) in cons:
        if cc.is_(r'^std::iter::Iterator::(try_for_each|try_fold)$'):
            continue
        if not cc.is_(r'^std::iter::Iterator::map$'):
            return False, 'the lookup runs inside %s: its error does not stop the walk' % cc.name
        pipe = pipeline_after(pb, cc)
        if any(x.is_(DROPPING_ADAPTORS) for x in pipe):
            return False, 'errors are dropped by %s' % [x.name for x in pipe if x.is_(DROPPING_ADAPTORS)][0]
        last = pipe[-1] if pipe else None
        fin_ = [x for x in pipe if x.is_(r'^std::iter::Iterator::(collect|try_for_each|try_fold|sum|product)$')]
        if not fin_ or not ('Result<' in fin_[-1].full or fin_[-1].is_(r'try_')):
            return False, 'the results are not gathered into a Result (%s)' % (last.name if last else 'no consumer')
    return True, ''


FN_CALLS = (r'^std::ops::FnOnce::call_once$', r'^std::ops::FnMut::call_mut$', r'^std::ops::Fn::call$')


def called_closures(F, body, call, depth=0):
    """Closure bodies that an indirect call `f(args)` (Fn* ::call*) runs, when `f` is a closure built in this body or captured by
    this closure from the body that built it (a helper that takes a closure and calls it from inside its own closure)."""
    out = []
    if depth > 3 or not any(call.is_(p) for p in FN_CALLS) or not call.args or not is_place(call.args[0]):
        return out
    for s in copy_chain_sources(body, call.args[0], through_calls=IDENTITY_CALLS):
        if s[0] == 'agg' and 'closure' in s[1]:
            cb = F.get(s[1]['closure'])
            if cb is not None:
                out.append(cb)
        elif s[0] == 'param' and s[1] == 1 and body.kind == 'Closure':
            idx = [x for x in s[2] if x != '*'][:1]
            names = body.upvar_names()
            if isinstance(names, (list, tuple)):
                names = dict(enumerate(names))
            k = None
            if idx:
                nm = str(idx[0])
                if nm.isdigit():
                    k = int(nm)
                else:
                    for i, n_ in names.items():
                        if nm == n_ or nm == '_ref__' + n_ or nm.endswith('__' + n_):
                            k = i
            if k is not None:
                pb, o = upvar_operand(F, body, k)
                if pb is not None and o is not None and is_place(o):
                    for (cb, _rv) in closures_in_local(F, pb, op_local(o)):
                        out.append(cb)
    if not out:
        l = op_local(call.args[0])
        for (cb, _rv) in closures_in_local(F, body, l):
            out.append(cb)
    return out

