"""Normalisation pass over the exported facts: private functions that are NOT part of the reference vocabulary of the
rules (analyses/known_fns.txt: every function of the tree the rules were written against) are helpers somebody split
out of an existing function.  Their MIR is inlined at every direct call site — arguments become assignments, `return`
becomes an assignment of the result and a jump to the call's successor, their closures and promoted constants are
re-homed under the caller — and, once no reference is left, the helper itself disappears from the fact base.

The rules then see `rekey` with the body of `rekey_right` in it, `sign` with `kmac_signature` in it, and so on: the same
code, whichever way a maintainer cut it into functions.  On the reference tree nothing is inlined (every function is
known), so the pass cannot change a verdict there.  Public functions and trait-impl methods are never inlined: they
are entry points / dispatch targets in their own right.  Recursive helpers are left alone."""
import copy
import os

HERE = os.path.dirname(os.path.abspath(__file__))
KNOWN_PATH = os.path.join(HERE, 'known_fns.txt')
MAX_BLOCKS = 6000     # per body, after inlining: beyond that the pass stops inlining into the body


def load_known():
    if not os.path.exists(KNOWN_PATH):
        return None
    with open(KNOWN_PATH) as f:
        return set(l.rstrip('\n') for l in f if l.strip() and not l.startswith('#'))


def _callee_key(bodies, t):
    fn = ((t.get('f') or {}).get('c') or {}).get('fn')
    if not fn:
        return None
    if fn.get('res_local') and fn.get('res') in bodies:
        return fn['res']
    if fn.get('def') in bodies and fn.get('res') in (None, fn['def']):
        return fn['def']
    return None


def _fn_refs(x, out):
    """Keys of functions mentioned as values (fn items) or callees anywhere in a JSON fragment."""
    if isinstance(x, dict):
        fn = x.get('fn')
        if isinstance(fn, dict) and 'def' in fn:
            out.add(fn['def'])
            if fn.get('res'):
                out.add(fn['res'])
        for v in x.values():
            _fn_refs(v, out)
    elif isinstance(x, list):
        for v in x:
            _fn_refs(v, out)


def _remap(x, dl, db, strmap, prom):
    """Deep copy of a JSON fragment of a callee: locals shifted by dl, promoted indices through `prom`, closure keys
    through `strmap`.  Block targets are handled by the caller (they live in known terminator fields)."""
    if isinstance(x, dict):
        if 'l' in x and 'p' in x and isinstance(x['l'], int) and isinstance(x['p'], list):
            return {'l': x['l'] + dl, 'p': [_remap(e, dl, db, strmap, prom) for e in x['p']]}
        out = {}
        for k, v in x.items():
            if k == 'idx' and isinstance(v, int):
                out[k] = v + dl
            elif k == 'promoted' and isinstance(v, int):
                out[k] = prom(v)
            else:
                out[k] = _remap(v, dl, db, strmap, prom)
        return out
    if isinstance(x, list):
        return [_remap(v, dl, db, strmap, prom) for v in x]
    if isinstance(x, str) and strmap:
        if x in strmap:
            return strmap[x]
        if x.startswith('closure:') and x[8:] in strmap:
            return 'closure:' + strmap[x[8:]]
    return x


def _retarget(t, db):
    k = t['k']
    if k in ('goto', 'drop', 'call', 'assert'):
        if t.get('t') is not None:
            t['t'] += db
    if k == 'switch':
        t['cases'] = [[c[0], c[1] + db] for c in t['cases']]
        t['else'] += db
    if t.get('uw') is not None:
        t['uw'] += db


def transform(raw, known=None):
    """Inline unknown private helpers in place; returns a report dict."""
    if known is None:
        known = load_known()
    report = {'helpers': [], 'inlined_calls': 0, 'removed': [], 'kept': []}
    if known is None:
        return report
    blist = raw['bodies']
    bodies = {b['key']: b for b in blist}
    helpers = set()
    for k, b in bodies.items():
        if b['kind'] in ('Fn', 'AssocFn') and 'promoted_of' not in b and k not in known \
                and not b.get('pub') and not b.get('impl_trait'):
            helpers.add(k)
    if not helpers:
        return report
    # call edges among helpers, for cycle detection and ordering
    closures_of = {}
    for k, b in bodies.items():
        if b['kind'] == 'Closure' and 'promoted_of' not in b:
            closures_of.setdefault(b.get('root'), []).append(k)

    def family(k):
        return [k] + closures_of.get(k, [])

    def direct_helper_calls(k):
        out = set()
        for fk in family(k):
            for blk in bodies[fk]['blocks']:
                t = blk['term']
                if t['k'] == 'call':
                    ck = _callee_key(bodies, t)
                    if ck in helpers:
                        out.add(ck)
        return out
    edges = {h: direct_helper_calls(h) for h in helpers}
    # helpers on a cycle are not inlined
    cyclic = set()
    for h in helpers:
        seen = set()
        work = list(edges[h])
        while work:
            x = work.pop()
            if x == h:
                cyclic.add(h)
                break
            if x in seen:
                continue
            seen.add(x)
            work.extend(edges.get(x, ()))
    inl = helpers - cyclic
    order = []
    mark = set()

    def visit(h):
        if h in mark:
            return
        mark.add(h)
        for x in sorted(edges[h]):
            if x in inl:
                visit(x)
        order.append(h)
    for h in sorted(inl):
        visit(h)
    report['helpers'] = sorted(inl)

    counter = [0]
    touched = []

    def next_prom_index(owner_key):
        n = 0
        pre = owner_key + '::promoted['
        for k in bodies:
            if k.startswith(pre):
                try:
                    n = max(n, int(k[len(pre):-1]) + 1)
                except ValueError:
                    pass
        return n

    def inline_into(fk):
        f = bodies[fk]
        if 'promoted_of' in f:
            return
        bi = 0
        while bi < len(f['blocks']):
            blk = f['blocks'][bi]
            t = blk['term']
            bi += 1
            if blk.get('cleanup') or t['k'] != 'call':
                continue
            gk = _callee_key(bodies, t)
            if gk not in inl or gk == fk or len(f['blocks']) > MAX_BLOCKS:
                continue
            g = bodies[gk]
            if len(t['args']) != g['argc']:
                continue
            counter[0] += 1
            site = counter[0]
            report['inlined_calls'] += 1
            dl = len(f['locals'])
            db = len(f['blocks'])
            froot = f.get('root') or fk
            if f['kind'] != 'Closure':
                froot = fk
            # closures of g get a copy homed under f
            strmap = {}
            for ck in closures_of.get(gk, []):
                strmap[ck] = '%s::{inl#%d %s}%s' % (fk, site, g.get('name') or 'fn', ck[len(gk):])
            # promoted constants of g -> fresh indices in f's namespace
            powner = fk
            pmap = {}

            def prom(i, pmap=pmap, powner=powner, gk=gk):
                if i not in pmap:
                    j = next_prom_index(powner) + 0
                    src = bodies.get('%s::promoted[%d]' % (gk, i))
                    nk = '%s::promoted[%d]' % (powner, j)
                    if src is not None:
                        nb = copy.deepcopy(src)
                        nb['key'] = nk
                        nb['promoted_of'] = powner
                        bodies[nk] = nb
                        blist.append(nb)
                    else:
                        bodies[nk] = {'key': nk, 'kind': 'Fn', 'promoted_of': powner, 'span': f['span'], 'argc': 0,
                                      'locals': [], 'blocks': [], 'vars': []}
                        blist.append(bodies[nk])
                    pmap[i] = j
                return pmap[i]
            f['locals'].extend(_remap(copy.deepcopy(g['locals']), 0, 0, strmap, lambda i: i))
            for v in g.get('vars', []):
                f['vars'].append(_remap(v, dl, db, strmap, prom))
            args, dest, target, ln = t['args'], t['dest'], t.get('t'), t.get('ln', 0)
            for gb in g['blocks']:
                nb = {'cleanup': gb.get('cleanup', False),
                      'st': [_remap(s, dl, db, strmap, prom) for s in gb['st']],
                      'term': _remap(gb['term'], dl, db, strmap, prom)}
                nt = nb['term']
                if nt['k'] == 'return':
                    nb['st'].append({'lhs': copy.deepcopy(dest), 'rv': {'k': 'use', 'a': {'mv': {'l': dl, 'p': []}}},
                                     'ln': nt.get('ln', ln), 'exp': False, 'inl': gk})
                    if target is None:
                        nb['term'] = {'k': 'unreachable', 'ln': nt.get('ln', ln), 'exp': False}
                    else:
                        nb['term'] = {'k': 'goto', 't': target, 'ln': nt.get('ln', ln), 'exp': False}
                else:
                    _retarget(nt, db)
                f['blocks'].append(nb)
            for i, a in enumerate(args):
                blk['st'].append({'lhs': {'l': dl + 1 + i, 'p': []}, 'rv': {'k': 'use', 'a': copy.deepcopy(a)},
                                  'ln': ln, 'exp': False, 'inl': gk})
            blk['term'] = {'k': 'goto', 't': db, 'ln': ln, 'exp': t.get('exp', False), 'inl': gk}
            # re-home the closures (and their promoteds)
            for ck, nk in strmap.items():
                src = bodies[ck]
                nb = _remap(copy.deepcopy(src), 0, 0, strmap, lambda i: i)
                nb['key'] = nk
                par = src.get('parent')
                nb['parent'] = strmap.get(par, fk if par == gk else par)
                nb['root'] = froot
                nb['inl_of'] = ck
                bodies[nk] = nb
                blist.append(nb)
                closures_of.setdefault(froot, []).append(nk)
                pre = ck + '::promoted['
                for pk in [k for k in bodies if k.startswith(pre)]:
                    pb = copy.deepcopy(bodies[pk])
                    pb['key'] = nk + pk[len(ck):]
                    pb['promoted_of'] = nk
                    bodies[pb['key']] = pb
                    blist.append(pb)

    for h in order:
        for fk in family(h):
            inline_into(fk)
    for fk in [k for k in list(bodies) if (bodies[k].get('root') or k) not in inl and k not in inl]:
        n0 = report['inlined_calls']
        inline_into(fk)
        if report['inlined_calls'] > n0:
            touched.append(fk)
    # a helper that takes a closure and calls it (`with_rng(|rng| ..)`) leaves, once inlined, a direct call of a closure
    # built a few statements earlier: run it in place
    raw['bodies'] = blist
    report['closure_calls'] = inline_closure_calls(raw, touched)
    blist = raw['bodies']
    bodies = {b['key']: b for b in blist}
    # helpers nobody refers to any more disappear (with their closures and promoted constants)
    removable = set(inl)
    changed = True
    while changed:
        changed = False
        refs = set()
        for k, b in bodies.items():
            owner = b.get('promoted_of') or k
            rk = bodies.get(owner, {}).get('root') or owner
            if bodies.get(owner, {}).get('kind') != 'Closure':
                rk = owner
            if rk in removable:
                continue
            _fn_refs(b['blocks'], refs)
        for h in sorted(removable):
            if h in refs:
                removable.discard(h)
                changed = True
    gone = set()
    for h in removable:
        for k in list(bodies):
            b = bodies[k]
            owner = b.get('promoted_of') or k
            ob = bodies.get(owner, b)
            rk = owner if ob.get('kind') != 'Closure' else (ob.get('root') or owner)
            if rk == h:
                gone.add(k)
    raw['bodies'] = [b for b in blist if b['key'] not in gone]
    report['removed'] = sorted(removable)
    report['kept'] = sorted(inl - removable)
    report['cyclic'] = sorted(cyclic)
    return report


# ------------------------------------------------------------------------------------------------------------------
# Second normal form ("expanded view"): closures handed to call-once combinators of Option / Result / bool are run in place.
#   x.map(|v| e)          ==>  match x { Some(v) => Some(e), None => None }            (and the like)
# The closure body is inlined under the arm that runs it, its environment becomes a tuple of the captured operands.  The
# rules first run on the plain view; a rule that reports a violation there is re-run on this view and the violation is
# dropped when the rule is satisfied here: both views are faithful renderings of the same program, so a rule that holds on
# either has its structural obligation established.
OPT, RES = 'std::option::Option', 'std::result::Result'
COMBINATORS = {
    # def path: (scrutinee adt, active variant (name, vi), closure takes payload?, result, passive)
    'std::option::Option::<T>::map': (OPT, ('Some', 1), True, ('wrap', OPT, 'Some', 1), ('unit', OPT, 'None', 0)),
    'std::option::Option::<T>::and_then': (OPT, ('Some', 1), True, ('flat',), ('unit', OPT, 'None', 0)),
    'std::option::Option::<T>::ok_or_else': (OPT, ('None', 0), False, ('wrap', RES, 'Err', 1), ('rewrap', 'Some', 1, RES, 'Ok', 0)),
    'std::option::Option::<T>::unwrap_or_else': (OPT, ('None', 0), False, ('flat',), ('payload', 'Some', 1)),
    'std::option::Option::<T>::is_some_and': (OPT, ('Some', 1), True, ('flat',), ('false',)),
    # (Option::filter is deliberately NOT expanded: a rule that objects to `x.filter(p).map(f)` — f does not run for every Some —
    #  would be talked out of it by the expanded rendering, in which f simply sits under an `if`.)
    'std::result::Result::<T, E>::map': (RES, ('Ok', 0), True, ('wrap', RES, 'Ok', 0), ('rewrap', 'Err', 1, RES, 'Err', 1)),
    'std::result::Result::<T, E>::map_err': (RES, ('Err', 1), True, ('wrap', RES, 'Err', 1), ('rewrap', 'Ok', 0, RES, 'Ok', 0)),
    'std::result::Result::<T, E>::and_then': (RES, ('Ok', 0), True, ('flat',), ('rewrap', 'Err', 1, RES, 'Err', 1)),
    'std::result::Result::<T, E>::unwrap_or_else': (RES, ('Err', 1), True, ('flat',), ('payload', 'Ok', 0)),
    'std::bool::<impl bool>::then': ('bool', ('true', 1), False, ('wrap', OPT, 'Some', 1), ('unit', OPT, 'None', 0)),
}


def _uses_of_local(f, l, skip_drops=False):
    n = 0

    def walk(x):
        nonlocal n
        if isinstance(x, dict):
            if 'l' in x and 'p' in x and isinstance(x['l'], int) and isinstance(x['p'], list):
                if x['l'] == l:
                    n += 1
                for e in x['p']:
                    if isinstance(e, dict) and e.get('idx') == l:
                        n += 1
                return
            for v in x.values():
                walk(v)
        elif isinstance(x, list):
            for v in x:
                walk(v)
    for blk in f['blocks']:
        for st in blk['st']:
            walk(st['rv'])
            if st['lhs']['p']:
                walk(st['lhs'])
        if not (skip_drops and blk['term']['k'] == 'drop'):
            walk(blk['term'])
    return n


def _place_ty(f, pl):
    import re
    ty = f['locals'][pl['l']]['ty']
    for e in pl['p']:
        if e == '*':
            ty = re.sub(r"^&('\w+ )?(mut )?", '', ty)
        elif isinstance(e, dict) and 'ty' in e:
            ty = e['ty']
        elif isinstance(e, dict) and 'dc' in e:
            pass
        else:
            return '?'
    return ty


def expand_call_once(raw):
    """Expanded view, in place.  Returns the number of expansions."""
    blist = raw['bodies']
    bodies = {b['key']: b for b in blist}
    done = 0
    gone = set()

    def next_prom_index(owner_key):
        n = 0
        pre = owner_key + '::promoted['
        for k in bodies:
            if k.startswith(pre):
                try:
                    n = max(n, int(k[len(pre):-1]) + 1)
                except ValueError:
                    pass
        return n

    for fk in list(bodies):
        f = bodies[fk]
        if 'promoted_of' in f or fk in gone:
            continue
        bi = 0
        while bi < len(f['blocks']):
            blk = f['blocks'][bi]
            bi += 1
            t = blk['term']
            if blk.get('cleanup') or t['k'] != 'call' or len(f['blocks']) > MAX_BLOCKS:
                continue
            fn = ((t.get('f') or {}).get('c') or {}).get('fn') or {}
            spec = COMBINATORS.get(fn.get('def'))
            if spec is None or len(t['args']) != 2 or t.get('t') is None:
                continue
            scr_adt, (act_name, act_vi), takes, result, passive = spec
            a0, a1 = t['args']
            if 'mv' not in a1 or a1['mv']['p'] or not ('mv' in a0 or 'cp' in a0):
                continue
            cl = a1['mv']['l']
            # the closure value: one aggregate definition, used by this call only
            cdefs = [(b2, st) for b2 in f['blocks'] if not b2.get('cleanup') for st in b2['st']
                     if st['lhs']['l'] == cl and not st['lhs']['p']]
            if len(cdefs) != 1 or cdefs[0][1]['rv'].get('k') != 'agg' or 'closure' not in cdefs[0][1]['rv']:
                continue
            ck = cdefs[0][1]['rv']['closure']
            cb = bodies.get(ck)
            if cb is None or ck in gone or _uses_of_local(f, cl) != 1:
                continue
            if cb['argc'] != (2 if takes else 1):
                continue
            done += 1
            dest, target, ln = t['dest'], t['t'], t.get('ln', 0)
            L = f['locals']

            def new_local(ty, h=None):
                L.append({'ty': ty, 'h': h or {}})
                return len(L) - 1
            a0pl = a0.get('mv') or a0.get('cp')
            s = new_local(_place_ty(f, a0pl), L[a0pl['l']].get('h') if not a0pl['p'] else None)
            blk['st'].append({'lhs': {'l': s, 'p': []}, 'rv': {'k': 'use', 'a': copy.deepcopy(a0)}, 'ln': ln, 'exp': False})
            B = f['blocks']

            def new_block(st, term):
                B.append({'cleanup': False, 'st': st, 'term': term})
                return len(B) - 1

            def goto(b2):
                return {'k': 'goto', 't': b2, 'ln': ln, 'exp': False}

            def payload(var, vi, ty='?'):
                return {'l': s, 'p': [{'dc': var, 'vi': vi}, {'f': 0, 'n': '0', 'o': scr_adt, 'ty': ty}]}
            # passive arm
            pst = []
            if passive[0] == 'unit':
                pst.append({'lhs': copy.deepcopy(dest), 'rv': {'k': 'agg', 'adt': passive[1], 'variant': passive[2], 'vi': passive[3],
                                                               'fields': [], 'ops': []}, 'ln': ln, 'exp': False})
            elif passive[0] == 'rewrap':
                e = new_local('?')
                pst.append({'lhs': {'l': e, 'p': []}, 'rv': {'k': 'use', 'a': {'mv': payload(passive[1], passive[2])}}, 'ln': ln, 'exp': False})
                pst.append({'lhs': copy.deepcopy(dest), 'rv': {'k': 'agg', 'adt': passive[3], 'variant': passive[4], 'vi': passive[5],
                                                               'fields': ['0'], 'ops': [{'mv': {'l': e, 'p': []}}]}, 'ln': ln, 'exp': False})
            elif passive[0] == 'payload':
                pst.append({'lhs': copy.deepcopy(dest), 'rv': {'k': 'use', 'a': {'mv': payload(passive[1], passive[2])}}, 'ln': ln, 'exp': False})
            elif passive[0] == 'false':
                pst.append({'lhs': copy.deepcopy(dest), 'rv': {'k': 'use', 'a': {'c': {'ty': 'bool', 's': 'false', 'v': False, 'sz': 1}}},
                            'ln': ln, 'exp': False})
            b_pas = new_block(pst, goto(target))
            # active arm: bind the payload, the environment, then the closure body
            dl = len(L)
            db = len(B) + 1          # the arm's head block comes first
            pmap = {}

            def prom(i, pmap=pmap):
                if i not in pmap:
                    j = next_prom_index(fk)
                    src = bodies.get('%s::promoted[%d]' % (ck, i))
                    nk = '%s::promoted[%d]' % (fk, j)
                    nb = copy.deepcopy(src) if src is not None else {'kind': 'Fn', 'span': f['span'], 'argc': 0, 'locals': [],
                                                                     'blocks': [], 'vars': []}
                    nb['key'] = nk
                    nb['promoted_of'] = fk
                    bodies[nk] = nb
                    blist.append(nb)
                    pmap[i] = j
                return pmap[i]
            ast = []
            env_ty = cb['locals'][1]['ty']
            if env_ty.startswith('&mut '):
                ast.append({'lhs': {'l': dl + 1, 'p': []}, 'rv': {'k': 'ref', 'mut': True, 'pl': {'l': cl, 'p': []}}, 'ln': ln, 'exp': False})
            elif env_ty.startswith('&'):
                ast.append({'lhs': {'l': dl + 1, 'p': []}, 'rv': {'k': 'ref', 'mut': False, 'pl': {'l': cl, 'p': []}}, 'ln': ln, 'exp': False})
            else:
                ast.append({'lhs': {'l': dl + 1, 'p': []}, 'rv': {'k': 'use', 'a': {'mv': {'l': cl, 'p': []}}}, 'ln': ln, 'exp': False})
            if takes and result[0] == 'filter':
                # the predicate looks at the payload through a reference; the value itself stays in `s`
                ast.append({'lhs': {'l': dl + 2, 'p': []},
                            'rv': {'k': 'ref', 'mut': False, 'pl': payload(act_name, act_vi, '?')}, 'ln': ln, 'exp': False})
            elif takes:
                ast.append({'lhs': {'l': dl + 2, 'p': []},
                            'rv': {'k': 'use', 'a': {'mv': payload(act_name, act_vi, cb['locals'][2]['ty'])}}, 'ln': ln, 'exp': False})
            b_act = new_block(ast, goto(db))
            assert b_act + 1 == db
            L.extend(copy.deepcopy(cb['locals']))
            for v in cb.get('vars', []):
                vv = _remap(v, dl, db, None, prom)
                f['vars'].append(vv)
            filter_returns = []
            for gb in cb['blocks']:
                nb = {'cleanup': gb.get('cleanup', False),
                      'st': [_remap(st, dl, db, None, prom) for st in gb['st']],
                      'term': _remap(gb['term'], dl, db, None, prom)}
                nt = nb['term']
                if nt['k'] == 'return' and result[0] == 'filter':
                    filter_returns.append(nb)
                    nb['term'] = None
                elif nt['k'] == 'return':
                    if result[0] == 'flat':
                        nb['st'].append({'lhs': copy.deepcopy(dest), 'rv': {'k': 'use', 'a': {'mv': {'l': dl, 'p': []}}},
                                         'ln': nt.get('ln', ln), 'exp': False})
                    else:
                        nb['st'].append({'lhs': copy.deepcopy(dest),
                                         'rv': {'k': 'agg', 'adt': result[1], 'variant': result[2], 'vi': result[3], 'fields': ['0'],
                                                'ops': [{'mv': {'l': dl, 'p': []}}]}, 'ln': nt.get('ln', ln), 'exp': False})
                    nb['term'] = goto(target)
                else:
                    _retarget(nt, db)
                B.append(nb)
            if filter_returns:
                # kept: dest = the scrutinee as it is;  dropped: dest = None
                b_keep = new_block([{'lhs': copy.deepcopy(dest), 'rv': {'k': 'use', 'a': {'mv': {'l': s, 'p': []}}}, 'ln': ln, 'exp': False}],
                                   goto(target))
                b_drop = new_block([{'lhs': copy.deepcopy(dest), 'rv': {'k': 'agg', 'adt': OPT, 'variant': 'None', 'vi': 0, 'fields': [],
                                                                        'ops': []}, 'ln': ln, 'exp': False}], goto(target))
                for nb in filter_returns:
                    nb['term'] = {'k': 'switch', 'd': {'cp': {'l': dl, 'p': []}}, 'cases': [[0, b_drop]], 'else': b_keep, 'ln': ln, 'exp': False}
            # the environment is now a plain tuple of the captured operands; its fields are read by index
            def fix_env(x):
                if isinstance(x, dict):
                    if x.get('o') == 'closure:' + ck and 'f' in x:
                        x['n'] = str(x['f'])
                        x['o'] = 'tuple'
                    for v in x.values():
                        fix_env(v)
                elif isinstance(x, list):
                    for v in x:
                        fix_env(v)
            for nb in B[db:]:
                fix_env(nb)
            fix_env(f['vars'])
            crv = cdefs[0][1]['rv']
            cdefs[0][1]['rv'] = {'k': 'agg', 'tuple': True, 'ops': crv['ops'], 'was_closure': ck}
            L[cl] = {'ty': '(%s)' % ', '.join(['_'] * len(crv['ops'])), 'h': {'tuple': len(crv['ops'])}}
            # dispatch on the scrutinee
            if scr_adt == 'bool':
                blk['term'] = {'k': 'switch', 'd': {'cp': {'l': s, 'p': []}}, 'cases': [[0, b_pas]], 'else': b_act, 'ln': ln, 'exp': False}
            else:
                dsc = new_local('isize')
                blk['st'].append({'lhs': {'l': dsc, 'p': []}, 'rv': {'k': 'discr', 'pl': {'l': s, 'p': []}}, 'ln': ln, 'exp': False})
                blk['term'] = {'k': 'switch', 'd': {'mv': {'l': dsc, 'p': []}}, 'cases': [[act_vi, b_act]], 'else': b_pas, 'ln': ln, 'exp': False}
            # closures nested in the expanded one now belong to f directly
            for k2, b2 in bodies.items():
                if b2.get('parent') == ck and b2.get('kind') == 'Closure':
                    b2['parent'] = fk
            gone.add(ck)
    if gone:
        dead = set()
        for k, b in bodies.items():
            owner = b.get('promoted_of') or k
            if owner in gone:
                dead.add(k)
        raw['bodies'] = [b for b in blist if b['key'] not in dead]
    return done


def inline_closure_calls(raw, keys):
    """`FnOnce::call_once(move c, (a, b))` where `c` is a closure built in the same body and used by this call only: the
    closure body is inlined at the call, its environment becomes a tuple.  Only in the bodies named by `keys`."""
    blist = raw['bodies']
    bodies = {b['key']: b for b in blist}
    done = 0
    gone = set()

    def next_prom_index(owner_key):
        n = 0
        pre = owner_key + '::promoted['
        for k in bodies:
            if k.startswith(pre):
                try:
                    n = max(n, int(k[len(pre):-1]) + 1)
                except ValueError:
                    pass
        return n

    def single_def(f, l):
        ds = [st for b2 in f['blocks'] if not b2.get('cleanup') for st in b2['st'] if st['lhs']['l'] == l and not st['lhs']['p']]
        ts = [b2 for b2 in f['blocks'] if b2['term']['k'] == 'call' and b2['term']['dest']['l'] == l]
        return ds[0] if len(ds) == 1 and not ts else None

    for fk in keys:
        f = bodies.get(fk)
        if f is None or 'promoted_of' in f:
            continue
        bi = 0
        while bi < len(f['blocks']):
            blk = f['blocks'][bi]
            bi += 1
            t = blk['term']
            if blk.get('cleanup') or t['k'] != 'call' or len(f['blocks']) > MAX_BLOCKS or t.get('t') is None:
                continue
            fn = ((t.get('f') or {}).get('c') or {}).get('fn') or {}
            if fn.get('def') != 'std::ops::FnOnce::call_once' or len(t['args']) != 2:
                continue
            a0, a1 = t['args']
            if 'mv' not in a0 or a0['mv']['p'] or 'mv' not in a1 or a1['mv']['p']:
                continue
            # the closure value: a chain of moves back to one closure aggregate, every link used once
            l = a0['mv']['l']
            cdef = None
            ok = True
            for _ in range(8):
                d = single_def(f, l)
                if d is None or _uses_of_local(f, l, skip_drops=True) != 1:
                    ok = False
                    break
                rv = d['rv']
                if rv.get('k') == 'agg' and 'closure' in rv:
                    cdef = d
                    break
                if rv.get('k') == 'use' and 'mv' in rv['a'] and not rv['a']['mv']['p']:
                    l = rv['a']['mv']['l']
                    continue
                ok = False
                break
            if not ok or cdef is None:
                continue
            cl = a0['mv']['l']
            ck = cdef['rv']['closure']
            cb = bodies.get(ck)
            td = single_def(f, a1['mv']['l'])
            if cb is None or ck in gone or td is None or td['rv'].get('k') != 'agg' or not td['rv'].get('tuple'):
                continue
            nargs = len(td['rv']['ops'])
            if cb['argc'] != 1 + nargs:
                continue
            done += 1
            dest, target, ln = t['dest'], t['t'], t.get('ln', 0)
            L, B = f['locals'], f['blocks']
            dl, db = len(L), len(B)
            pmap = {}

            def prom(i, pmap=pmap, ck=ck, fk=fk, f=f):
                if i not in pmap:
                    j = next_prom_index(fk)
                    src = bodies.get('%s::promoted[%d]' % (ck, i))
                    nk = '%s::promoted[%d]' % (fk, j)
                    nb = copy.deepcopy(src) if src is not None else {'kind': 'Fn', 'span': f['span'], 'argc': 0, 'locals': [],
                                                                     'blocks': [], 'vars': []}
                    nb['key'] = nk
                    nb['promoted_of'] = fk
                    bodies[nk] = nb
                    blist.append(nb)
                    pmap[i] = j
                return pmap[i]
            env_ty = cb['locals'][1]['ty']
            if env_ty.startswith('&mut '):
                blk['st'].append({'lhs': {'l': dl + 1, 'p': []}, 'rv': {'k': 'ref', 'mut': True, 'pl': {'l': cl, 'p': []}}, 'ln': ln, 'exp': False})
            elif env_ty.startswith('&'):
                blk['st'].append({'lhs': {'l': dl + 1, 'p': []}, 'rv': {'k': 'ref', 'mut': False, 'pl': {'l': cl, 'p': []}}, 'ln': ln, 'exp': False})
            else:
                blk['st'].append({'lhs': {'l': dl + 1, 'p': []}, 'rv': {'k': 'use', 'a': {'mv': {'l': cl, 'p': []}}}, 'ln': ln, 'exp': False})
            for i in range(nargs):
                blk['st'].append({'lhs': {'l': dl + 2 + i, 'p': []},
                                  'rv': {'k': 'use', 'a': {'mv': {'l': a1['mv']['l'],
                                                                  'p': [{'f': i, 'n': str(i), 'o': 'tuple', 'ty': cb['locals'][2 + i]['ty']}]}}},
                                  'ln': ln, 'exp': False})
            blk['term'] = {'k': 'goto', 't': db, 'ln': ln, 'exp': t.get('exp', False)}
            L.extend(copy.deepcopy(cb['locals']))
            for v in cb.get('vars', []):
                f['vars'].append(_remap(v, dl, db, None, prom))
            for gb in cb['blocks']:
                nb = {'cleanup': gb.get('cleanup', False),
                      'st': [_remap(st, dl, db, None, prom) for st in gb['st']],
                      'term': _remap(gb['term'], dl, db, None, prom)}
                nt = nb['term']
                if nt['k'] == 'return':
                    nb['st'].append({'lhs': copy.deepcopy(dest), 'rv': {'k': 'use', 'a': {'mv': {'l': dl, 'p': []}}},
                                     'ln': nt.get('ln', ln), 'exp': False})
                    nb['term'] = {'k': 'goto', 't': target, 'ln': nt.get('ln', ln), 'exp': False}
                else:
                    _retarget(nt, db)
                B.append(nb)

            def fix_env(x, ck=ck):
                if isinstance(x, dict):
                    if x.get('o') == 'closure:' + ck and 'f' in x:
                        x['n'] = str(x['f'])
                        x['o'] = 'tuple'
                    for v in x.values():
                        fix_env(v)
                elif isinstance(x, list):
                    for v in x:
                        fix_env(v)
            for nb in B[db:]:
                fix_env(nb)
            fix_env(f['vars'])
            crv = cdef['rv']
            cdef['rv'] = {'k': 'agg', 'tuple': True, 'ops': crv['ops'], 'was_closure': ck}
            tl = cdef['lhs']['l']
            tup = {'ty': '(%s)' % ', '.join(['_'] * len(crv['ops'])), 'h': {'tuple': len(crv['ops'])}}
            # every link of the chain now holds the tuple
            l2 = cl
            while True:
                L[l2] = copy.deepcopy(tup)
                if l2 == tl:
                    break
                l2 = single_def(f, l2)['rv']['a']['mv']['l']
            for k2, b2 in bodies.items():
                if b2.get('parent') == ck and b2.get('kind') == 'Closure':
                    b2['parent'] = fk
            gone.add(ck)
    if gone:
        dead = set()
        for k, b in bodies.items():
            owner = b.get('promoted_of') or k
            if owner in gone:
                dead.add(k)
        raw['bodies'] = [b for b in blist if b['key'] not in dead]
    return done
