"""Rule registry, obligation bookkeeping, known findings, evidence, exit protocol."""
import hashlib
import json
import os
import sys
import time
import traceback

from . import export
from .facts import Facts, AnchorMissing

VERIF = export.VERIF

RULES = {}     # prop -> [(name, fn, tiers)]
META = {}      # prop -> dict(title, explanation, assumptions, not_decided)


def prop(pid, **meta):
    META[pid] = meta


def rule(pid, name, tier='quick', configs=('default',)):
    def deco(fn):
        RULES.setdefault(pid, []).append((name, fn, tier, configs))
        return fn
    return deco


class Ctx:
    """Per-run context handed to every rule."""

    def __init__(self, pid, tier, seed):
        self.pid = pid
        self.tier = tier
        self.seed = seed
        self.rule = None
        self.config = 'default'
        self.obligations = []   # dicts
        self.violations = []    # dicts
        self.instances = {}     # rule -> count
        self.floors = {}        # rule -> (count, floor)
        self.analysed_fns = set()
        self.notes = []
        self._facts = {}
        self.export_info = []
        self.view = 'plain'

    # -------------------------------------------------------------- facts
    def facts(self, config=None):
        config = config or self.config
        k = (config, self.view)
        if k not in self._facts:
            path, info = export.facts_path(config)
            if not any(i is info or i.get('config') == info.get('config') for i in self.export_info):
                self.export_info.append(info)
            self._facts[k] = Facts(path, self.view)
        return self._facts[k]

    @property
    def F(self):
        return self.facts()

    # -------------------------------------------------------- obligations
    def _rid(self):
        r = '%s.%s' % (self.pid, self.rule)
        if self.config != 'default':
            r += '@' + self.config
        return r

    def ok(self, func, what, detail='', where=''):
        """A discharged obligation."""
        self.obligations.append({'rule': self._rid(), 'fn': func, 'what': what, 'ok': True,
                                 'detail': detail, 'where': where})
        self.instances[self.rule] = self.instances.get(self.rule, 0) + 1
        if func:
            self.analysed_fns.add(func)

    def bad(self, func, what, msg, where='', path=None, extra=None):
        """A violated obligation.  Key = rule:function:what (never a line)."""
        key = '%s.%s:%s:%s' % (self.pid, self.rule, func, what)
        self.obligations.append({'rule': self._rid(), 'fn': func, 'what': what, 'ok': False,
                                 'detail': msg, 'where': where})
        self.instances[self.rule] = self.instances.get(self.rule, 0) + 1
        v = {'key': key, 'rule': self._rid(), 'fn': func, 'what': what, 'msg': msg,
             'where': where, 'config': self.config}
        if path:
            v['path'] = path
        if extra:
            v['extra'] = extra
        # the same construct seen under several configs is one violation
        if not any(x['key'] == key for x in self.violations):
            self.violations.append(v)
        if func:
            self.analysed_fns.add(func)

    def check(self, cond, func, what, msg_bad, detail_ok='', where='', **kw):
        if cond:
            self.ok(func, what, detail_ok, where)
        else:
            self.bad(func, what, msg_bad, where, **kw)
        return cond

    def floor(self, count, floor, what):
        """Fail closed when fewer instances than confirmed by hand were found."""
        self.floors['%s:%s' % (self.rule, what)] = (count, floor)
        if count < floor:
            self.bad('-', 'anchor-missing:' + what,
                     'rule matched %d instance(s) of "%s", floor is %d: the anchored code is gone or '
                     'unrecognisable, the property cannot be vouched for' % (count, what, floor))

    def note(self, s):
        self.notes.append('%s: %s' % (self._rid(), s))


def run_selftest(ctx, pid):
    """Thorough tier: apply every catalogued mutant of this property to a scratch copy of the
    repository and require the quick check to report it.  A mutant whose edit anchors no longer
    exist in the tree is skipped (the tree changed), never counted as a failure."""
    import importlib.util
    sdir = os.path.join(VERIF, 'selftest')
    sys.path.insert(0, sdir)
    try:
        import run as st_run
        import catalogue
    finally:
        sys.path.pop(0)
    out = {}
    ctx.rule = 'selftest'
    ctx.config = 'default'
    for m in catalogue.MUTANTS:
        if pid not in m['props']:
            continue
        mm = dict(m, props=[pid])
        r = st_run.run_one(mm)
        if r.get('error'):
            out[m['id']] = 'skipped: ' + r['error'][:80]
            continue
        if r.get('build_failed'):
            out[m['id']] = 'skipped: mutant does not build on this tree'
            continue
        caught = bool(r['fired'].get(pid))
        out[m['id']] = 'caught' if caught else 'MISSED'
        if caught:
            ctx.ok('selftest', 'mutant %s' % m['id'], 'reported: %s' % '; '.join(r['keys'].get(pid, [])[:2])[:200], '')
        else:
            ctx.bad('selftest', 'mutant-not-caught:%s' % m['id'],
                    'the seeded mutant %s (which breaks %s) is not reported by this check: the checker lost its teeth' % (m['id'], pid))
    return out


def load_known():
    p = os.path.join(VERIF, 'known_findings.json')
    if not os.path.exists(p):
        return {'known': [], 'fixed': []}
    with open(p) as f:
        return json.load(f)


def run_rule(ctx, name, fn):
    try:
        fn(ctx)
    except AnchorMissing as e:
        ctx.bad('-', 'anchor-missing:' + str(e).split(' not found')[0],
                'anchor missing: %s' % e)
    except export.BuildFailed:
        raise
    except Exception as e:  # a crashed rule must not pass silently
        tb = traceback.format_exc()
        sys.stderr.write(tb)
        ctx.bad('-', 'rule-crashed', 'rule %s crashed: %r' % (name, e))


def run_property(pid, tier='quick', seed=0, only_rule=None, replay=None):
    from . import props  # noqa: F401  (registers rules)
    t0 = time.time()
    ctx = Ctx(pid, tier, seed)
    known_keys_all = set(k['key'] for k in load_known().get('known', []))
    meta = META.get(pid, {})
    rules = RULES.get(pid, [])
    fatal = None
    ran = []
    try:
        for (name, fn, rtier, configs) in rules:
            if only_rule and name != only_rule:
                continue
            if rtier == 'thorough' and tier != 'thorough':
                continue
            cfgs = list(configs)
            if tier != 'thorough':
                cfgs = [c for c in cfgs if c == 'default'] or cfgs[:1]
            for cfg in cfgs:
                ctx.rule = name
                ctx.config = cfg
                n_ob, n_vi = len(ctx.obligations), len(ctx.violations)
                run_rule(ctx, name, fn)
                ran.append('%s@%s' % (name, cfg))
                fresh = ctx.violations[n_vi:]
                if fresh and not all(v['key'] in known_keys_all for v in fresh) \
                        and not any(':repo-does-not-build' in v['key'] for v in fresh):
                    # second opinion on the expanded view (call-once closures run in place): the same program, rendered
                    # differently; a rule satisfied there has its obligation established
                    c2 = Ctx(pid, tier, seed)
                    c2._facts, c2.export_info = ctx._facts, ctx.export_info
                    c2.rule, c2.config, c2.view = name, cfg, 'expanded'
                    run_rule(c2, name, fn)
                    bad2_fns = set(v['fn'] for v in c2.violations if v['key'] not in known_keys_all)
                    bad2_keys = set(v['key'] for v in c2.violations)
                    ok2_fns = set(o['fn'] for o in c2.obligations if o['ok'])
                    dropped = []
                    for v in list(fresh):
                        if v['key'] in known_keys_all:
                            continue
                        if v['fn'] not in ('-', '', None):
                            # the obligations about this function hold on the expanded view: none violated, some discharged
                            est = v['fn'] not in bad2_fns and v['fn'] in ok2_fns
                        else:
                            est = v['key'] not in bad2_keys and not bad2_fns and bool(ok2_fns)
                        if est:
                            dropped.append(v)
                    if dropped:
                        dk = set(v['key'] for v in dropped)
                        ctx.violations[:] = [v for v in ctx.violations if v['key'] not in dk]
                        for o in ctx.obligations[n_ob:]:
                            if not o['ok'] and ('%s.%s:%s:%s' % (pid, name, o['fn'], o['what'])) in dk:
                                o['ok'] = True
                                o['detail'] = 'established on the expanded view (call-once closures run in place); plain view: ' + o['detail'][:160]
                        # known findings visible only on the expanded view are still findings
                        for v in c2.violations:
                            if v['key'] in known_keys_all and not any(x['key'] == v['key'] for x in ctx.violations):
                                ctx.violations.append(v)
                        ctx.analysed_fns |= c2.analysed_fns
                        ctx.note('%d obligation(s) decided on the expanded view: %s' % (len(dropped), ', '.join(sorted(dk))[:300]))
    except export.BuildFailed as e:
        fatal = str(e)
        ctx.rule = 'build'
        ctx.bad('-', 'repo-does-not-build', fatal[:1500])

    mutants = {}
    if tier == 'thorough' and fatal is None and os.path.realpath(export.REPO) == '/repo' and not os.environ.get('VERIF_NO_SELFTEST') \
            and not only_rule:
        mutants = run_selftest(ctx, pid)

    known = load_known()
    known_keys = {k['key']: k for k in known.get('known', []) if k.get('property') == pid}
    new = []
    known_hit = []
    for v in ctx.violations:
        if v['key'] in known_keys:
            known_hit.append(v)
        else:
            new.append(v)

    # runs against a scratch copy (self-tests) must not overwrite the evidence of /repo
    scratch = os.path.realpath(export.REPO) != '/repo'
    ev_dir = os.path.join(VERIF, '.cache', 'scratch-evidence') if scratch else os.path.join(VERIF, 'evidence')
    os.makedirs(os.path.join(VERIF, 'replay'), exist_ok=True)
    os.makedirs(ev_dir, exist_ok=True)
    for v in known_hit:
        print('KNOWN-FINDING: property=%s %s %s' % (pid, v['key'], known_keys[v['key']].get('what_fails', v['msg'])))
    for v in new:
        hid = hashlib.sha256(v['key'].encode()).hexdigest()[:12]
        rp = os.path.join(VERIF, 'replay', '%s-%s.json' % (pid, hid))
        with open(rp, 'w') as f:
            json.dump(v, f, indent=1)
        print('  %s\n    at %s\n    %s' % (v['key'], v.get('where', ''), v['msg']))
        print('VIOLATION property=%s replay=%s' % (pid, rp))

    obligations = len(ctx.obligations)
    discharged = sum(1 for o in ctx.obligations if o['ok'])
    # samples: a handful of analysed instances, ordered by seed
    obs = list(ctx.obligations)
    if obs:
        rot = seed % len(obs)
        obs = obs[rot:] + obs[:rot]
    per_rule = {}
    samples = []
    for o in obs:
        c = per_rule.get(o['rule'], 0)
        if c < 3:
            per_rule[o['rule']] = c + 1
            samples.append(o)
    distinct = len(set((o['rule'], o['fn'], o['what']) for o in ctx.obligations))
    ev = {
        'property_id': pid,
        'tier': tier,
        'seed': seed,
        'level': 'other',
        'coverage': {
            'explanation': meta.get('explanation', ''),
            'obligations': obligations,
            'discharged': discharged,
            'evaluations': max(obligations, 1),
            'distinct_nontrivial': distinct,
            'rule': 'one evaluation = one rule instance (a guard located and its dominance decided, a '
                    'write/error pair examined, a call site classified, a wire event matched ...) found in the '
                    'MIR of the current working tree; distinct = distinct (rule, function, instance) triples',
            'samples': samples[:40],
            'rules_run': ran,
            'instances_per_rule': ctx.instances,
            'floors': {k: {'found': a, 'floor': b} for k, (a, b) in ctx.floors.items()},
            'functions_analysed': sorted(ctx.analysed_fns),
            'configs': sorted(set(i['config'] for i in ctx.export_info)),
            'tree_hash': ctx.export_info[0]['tree_hash'] if ctx.export_info else None,
            'export': ctx.export_info,
            'known_findings_reported': [v['key'] for v in known_hit],
            'new_violations': [v['key'] for v in new],
            'not_decided': meta.get('not_decided', ''),
            'notes': ctx.notes,
            'mutants': mutants,
            'checker_cmd': 'bin/check %s --tier %s' % (pid, tier),
            'trusted_base': ['rustc type checking / trait resolution / MIR construction (-Zmir-opt-level=0)',
                             'driver/src/main.rs (fact exporter)', 'analyses/*.py (rule engines)',
                             'library-semantics tables in analyses/libtable.py'],
        },
        'assumptions': meta.get('assumptions', []),
        'wall_s': round(time.time() - t0, 3),
        'violations': len(new),
    }
    with open(os.path.join(ev_dir, pid + '.json'), 'w') as f:
        json.dump(ev, f, indent=1)
    status = 'FAIL' if new else 'ok'
    print('%s %s tier=%s rules=%d obligations=%d discharged=%d known=%d new=%d %.1fs' % (
        pid, status, tier, len(ran), obligations, discharged, len(known_hit), len(new), time.time() - t0))
    return 1 if new else 0
