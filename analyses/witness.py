"""Type-level witnesses: rustdoc compile_fail / compile-pass tests in /verif/witnesses, run
against the current tree (thorough tier).  Results are cached by tree hash."""
import json
import os
import re
import subprocess

from . import export

GROUPS = {
    'UserKeyRepresentationIsPrivate': 'fields of UserSecretKey are private (E0616), accessor twin compiles',
    'MasterKeyRepresentationIsPrivate': 'secrets / signing_key / tsk of MasterSecretKey are private, public-field twin compiles',
    'PublicKeyRepresentationIsPrivate': 'encryption_keys of MasterPublicKey is private',
    'EncapsulationRepresentationIsPrivate': 'fields of XEnc are private',
    'InstanceStateIsPrivate': 'Covercrypt.rng is private, rng() accessor twin compiles',
    'InstanceIsSendSync': 'Covercrypt: Send + Sync; keys are Send; MutexGuard twin fails (E0277)',
}


def run():
    h = export.tree_hash()
    cache = os.path.join(export.CACHE, 'witness-%s.json' % h)
    if os.path.exists(cache):
        with open(cache) as f:
            return json.load(f)
    r = subprocess.run([os.path.join(export.VERIF, 'bin', 'witnesses')], capture_output=True, text=True,
                       env=dict(os.environ, VERIF_REPO=export.REPO))
    res = {}
    for m in re.finditer(r'^test src/lib\.rs - (\w+) \(line (\d+)\)( - compile fail)? \.\.\. (\w+)', r.stdout, re.M):
        res.setdefault(m.group(1), []).append((int(m.group(2)), bool(m.group(3)), m.group(4)))
    out = {'ok': r.returncode == 0, 'groups': res, 'tail': r.stdout[-1500:] if r.returncode != 0 else ''}
    with open(cache, 'w') as f:
        json.dump(out, f)
    return out


def check(ctx, names):
    res = run()
    for nm in names:
        tests = res['groups'].get(nm, [])
        bad = [t for t in tests if t[2] != 'ok']
        ctx.check(bool(tests) and not bad, 'witnesses::' + nm, 'witness(%s)' % nm,
                  'type-level witness %s failed (%s): %s' % (nm, bad or 'not run', GROUPS.get(nm, '') + ' ' + res.get('tail', '')[-400:]),
                  '%d rustdoc tests: %s' % (len(tests), GROUPS.get(nm, '')), 'witnesses/src/lib.rs')
