"""E-FIN — exact evaluation of total functions over finite domains (field-less enums and
bool).  A tiny abstract interpreter over the exported MIR: values are enum variant
indices, bools, integers produced by discriminant reads, unit, and references to
locals.  The only library facts used are: derived `PartialEq::eq` on a field-less enum
compares discriminants; `Clone`/`Copy` preserve the value.  Anything else makes the
evaluation fail (reported as 'not evaluable'), never guess."""
from .facts import op_local, op_place, is_place


class NotEvaluable(Exception):
    pass


class V:
    __slots__ = ('k', 'v', 'adt')

    def __init__(self, k, v, adt=None):
        self.k, self.v, self.adt = k, v, adt

    def __repr__(self):
        return '%s:%s' % (self.k, self.v)

    def __eq__(self, o):
        return isinstance(o, V) and (self.k, self.v, self.adt) == (o.k, o.v, o.adt)

    def __hash__(self):
        return hash((self.k, self.v, self.adt))


def enum_variants(F, adt):
    a = F.adts.get(adt)
    if a is None or a['kind'] != 'Enum':
        return None
    return [v['name'] for v in a['variants']]


def promoted_value(F, body, c):
    """Value of a promoted constant operand (a reference to a unit enum variant / scalar)."""
    idx = c.get('promoted')
    if idx is None:
        return None
    root = body.key
    pb = F.bodies.get('%s::promoted[%d]' % (root, idx))
    if pb is None:
        return None
    env = Interp(F, pb, []).run_raw()
    return env


class Interp:
    def __init__(self, F, body, args, callee_depth=0):
        self.F = F
        self.body = body
        self.env = {}
        self.depth = callee_depth
        for i, a in enumerate(args):
            self.env[i + 1] = a

    # ---- places
    def read_place(self, pl):
        if pl['l'] not in self.env:
            raise NotEvaluable('read of unset _%d' % pl['l'])
        v = self.env[pl['l']]
        for e in pl['p']:
            if e == '*':
                if v.k != 'ref':
                    raise NotEvaluable('deref of non-ref')
                v = v.v
            elif isinstance(e, dict) and 'f' in e:
                if v.k == 'tuple':
                    v = v.v[e['f']]
                else:
                    raise NotEvaluable('field of %s' % v.k)
            else:
                raise NotEvaluable('projection %r' % (e,))
        return v

    def operand(self, op):
        if 'c' in op:
            c = op['c']
            if 'promoted' in c:
                v = promoted_value(self.F, self.body, c)
                if v is None:
                    raise NotEvaluable('promoted')
                return v
            if c['ty'] == 'bool':
                return V('bool', bool(c.get('v')))
            if c['ty'] == '()':
                return V('unit', None)
            if 'v' in c:
                return V('int', c['v'])
            raise NotEvaluable('constant %s' % c.get('s'))
        return self.read_place(op_place(op))

    def rvalue(self, rv):
        k = rv['k']
        if k == 'use':
            return self.operand(rv['a'])
        if k == 'ref':
            return V('ref', self.read_place(rv['pl']))
        if k == 'agg':
            if 'adt' in rv:
                vs = enum_variants(self.F, rv['adt'])
                if vs is not None and not rv['ops']:
                    return V('enum', rv['variant'], rv['adt'])
                if rv['adt'] in ('std::option::Option',):
                    return V('opt', (rv['variant'], tuple(self.operand(o) for o in rv['ops'])))
                raise NotEvaluable('aggregate %s' % rv['adt'])
            if rv.get('tuple'):
                return V('tuple', tuple(self.operand(o) for o in rv['ops']))
            raise NotEvaluable('aggregate')
        if k == 'discr':
            v = self.read_place(rv['pl'])
            if v.k == 'enum':
                return V('int', enum_variants(self.F, v.adt).index(v.v))
            if v.k == 'bool':
                return V('int', int(v.v))
            raise NotEvaluable('discriminant of %s' % v.k)
        if k == 'bin':
            a, b = self.operand(rv['a']), self.operand(rv['b'])
            if a.k not in ('int', 'bool') or b.k not in ('int', 'bool'):
                raise NotEvaluable('binop on %s' % a.k)
            x, y = int(a.v), int(b.v)
            op = rv['op']
            table = {'Eq': x == y, 'Ne': x != y, 'Lt': x < y, 'Le': x <= y, 'Gt': x > y, 'Ge': x >= y}
            if op in table:
                return V('bool', table[op])
            if op in ('BitAnd', 'BitOr', 'BitXor') and a.k == 'bool':
                return V('bool', {'BitAnd': a.v and b.v, 'BitOr': a.v or b.v, 'BitXor': a.v != b.v}[op])
            raise NotEvaluable('binop %s' % op)
        if k == 'un' and rv['op'] == 'Not':
            a = self.operand(rv['a'])
            if a.k == 'bool':
                return V('bool', not a.v)
        if k == 'cast':
            a = self.operand(rv['a'])
            if a.k in ('int', 'bool'):
                return V('int', int(a.v))
        raise NotEvaluable('rvalue %s' % k)

    def call(self, c):
        args = [self.operand(a) for a in c.args]
        if c.is_(r'^std::cmp::PartialEq::(eq|ne)$'):
            def strip(v):
                while v.k == 'ref':
                    v = v.v
                return v
            a, b = strip(args[0]), strip(args[1])
            if a.k == 'enum' and b.k == 'enum' and a.adt == b.adt:
                # derived PartialEq on a field-less enum: is the impl the derive?  (crate-local body
                # exists: evaluate it; otherwise library fact)
                res = (a.v == b.v)
                return V('bool', res if c.name == 'eq' else not res)
            if a.k == 'bool' and b.k == 'bool':
                return V('bool', (a.v == b.v) if c.name == 'eq' else (a.v != b.v))
            raise NotEvaluable('eq on %s' % a.k)
        if c.is_(r'^std::clone::Clone::clone$'):
            v = args[0]
            return v.v if v.k == 'ref' else v
        from . import lib
        cal = lib.local_callee(self.F, c)
        if cal is not None and self.depth < 4:
            return Interp(self.F, cal, args, self.depth + 1).run()
        raise NotEvaluable('call %s' % c.full[:60])

    def run_raw(self):
        return self.run()

    def run(self):
        body = self.body
        b = 0
        steps = 0
        while steps < 500:
            steps += 1
            for st in body.stmts(b):
                lhs = st['lhs']
                if st['rv']['k'] == 'setdiscr':
                    raise NotEvaluable('setdiscr')
                val = self.rvalue(st['rv'])
                if lhs['p']:
                    raise NotEvaluable('projected write')
                self.env[lhs['l']] = val
            t = body.term(b)
            k = t['k']
            if k == 'return':
                if 0 not in self.env:
                    raise NotEvaluable('no return value')
                return self.env[0]
            if k == 'goto':
                b = t['t']
            elif k == 'switch':
                v = self.operand(t['d'])
                if v.k not in ('int', 'bool'):
                    raise NotEvaluable('switch on %s' % v.k)
                x = int(v.v)
                nb = t['else']
                for val, bb in t['cases']:
                    if val == x:
                        nb = bb
                b = nb
            elif k == 'call':
                c = body.call_at(b)
                v = self.call(c)
                if c.dest['p']:
                    raise NotEvaluable('projected dest')
                self.env[c.dest['l']] = v
                if t['t'] is None:
                    raise NotEvaluable('diverging call')
                b = t['t']
            elif k == 'drop':
                b = t['t']
            elif k == 'unreachable':
                raise NotEvaluable('unreachable reached')
            else:
                raise NotEvaluable('terminator %s' % k)
        raise NotEvaluable('step limit')


def truth_table(F, body, domains):
    """domains: list (per parameter) of lists of V.  Returns {tuple(inputs): V}."""
    import itertools
    out = {}
    for combo in itertools.product(*domains):
        out[combo] = Interp(F, body, list(combo)).run()
    return out


def enum_domain(F, adt):
    return [V('enum', v, adt) for v in enum_variants(F, adt)]


BOOLS = [V('bool', False), V('bool', True)]
