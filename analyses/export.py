"""Runs the ccfacts driver over the *current working tree* of the repository and
caches the exported facts by a content hash of that tree."""
import fcntl
import glob
import hashlib
import os
import re
import shutil
import subprocess
import sys
import time

VERIF = os.path.dirname(os.path.dirname(os.path.abspath(__file__)))
REPO = os.environ.get('VERIF_REPO', '/repo')
CACHE = os.path.join(VERIF, '.cache')
DRIVER = os.path.join(VERIF, 'driver', 'target', 'release', 'ccfacts')

CONFIGS = {
    # name: (cargo feature args, target selection)
    'default': ([], ['--lib']),
    'p256': (['--no-default-features', '--features', 'p-256,mlkem-768'], ['--lib']),
    'all': (['--features', 'test-utils'], ['--lib', '--examples', '--benches']),
}


class BuildFailed(Exception):
    pass


def tree_hash(repo=None):
    repo = repo or REPO
    h = hashlib.sha256()
    paths = []
    for top in ('src', 'examples', 'benches'):
        for root, dirs, files in os.walk(os.path.join(repo, top)):
            dirs.sort()
            for f in sorted(files):
                paths.append(os.path.join(root, f))
    for f in ('Cargo.toml', 'Cargo.lock', 'build.rs'):
        p = os.path.join(repo, f)
        if os.path.exists(p):
            paths.append(p)
    for p in paths:
        h.update(os.path.relpath(p, repo).encode())
        h.update(b'\0')
        with open(p, 'rb') as fh:
            h.update(fh.read())
        h.update(b'\0')
    with open(os.path.join(VERIF, 'driver', 'src', 'main.rs'), 'rb') as fh:
        h.update(fh.read())
    return h.hexdigest()[:24]


def sysroot_lib():
    out = subprocess.run(['rustc', '+nightly', '--print', 'sysroot'], capture_output=True, text=True)
    return os.path.join(out.stdout.strip(), 'lib')


def ensure_driver():
    if os.path.exists(DRIVER):
        src = os.path.join(VERIF, 'driver', 'src', 'main.rs')
        if os.path.getmtime(src) <= os.path.getmtime(DRIVER):
            return
    env = dict(os.environ, CARGO_NET_OFFLINE='true')
    r = subprocess.run(['cargo', 'build', '--release', '--offline'], cwd=os.path.join(VERIF, 'driver'),
                       env=env, capture_output=True, text=True)
    if r.returncode != 0 or not os.path.exists(DRIVER):
        sys.stderr.write(r.stderr[-4000:])
        raise BuildFailed('cannot build the fact exporter')


def _prune_cache(keep=8):
    root = os.path.join(CACHE, 'facts')
    if not os.path.isdir(root):
        return
    ds = sorted((os.path.getmtime(os.path.join(root, d)), d) for d in os.listdir(root))
    for _, d in ds[:-keep]:
        shutil.rmtree(os.path.join(root, d), ignore_errors=True)


def facts_path(config='default', repo=None, quiet=False):
    """Returns (path to facts JSON, info dict).  Rebuilds from the working tree when
    the content hash is not cached."""
    repo = repo or REPO
    os.makedirs(CACHE, exist_ok=True)
    h = tree_hash(repo)
    outdir = os.path.join(CACHE, 'facts', h)
    dst = os.path.join(outdir, config + '.json')
    info = {'tree_hash': h, 'config': config, 'cached': True, 'export_s': 0.0}
    if os.path.exists(dst):
        os.utime(outdir)
        return dst, info
    # self-test drivers running side by side may name a slot of their own (VERIF_EXPORT_SLOT): a separate build directory
    # and lock, so that their exports do not queue behind each other; the registered checks use the default slot
    slot = re.sub(r'[^A-Za-z0-9_]', '', os.environ.get('VERIF_EXPORT_SLOT', ''))
    sfx = ('-' + slot) if slot else ''
    lock = open(os.path.join(CACHE, 'export%s.lock' % sfx), 'w')
    fcntl.flock(lock, fcntl.LOCK_EX)
    try:
        if os.path.exists(dst):
            return dst, info
        ensure_driver()
        t0 = time.time()
        feats, targets = CONFIGS[config]
        tgt = os.path.join(CACHE, 'target-' + config + sfx)
        tmp_out = os.path.join(CACHE, 'out-%d' % os.getpid())
        shutil.rmtree(tmp_out, ignore_errors=True)
        os.makedirs(tmp_out)
        # cargo's freshness cache would skip the wrapper: forget the member crate
        for fp in glob.glob(os.path.join(tgt, 'debug', '.fingerprint', 'cosmian_cover_crypt-*')):
            shutil.rmtree(fp, ignore_errors=True)
        env = dict(os.environ)
        env.update({
            'LD_LIBRARY_PATH': sysroot_lib() + ':' + env.get('LD_LIBRARY_PATH', ''),
            'RUSTFLAGS': '-Zmir-opt-level=0 -Awarnings',
            'RUSTC_WORKSPACE_WRAPPER': DRIVER,
            'CCFACTS_OUT': tmp_out,
            'CARGO_TARGET_DIR': tgt,
            'CARGO_NET_OFFLINE': 'true',
        })
        env.pop('RUSTC_WRAPPER', None)
        cmd = ['cargo', '+nightly', 'check', '--offline'] + feats + targets
        r = subprocess.run(cmd, cwd=repo, env=env, capture_output=True, text=True)
        if r.returncode != 0:
            shutil.rmtree(tmp_out, ignore_errors=True)
            raise BuildFailed('cargo check failed for config %s:\n%s' % (config, r.stderr[-3000:]))
        produced = glob.glob(os.path.join(tmp_out, 'cosmian_cover_crypt-*.json'))
        libs = [p for p in produced if 'Rlib' in os.path.basename(p)]
        if not libs:
            shutil.rmtree(tmp_out, ignore_errors=True)
            raise BuildFailed('the exporter produced no facts for the library (stale build cache?)')
        os.makedirs(outdir, exist_ok=True)
        shutil.move(libs[0], dst + '.tmp')
        os.replace(dst + '.tmp', dst)
        # other targets (examples/benches) of the 'all' config
        others = [p for p in glob.glob(os.path.join(tmp_out, '*.json'))]
        for i, p in enumerate(sorted(others)):
            shutil.move(p, os.path.join(outdir, '%s.extra%d.json' % (config, i)))
        shutil.rmtree(tmp_out, ignore_errors=True)
        info['cached'] = False
        info['export_s'] = round(time.time() - t0, 2)
        _prune_cache()
        if not quiet:
            sys.stderr.write('[export] %s facts for tree %s in %.1fs\n' % (config, h, info['export_s']))
        return dst, info
    finally:
        fcntl.flock(lock, fcntl.LOCK_UN)
        lock.close()


if __name__ == '__main__':
    cfgs = sys.argv[1:] or ['default']
    for c in cfgs:
        p, info = facts_path(c)
        print(p, info)
