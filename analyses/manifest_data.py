"""Per-property claim texts for MANIFEST.json (bin/mkmanifest)."""

TB = ('Trusted base: rustc type checking / trait resolution / MIR construction at -Zmir-opt-level=0; the fact exporter '
      '(driver/src/main.rs); the python rule engines; the library-semantics tables in analyses/libtable.py. '
      'Decides the structural clause(s) named, which are necessary conditions of the property, not the behaviour itself. ')

CLAIMS = {
    'C02': {
        'text': 'Static analysis of the MIR of the current tree, all paths: every Ok(Some(secret)) of c_decaps/h_decaps is '
                'dominated by the equal edges of the full-width tag comparison against the same J_hash call that yields the '
                'secret and of the whole-vector Fujisaki-Okamoto trap comparison for the same candidate seed; decaps dispatches '
                'tag/traps/vector of the XEnc to the matching flavour; UserSecretKey.secrets has exactly the allowed writers and '
                'master secrets are read on issuing paths through keyed lookups only. Partial: the cover relation and the '
                'cryptographic soundness of the tag are not decided.',
        'note': TB + 'Assumes SHA3 collision resistance and that PartialEq on arrays/slices/Vec compares every element.',
        'technique': 'MIR dominance (must-pass-through) + provenance slicing + who-may-write enumeration',
    },
    'C04': {
        'text': 'RevisionIterator::next combines per-chain items without a short-circuiting collector and returns None when no '
                'chain yields; the opening loops iterate revisions() untruncated; every producer/consumer of a revision chain '
                'agrees that the newest secret is at the front (push_front / front / split_off tail / iter from front); rekey '
                'prepends fresh secrets for its rights through RevisionMap::insert; API wrappers return mpk() rebuilt after the '
                'mutation. Partial: who can open what after a history is not decided.',
        'note': TB + 'Library table: LinkedList push_front/front/iter/split_off semantics, FromIterator for Option short-circuits.',
        'technique': 'resolved-callee sibling agreement + MIR dominance + provenance slicing',
    },
    'C05': {
        'text': 'In refresh_coordinate_keys every push onto the refreshed chain is a clone of a master-chain element or a user '
                'secret dominated by the equal edge (or a relay flag set only on that edge) of a comparison with a master-chain '
                'element; refreshed chains are built only under the Some edge of the keyed lookup of the right; prune keeps '
                'exactly one (literal 1) newest secret through keep=split_off(n) returning the tail. Partial: outcomes over '
                'histories are not decided.',
        'note': TB + 'Library table: LinkedList::split_off keeps the first n elements; derived PartialEq on RightSecretKey.',
        'technique': 'MIR dominance with relay-flag recognition + provenance slicing',
    },
    'C06': {
        'text': 'Inductive flag discipline, all obligations structural: exact set of mutators of MasterSecretKey.secrets; every '
                'stored activation flag is `EncryptDecrypt == status`, a copy of the head flag of the same right, or '
                'deserializer input (constants rejected); Attribute.write_status writers and constants; truth tables of '
                'AttributeStatus::bitor and bool::from by exact finite-domain evaluation; cpk only in mpk and dominated by the '
                'true edge of the flag read at front(); update_msk only retains/updates/inserts.',
        'note': TB + 'Assumes LinkedList::front is the newest secret (C04.orientation) and derived PartialEq on field-less enums.',
        'technique': 'who-may-write + provenance slicing + MIR dominance + finite-domain abstract evaluation',
    },
    'C10': {
        'text': 'Failure atomicity decided on all CFG paths (loops included) for every reachable crate function taking a '
                'crate object by &mut and returning Result: no statement that may write memory reachable from the parameter '
                '(through derived handles, closures, crate callees by summary, std mutators) can be followed by a feasible '
                'error exit. Implies byte-identical serialisations after any failed call.',
        'note': TB + 'Infallible-in-practice table (Serializable::serialize on Vec, usize/u64 conversions) and derived '
                     'infallibility of crate functions; panics between write and commit are out of scope.',
        'technique': 'forward may-write-before-error analysis over MIR with interprocedural summaries',
    },
    'C14': {
        'text': 'From every Serializable::read, decapsulation, decryption and accessor entry point: no input-derived integer '
                'reaches an allocation size unbounded (taint through casts/try_from/helpers, min(_, remaining) sanitiser), every '
                'Deserializer::read_vec is dominated by a peeked-length <= remaining comparison, input-bounded loops and chains '
                'consume input fallibly each iteration and short-circuit, the revision iterator terminates, and every reachable '
                'crate-local panic site is discharged by a recognised guard, constant reasoning or a frozen exception with reason.',
        'note': TB + 'Additions of in-memory lengths are class-discharged; dependency internals (ml-kem, aes-gcm, curve arithmetic) '
                     'are not examined; Deserializer::read_vec allocating before checking is a table entry.',
        'technique': 'taint analysis + panic-site audit over the resolved call graph + MIR dominance',
    },
    'C18': {
        'text': 'In full_decaps the recovered key assignment and right insertion are dominated by the tag and Fujisaki-Okamoto '
                'comparisons (operand provenance as in C02) and every master-secret use by an activation test; recaps hands '
                'encaps exactly the recovered right set and the caller public key, propagates the error and returns the fresh '
                'secret; every reader of an activation flag reads it at the chain head where the writers maintain it.',
        'note': TB + 'Assumes SHA3 collision resistance; audience equality over histories is not decided.',
        'technique': 'MIR dominance + identity-form provenance + belief-consistency (reader/writer position agreement)',
    },
}

CLAIMS['C01'] = {
    'text': 'Necessary conditions of completeness decided on the MIR: the abstract hash transcripts of T and U agree between '
            'the encapsulating side and every opening side per flavour and H/J/G digests are shared; Right::from_point sorts '
            'before encoding, Right has only canonical constructors and both sides take identifiers from Attribute.id; the '
            'opening loops cover revisions x encapsulations x secrets untruncated, are left only by exhaustion or return, and '
            'Ok(None) only follows exhaustion of the outermost iterator. Partial: the cover relation and the algebra are not decided.',
    'note': TB + 'Assumes slice::sort_unstable sorts and SHA3 is deterministic.',
    'technique': 'hash-transcript abstraction with sibling agreement + who-may-construct + loop-exit analysis on MIR',
}
CLAIMS['C07'] = {
    'text': 'Every component of an XEnc is bound into acceptance: the transcripts of T, U, H, J on all five encapsulating / opening '
            'functions equal the table the scheme defines (so consistently dropping an input everywhere is reported), digests are '
            'wired (H_hash gets T, J_hash gets U, K2 = Some(ML-KEM secret) exactly in hybrid code); every flavour tag read accepts '
            'exactly {0,1} and anything else reaches Err; AE::decrypt / EncryptedHeader::decrypt hand out data only from '
            'Dem::decrypt on nonce||body split at one constant with the caller\'s authentication_data on both sides.',
    'note': TB + 'Assumes SHA3 collision resistance and AES-GCM authenticity; byte-level canonicity of encodings lives in dependencies.',
    'technique': 'hash-transcript abstraction with required-coverage table + MIR dominance + identity-form provenance',
}
CLAIMS['C13'] = {
    'text': 'For all 24 impl Serializable: write and read abstracted to ordered wire-event lists (Leb/Item/Array/Vec with loop depth, '
            'closures and helpers inlined, per variant / tag / remaining-length branch) are equal including tag constants; every '
            'field is read by write and (if variable-size) by length; every field and tuple component built by read derives from '
            'deserializer input (data or control); every byte count returned by a Serializer call reaches the returned total and '
            'the accumulator is never overwritten. Partial: behavioural interchangeability and pinned-release vectors not decided.',
    'note': TB + 'Assumes the Serializer/Deserializer primitives of cosmian_crypto_core are mutually inverse.',
    'technique': 'wire-grammar abstraction of sibling implementations (write/read/length) over MIR + forward dataflow',
}

NOT_APPLICABLE = {}

NOTES = ('Static analysis only: every check compiles the current working tree of /repo under a rustc_private driver, exports '
         'resolved MIR, and evaluates repository-specific rules over it; nothing is executed or handed to a solver. Each '
         'property is claimed clause-wise (structural necessary conditions); the declined clauses are listed in DESIGN.md '
         'section 7 and in each evidence file under coverage.not_decided.')
