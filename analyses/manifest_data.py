"""Per-property claim texts for MANIFEST.json (bin/mkmanifest)."""

TB = ('Trusted base: rustc type checking / trait resolution / MIR construction at -Zmir-opt-level=0; the fact exporter '
      '(driver/src/main.rs); the python rule engines; the library-semantics tables in analyses/libtable.py. '
      'Decides the structural clause(s) named, which are necessary conditions of the property, not the behaviour itself. ')

CLAIMS = {
    'C02': {
        'text': 'Static analysis of the MIR of the current tree, all paths: every Ok(Some(secret)) of c_decaps/h_decaps is '
                'dominated by the equal edges of the full-width tag comparison against the same J_hash call that yields the '
                'secret and of the whole-vector Fujisaki-Okamoto trap comparison for the same candidate seed; decaps dispatches '
                'tag/traps/vector of the XEnc to the matching flavour; UserSecretKey.secrets has exactly the allowed writers and '
                'master secrets are read on issuing paths through keyed lookups only. Partial: the cover relation and the '
                'cryptographic soundness of the tag are not decided.',
        'note': TB + 'Assumes SHA3 collision resistance and that PartialEq on arrays/slices/Vec compares every element.',
        'technique': 'MIR dominance (must-pass-through) + provenance slicing + who-may-write enumeration',
    },
    'C04': {
        'text': 'RevisionIterator::next combines per-chain items without a short-circuiting collector and returns None when no '
                'chain yields; the opening loops iterate revisions() untruncated; every producer/consumer of a revision chain '
                'agrees that the newest secret is at the front (push_front / front / split_off tail / iter from front); rekey '
                'prepends fresh secrets for its rights through RevisionMap::insert; API wrappers return mpk() rebuilt after the '
                'mutation. Partial: who can open what after a history is not decided.',
        'note': TB + 'Library table: LinkedList push_front/front/iter/split_off semantics, FromIterator for Option short-circuits.',
        'technique': 'resolved-callee sibling agreement + MIR dominance + provenance slicing',
    },
    'C05': {
        'text': 'In refresh_coordinate_keys every push onto the refreshed chain is a clone of a master-chain element or a user '
                'secret dominated by the equal edge (or a relay flag set only on that edge) of a comparison with a master-chain '
                'element; refreshed chains are built only under the Some edge of the keyed lookup of the right; prune keeps '
                'exactly one (literal 1) newest secret through keep=split_off(n) returning the tail. Partial: outcomes over '
                'histories are not decided.',
        'note': TB + 'Library table: LinkedList::split_off keeps the first n elements; derived PartialEq on RightSecretKey.',
        'technique': 'MIR dominance with relay-flag recognition + provenance slicing',
    },
    'C06': {
        'text': 'Inductive flag discipline, all obligations structural: exact set of mutators of MasterSecretKey.secrets; every '
                'stored activation flag is `EncryptDecrypt == status`, a copy of the head flag of the same right, or '
                'deserializer input (constants rejected); Attribute.write_status writers and constants; truth tables of '
                'AttributeStatus::bitor and bool::from by exact finite-domain evaluation; cpk only in mpk and dominated by the '
                'true edge of the flag read at front(); update_msk only retains/updates/inserts.',
        'note': TB + 'Assumes LinkedList::front is the newest secret (C04.orientation) and derived PartialEq on field-less enums.',
        'technique': 'who-may-write + provenance slicing + MIR dominance + finite-domain abstract evaluation',
    },
    'C10': {
        'text': 'Failure atomicity decided on all CFG paths (loops included) for every reachable crate function taking a '
                'crate object by &mut and returning Result: no statement that may write memory reachable from the parameter '
                '(through derived handles, closures, crate callees by summary, std mutators) can be followed by a feasible '
                'error exit. Implies byte-identical serialisations after any failed call.',
        'note': TB + 'Infallible-in-practice table (Serializable::serialize on Vec, usize/u64 conversions) and derived '
                     'infallibility of crate functions; panics between write and commit are out of scope.',
        'technique': 'forward may-write-before-error analysis over MIR with interprocedural summaries',
    },
    'C14': {
        'text': 'From every Serializable::read, decapsulation, decryption and accessor entry point: no input-derived integer '
                'reaches an allocation size unbounded (taint through casts/try_from/helpers, min(_, remaining) sanitiser), every '
                'Deserializer::read_vec is dominated by a peeked-length <= remaining comparison, input-bounded loops and chains '
                'consume input fallibly each iteration and short-circuit, the revision iterator terminates, and every reachable '
                'crate-local panic site is discharged by a recognised guard, constant reasoning or a frozen exception with reason.',
        'note': TB + 'Additions of in-memory lengths are class-discharged; dependency internals (ml-kem, aes-gcm, curve arithmetic) '
                     'are not examined; Deserializer::read_vec allocating before checking is a table entry.',
        'technique': 'taint analysis + panic-site audit over the resolved call graph + MIR dominance',
    },
    'C18': {
        'text': 'In full_decaps the recovered key assignment and right insertion are dominated by the tag and Fujisaki-Okamoto '
                'comparisons (operand provenance as in C02) and every master-secret use by an activation test; recaps hands '
                'encaps exactly the recovered right set and the caller public key, propagates the error and returns the fresh '
                'secret; every reader of an activation flag reads it at the chain head where the writers maintain it.',
        'note': TB + 'Assumes SHA3 collision resistance; audience equality over histories is not decided.',
        'technique': 'MIR dominance + identity-form provenance + belief-consistency (reader/writer position agreement)',
    },
}

CLAIMS['C01'] = {
    'text': 'Necessary conditions of completeness decided on the MIR: the abstract hash transcripts of T and U agree between '
            'the encapsulating side and every opening side per flavour and H/J/G digests are shared; Right::from_point sorts '
            'before encoding, Right has only canonical constructors and both sides take identifiers from Attribute.id; the '
            'opening loops cover revisions x encapsulations x secrets untruncated, are left only by exhaustion or return, and '
            'Ok(None) only follows exhaustion of the outermost iterator. Partial: the cover relation and the algebra are not decided.',
    'note': TB + 'Assumes slice::sort_unstable sorts and SHA3 is deterministic.',
    'technique': 'hash-transcript abstraction with sibling agreement + who-may-construct + loop-exit analysis on MIR',
}
CLAIMS['C07'] = {
    'text': 'Every component of an XEnc is bound into acceptance: the transcripts of T, U, H, J on all five encapsulating / opening '
            'functions equal the table the scheme defines (so consistently dropping an input everywhere is reported), digests are '
            'wired (H_hash gets T, J_hash gets U, K2 = Some(ML-KEM secret) exactly in hybrid code); every flavour tag read accepts '
            'exactly {0,1} and anything else reaches Err; AE::decrypt / EncryptedHeader::decrypt hand out data only from '
            'Dem::decrypt on nonce||body split at one constant with the caller\'s authentication_data on both sides.',
    'note': TB + 'Assumes SHA3 collision resistance and AES-GCM authenticity; byte-level canonicity of encodings lives in dependencies.',
    'technique': 'hash-transcript abstraction with required-coverage table + MIR dominance + identity-form provenance',
}
CLAIMS['C13'] = {
    'text': 'For all 24 impl Serializable: write and read abstracted to ordered wire-event lists (Leb/Item/Array/Vec with loop depth, '
            'closures and helpers inlined, per variant / tag / remaining-length branch) are equal including tag constants; every '
            'field is read by write and (if variable-size) by length; every field and tuple component built by read derives from '
            'deserializer input (data or control); every byte count returned by a Serializer call reaches the returned total and '
            'the accumulator is never overwritten. Partial: behavioural interchangeability and pinned-release vectors not decided.',
    'note': TB + 'Assumes the Serializer/Deserializer primitives of cosmian_crypto_core are mutually inverse.',
    'technique': 'wire-grammar abstraction of sibling implementations (write/read/length) over MIR + forward dataflow',
}

CLAIMS['C03'] = {
    'text': 'Per-operation invariants the histories rely on: the identifier of a new attribute must derive from a monotone '
            'allocation cell and never from a container cardinality or maximum (today it derives from the number of live '
            'attributes: genuine defect, reported as KNOWN-FINDING K1 by exact key); Attribute.id has only constructor / '
            'deserialisation writers; rename stores exactly the removed value and Dict::update_key touches only the key half; '
            'disable_attribute writes write_status only and nothing rewrites encryption_hint; update_msk retains before '
            'inserting and the API wrappers pass access_structure.omega(). Partial: outcomes over edit histories not decided.',
    'note': TB + 'Known finding K1 (identifier reuse after deletion) is listed in known_findings.json, not repaired (needs a wire-format change).',
    'technique': 'provenance slicing of the allocated identifier + who-may-write enumeration + identity-form provenance',
}
CLAIMS['C08'] = {
    'text': 'verify(msk, usk)? dominates every other call and every write of refresh; verify recomputes sign over the key\'s own '
            'id / secrets, compares the whole Option<[u8;32]> and accepts only on the equal edge; the KMAC transcript covers '
            'markers, rights and every secret of both flavours in order and is keyed by the signing key; injectivity of the MAC '
            'encoding (counts / lengths / variant tags) is checked item by item — five unframed items are a genuine defect '
            'reported as KNOWN-FINDING K2 by exact keys, any new unframed input is a new violation; key representations are private.',
    'note': TB + 'Assumes KMAC256 unforgeability. K2 is not repaired because re-framing invalidates every issued signature.',
    'technique': 'MIR dominance + may-write analysis + hash-transcript coverage and injectivity classification',
}
CLAIMS['C09'] = {
    'text': 'Frozen contract table of 26 (function, Error variant, minimum sites) rows plus 14 reachability rows: every documented '
            'failure still has its error site on the path of its operation; no Result carrying a crate error is discarded or '
            'turned into a default; the only calls whose Err can leave refresh are verify, refresh_id and sign. Partial: the '
            '"succeeds otherwise" direction and exactness of guard conditions are not decided.',
    'note': TB + 'The contract table was frozen from the documented behaviour after reading the code.',
    'technique': 'call-graph reachability of error sites + error-discipline audit (unused / swallowed Results) over MIR',
}
CLAIMS['C11'] = {
    'text': 'Exact truth tables (finite-domain evaluation of the MIR) of EncryptionHint::bitor / new / bool::from and of '
            'is_hybridized; cpk, drop_hybridization and RightSecretKey::random preserve / choose the variant as required; combine '
            'ORs the hint of every appended component from a Classic seed; the hybridize flag of new secrets is `Hybridized == hint` '
            '(update) or is_hybridized() of the newest secret (rekey); downgrade only under Classic == hint; select_subkeys clears '
            'its all-hybridized flag only under !is_hybridized(); encaps dispatches on it; HEncs / CEncs built only by the matching side.',
    'note': TB + 'Assumes derived PartialEq on field-less enums compares discriminants.',
    'technique': 'finite-domain abstract evaluation + MIR dominance + provenance slicing',
}
CLAIMS['C12'] = {
    'text': 'Key-derivation labels agree between the two directions of the PKE and of the header and the two header labels differ; '
            'ciphertexts are framed nonce || body with the nonce actually used and split at the same constant; every slice of '
            'untrusted ciphertext is dominated by a length check and the Option returned by decapsulation is only mapped / '
            'transposed; the caller\'s authentication_data is the associated data on both sides. Partial: round-trip equality and '
            'AEAD behaviour are not decided.',
    'note': TB + 'Assumes AES-256-GCM and the KDFs of cosmian_crypto_core behave as specified.',
    'technique': 'sibling agreement of constants and framing by provenance + panic-site audit with length-guard dominance',
}
CLAIMS['C15'] = {
    'text': 'Totality of the parser only: every str range index in AccessPolicy::parse, its helpers and QualifiedAttribute::try_from '
            'has char-boundary-safe provenance (0, byte length of a collected prefix, char_indices offset, offset + len_utf8 of that '
            'char); no other undischarged panic site is reachable from parse / try_from / to_dnf. Logical faithfulness is declined.',
    'note': TB + 'Precedence, DNF equivalence and name preservation are not decided (only a frozen-shape proxy would be available).',
    'technique': 'provenance classification of str slice bounds + panic-site audit over the resolved call graph',
}
CLAIMS['C16'] = {
    'text': 'Freshness as provenance from the instance CSPRNG on every call: every AEAD nonce comes from Nonce::new on the parameter / '
            'instance RNG in the same invocation; the encapsulated seed is Secret::random(rng) with scalar, traps and ML-KEM '
            'randomness derived from it / the RNG; id markers and right secrets are drawn from the RNG; every stored master secret is '
            'fresh or deserialised; every RNG hand-off passes the caller\'s own RNG; instances seed from entropy and nothing seeds '
            'deterministically; metadata-key and returned-secret labels differ.',
    'note': TB + 'Uniqueness itself rests on the CSPRNG assumption (ChaCha seeded from OS entropy).',
    'technique': 'identity-form provenance of RNG references and random values over MIR',
}
CLAIMS['C17'] = {
    'text': 'Every Ok(id) of generate_user_id is dominated by add_user of the same id; usk_keygen / refresh take ids only from '
            'generate_user_id / refresh_id; refresh_id fails on the unknown edge before any mutation, returns the caller\'s or a fresh '
            'id and removes only the old one; exact writers of TracingSecretKey.users; user-key and public-key tracing points are the '
            '.1 projection of the same tracers list and all set_traps multiply them by the scalar. The algebraic relation is declined.',
    'note': TB + 'sum(a_i t_i) = s and distinctness of ids are arithmetic over runtime scalars, not decided.',
    'technique': 'MIR dominance + identity-form provenance + who-may-write + sibling agreement of projections',
}
CLAIMS['C19'] = {
    'text': 'The schedule quantifier is discharged by a state audit (single Mutex field, no statics, no other interior mutability in '
            'any ADT field, all API methods on &self) plus a lock analysis over the resolved call graph: at each of the 11+ acquisition '
            'sites of Covercrypt.rng no call in the guard\'s live range (up to its Drop) acquires the lock again, directly, through a '
            'crate callee, a generic dispatch or a closure; no indirect call runs under the lock; only Covercrypt::rng returns a guard.',
    'note': TB + 'Assumes std::sync::Mutex is not re-entrant; poisoning behaviour is not decided.',
    'technique': 'lock-graph / guard live-range analysis over MIR + type-level state audit',
}

NOT_APPLICABLE = {}

NOTES = ('Static analysis only: every check compiles the current working tree of /repo under a rustc_private driver, exports '
         'resolved MIR, and evaluates repository-specific rules over it; nothing is executed or handed to a solver. Each '
         'property is claimed clause-wise (structural necessary conditions); the declined clauses are listed in DESIGN.md '
         'section 7 and in each evidence file under coverage.not_decided.')
