"""C17 — every issued user key is registered and carries the master tracing points."""
import re

from ..engine import prop, rule
from ..facts import (op_local, op_place, is_place, backward_slice, copy_chain_sources, IDENTITY_CALLS, switch_on,
                     bool_edges, field_path)
from .. import lib
from .c02 import root_descr, field_writers

prop('C17',
     explanation=(
         'registered (E-DOM): every Ok(id) of generate_user_id is dominated by add_user of a clone of the same id; '
         'usk_keygen takes its id only from generate_user_id and refresh only from refresh_id; refresh_id returns Err on '
         'the not-known edge before anything else, hands back the caller\'s id or a freshly generated one, and removes only '
         'the old id; TracingSecretKey.users is written only by add_user, del_user, new_with_level and read. same-tracers '
         '(sibling agreement): the tracing points embedded in a user key (usk_keygen: ps) and in the public key (tpk) are '
         'the .1 projection of the same tracers list, and the three set_traps multiply those points by the given scalar.'),
     not_decided='the algebraic identity sum(a_i * t_i) = s and distinctness of ids (arithmetic over runtime scalars)',
     assumptions=['HashSet::insert / remove / contains are consistent'])

TSK = 'core::TracingSecretKey'


@rule('C17', 'registered', configs=('default', 'p256'))
def registered(ctx):
    F = ctx.F
    gu = F.fn('core::TracingSecretKey::generate_user_id')
    oks = []
    for b in sorted(gu.live_blocks()):
        for st in gu.stmts(b):
            rv = st['rv']
            if rv['k'] == 'agg' and rv.get('adt') == 'std::result::Result' and rv['variant'] == 'Ok' and st['lhs']['l'] == 0:
                oks.append((b, st))
    adds = gu.calls(r'TracingSecretKey::add_user$')
    ctx.floor(len(oks), 1, 'Ok(id) returns of generate_user_id')
    for (b, st) in oks:
        idl, _d = lib.resolve_copy(gu, op_local(st['rv']['ops'][0]))
        ok = False
        for a in adds:
            # add_user(self, clone(&id)) with the same id local, dominating the return
            roots = copy_chain_sources(gu, a.args[1], through_calls=(r'^std::clone::Clone::clone$',) + IDENTITY_CALLS)
            la = set(backward_slice(gu, [a.args[1]], follow_mutarg=False).locals)
            if idl in la and gu.block_dominates(a.b, b):
                ok = True
        ctx.check(ok, gu.key, 'Ok(id) <= add_user(id)', 'generate_user_id can return an identifier (line %d) that was not registered '
                  'with add_user: the issued key would be unknown to the master key' % st['ln'], 'dominated by add_user(id.clone())',
                  gu.where(st['ln']))
    # usk_keygen: id only from generate_user_id
    kb = F.fn('core::primitives::usk_keygen')
    for b in sorted(kb.live_blocks()):
        for st in kb.stmts(b):
            rv = st['rv']
            if rv['k'] == 'agg' and rv.get('adt') == 'core::UserSecretKey':
                op = rv['ops'][rv['fields'].index('id')]
                roots = copy_chain_sources(kb, op, through_calls=(r'^std::ops::Try::branch$',) + IDENTITY_CALLS)
                ok = bool(roots) and all(r[0] == 'call' and r[1].is_(r'TracingSecretKey::generate_user_id$') for r in roots)
                ctx.check(ok, kb.key, 'usk.id <- generate_user_id', 'usk_keygen gives the key an identifier that does not come '
                          '(only) from generate_user_id', 'id <- msk.tsk.generate_user_id(rng)?', kb.where(st['ln']))
    # refresh: id only from refresh_id
    rb = F.fn('core::primitives::refresh')
    ws = [w for w in field_writers(F, 'core::UserSecretKey', 'id') if (w[0].root or w[0].key) == rb.key]
    ctx.check(bool(ws), rb.key, 'writes usk.id', 'refresh no longer stores the refreshed identifier', '', rb.where())
    for (body, ln, kind, op) in ws:
        if op is None:
            ctx.bad(rb.key, 'usk.id <- refresh_id', 'usk.id is mutated in place (%s, line %d)' % (kind, ln), body.where(ln))
            continue
        roots = copy_chain_sources(body, op, through_calls=(r'^std::ops::Try::branch$',) + IDENTITY_CALLS)
        ok = bool(roots) and all(r[0] == 'call' and r[1].is_(r'TracingSecretKey::refresh_id$') for r in roots)
        ctx.check(ok, rb.key, 'usk.id <- refresh_id', 'refresh stores an identifier (line %d) that does not come from refresh_id' % ln,
                  'id <- msk.tsk.refresh_id(rng, id)?', body.where(ln))
    # refresh_id
    ri = F.fn('core::TracingSecretKey::refresh_id')
    ks = ri.calls(r'TracingSecretKey::is_known$')
    ctx.check(len(ks) == 1, ri.key, 'calls is_known', 'refresh_id no longer checks that the identifier is known', '', ri.where())
    idp = [pi for pi in range(1, ri.argc + 1) if re.match(r"^(&('\w+ )?)?core::UserId$", ri.local_ty(pi))]
    if len(ks) == 1:
        k = ks[0]
        okarg = bool(idp) and any(r[0] == 'param' and r[1] == idp[0] for r in root_descr(ri, k.args[1]))
        ctx.check(okarg, ri.key, 'is_known(id)', 'is_known is not applied to the identifier being refreshed', 'is_known(&id)', k.where())
        sws = switch_on(ri, k.dest['l'])
        te = None
        for (sb, neg) in sws:
            te, fe = bool_edges(ri, sb, neg)
        oks = []
        for b in sorted(ri.live_blocks()):
            for st in ri.stmts(b):
                rv = st['rv']
                if rv['k'] == 'agg' and rv.get('adt') == 'std::result::Result' and rv['variant'] == 'Ok' and st['lhs']['l'] == 0:
                    oks.append((b, st))
        muts = ri.calls(r'TracingSecretKey::(add_user|del_user|generate_user_id)$')
        for (b, st) in oks:
            ctx.check(te is not None and ri.edge_dominates(te, b), ri.key, 'Ok <= is_known',
                      'refresh_id can succeed (line %d) for an identifier the master key does not know' % st['ln'],
                      'dominated by the known edge', ri.where(st['ln']))
            src = copy_chain_sources(ri, st['rv']['ops'][0], through_calls=(r'^std::ops::Try::branch$',) + IDENTITY_CALLS)
            ok = bool(src) and all((r[0] == 'param' and idp and r[1] == idp[0]) or
                                   (r[0] == 'call' and r[1].is_(r'TracingSecretKey::generate_user_id$')) for r in src)
            ctx.check(ok, ri.key, 'returns own id or a generated one', 'refresh_id returns an identifier (line %d) that is neither the '
                      'caller\'s nor freshly generated' % st['ln'], 'id | generate_user_id(rng)?', ri.where(st['ln']))
        # the caller's own identifier is handed back only when its level EQUALS the master key's (an identifier of any other
        # length, shorter or longer, does not satisfy the tracing relation with the current tracers)
        lvl_eq = []
        for cmp_ in lib.comparisons(ri):
            sa = backward_slice(ri, [cmp_['a']], follow_mutarg=False)
            sb_ = backward_slice(ri, [cmp_['b']], follow_mutarg=False)
            if sa.has_call(r'tracing_level$') and sb_.has_call(r'tracing_level$'):
                if cmp_['op'] == 'Eq':
                    lvl_eq.append(cmp_['te'])
                elif cmp_['op'] == 'Ne':
                    lvl_eq.append(cmp_['fe'])
        for (b, st) in oks:
            src = copy_chain_sources(ri, st['rv']['ops'][0], through_calls=(r'^std::ops::Try::branch$',) + IDENTITY_CALLS)
            if src and all(r[0] == 'param' for r in src):
                ctx.check(bool(lvl_eq) and ri.edges_dominate(lvl_eq, b), ri.key, 'own id returned <= levels equal',
                          'refresh_id hands the caller\'s identifier back (line %d) without its tracing level being EQUAL to the master '
                          'key\'s (an ordering test lets identifiers of the other length through): the refreshed key does not satisfy the '
                          'tracing relation' % st['ln'], 'under id.tracing_level() == self.tracing_level()', ri.where(st['ln']))
        for m in muts:
            ctx.check(te is not None and ri.edge_dominates(te, m.b), ri.key, '%s <= is_known' % m.name,
                      'refresh_id mutates the known-users set (%s, line %d) before / without checking that the identifier is known'
                      % (m.name, m.ln), 'after the check', m.where())
        for d in ri.calls(r'TracingSecretKey::del_user$'):
            ok = bool(idp) and any(r[0] == 'param' and r[1] == idp[0] for r in root_descr(ri, d.args[1]))
            ctx.check(ok, ri.key, 'del_user(old id)', 'refresh_id removes an identifier other than the one being replaced', 'del_user(&id)', d.where())
    # is_known really tests membership in users
    ik = F.fn('core::TracingSecretKey::is_known')
    cs = ik.calls(r'(HashSet|BTreeSet)::<[^>]*>::contains')
    ret = backward_slice(ik, [0], follow_mutarg=False)
    ctx.check(len(cs) == 1 and any(x is cs[0] for x in ret.calls) and not [c for c in ik.calls() if c.is_(r'::not$')], ik.key,
              'is_known = users.contains', 'is_known no longer returns users.contains(id)', 'users.contains(id)', ik.where())
    # writers of TracingSecretKey.users
    allowed = {'core::TracingSecretKey::add_user', 'core::TracingSecretKey::del_user', 'core::TracingSecretKey::new_with_level',
               'core::serialization::<impl cosmian_crypto_core::bytes_ser_de::Serializable for core::TracingSecretKey>::read'}
    n = 0
    for (body, ln, kind, op) in field_writers(F, TSK, 'users'):
        root = body.root or body.key
        n += 1
        ctx.check(root in allowed, root, 'writes TracingSecretKey.users', '%s writes the set of known users (%s, line %d); only '
                  'add_user, del_user, new_with_level and read may' % (body.key, kind, ln), '', body.where(ln))
    ctx.floor(n, 4, 'writers of TracingSecretKey.users')
    au = F.fn('core::TracingSecretKey::add_user')
    ctx.check(len(au.calls(r'(HashSet|BTreeSet)::<[^>]*>::insert$')) == 1, au.key, 'add_user inserts', 'add_user no longer inserts into users', '', au.where())


def tracer_projection(F, key, out_desc):
    """The projection of `tracers` elements used by the closure(s) of function `key`."""
    projs = set()
    fam = F.family(key)
    src_ok = False
    for fb in fam:
        if fb.kind != 'Closure':
            for c in fb.calls(r'LinkedList::<[^>]*>::iter$'):
                rs = [r for r in root_descr(fb, c.args[0]) if r[0] == 'param']
                if any(r[2] and r[2][-1] == 'tracers' for r in rs):
                    src_ok = True
            continue
        for b in sorted(fb.live_blocks()):
            for st in fb.stmts(b):
                rv = st['rv']
                pl = None
                if rv['k'] in ('ref',):
                    pl = rv['pl']
                elif rv['k'] == 'use' and is_place(rv['a']):
                    pl = op_place(rv['a'])
                if pl is not None and pl['l'] == 2:
                    fp = [x for x in field_path(pl) if not x.startswith('@')]
                    if fp:
                        projs.add(fp[0])
    return src_ok, projs


@rule('C17', 'same-tracers', configs=('default', 'p256'))
def same_tracers(ctx):
    F = ctx.F
    # public key side
    ok, pr = tracer_projection(F, 'core::TracingSecretKey::tpk', 'tpk')
    ctx.check(ok and pr == {'1'}, 'core::TracingSecretKey::tpk', 'tpk = tracers.map(.1)',
              'the tracing public key is not built from the public half (.1) of every master tracer (source ok=%s, projection %s)' % (ok, pr),
              'tracers.iter().map(|(_, P)| P)', F.fn('core::TracingSecretKey::tpk').where())
    # user key side: the `ps` field of the key built by usk_keygen
    kb = F.fn('core::primitives::usk_keygen')
    found = False
    for b in sorted(kb.live_blocks()):
        for st in kb.stmts(b):
            rv = st['rv']
            if rv['k'] == 'agg' and rv.get('adt') == 'core::UserSecretKey':
                found = True
                op = rv['ops'][rv['fields'].index('ps')]
                sl = backward_slice(kb, [op], follow_mutarg=False)
                its = [c for c in sl.calls if c.is_(r'LinkedList::<[^>]*>::iter$')]
                src = any(any(r[0] == 'param' and r[2][-2:] == ('tsk', 'tracers') for r in root_descr(kb, c.args[0])) for c in its)
                projs = set()
                for agg in sl.aggs:
                    ck = agg.get('closure')
                    if ck and ck in F.bodies:
                        cb = F.bodies[ck]
                        for bb in sorted(cb.live_blocks()):
                            for s2 in cb.stmts(bb):
                                r2 = s2['rv']
                                pl = r2['pl'] if r2['k'] == 'ref' else (op_place(r2['a']) if r2['k'] == 'use' and is_place(r2['a']) else None)
                                if pl is not None and pl['l'] == 2:
                                    fp = [x for x in field_path(pl) if not x.startswith('@')]
                                    if fp:
                                        projs.add(fp[0])
                if not src and not projs:
                    # the same list filled by a loop: `for (_, P) in &msk.tsk.tracers { ps.push(P.clone()) }`
                    from ..trans import chain_source, CHAIN_FLAGS
                    root, _d = lib.resolve_copy(kb, op_local(op))
                    pushes = [c for c in kb.calls(r'^std::vec::Vec::<[^>]*>::push$') if c.args and
                              any(lib.resolve_copy(kb, s_[1])[0] == root if s_[0] == 'local' else False
                                  for s_ in [('local', op_local(c.args[0]))]) or
                              (c.args and is_place(c.args[0]) and any(d.kind == 'assign' and d.rv['k'] == 'ref' and d.rv['pl']['l'] == root
                                                                       for d in kb.defs().get(op_local(c.args[0]), [])))]
                    for c in pushes:
                        for s_ in copy_chain_sources(kb, c.args[1], through_calls=(r'^std::clone::Clone::clone$',) + tuple(IDENTITY_CALLS)):
                            if s_[0] == 'call' and s_[1].is_(r'^std::iter::Iterator::next$') and s_[1].args:
                                fp_ = [x for x in s_[2] if not str(x).startswith('@') and x != '*']
                                # the element is `(.0 of Some)`: drop the leading payload index
                                if fp_[:1] == ['0']:
                                    fp_ = fp_[1:]
                                if fp_:
                                    projs.add(str(fp_[0]))
                                cs = chain_source(F, kb, s_[1].args[0])
                                if cs is not None and not CHAIN_FLAGS[0]:
                                    rr = [('param', cs[0], tuple(cs[1]))] if kb.is_param(cs[0]) else root_descr(kb, {'cp': {'l': cs[0], 'p': []}})
                                    src = src or any(r[0] == 'param' and tuple(str(x) for x in r[2] if x != '*')[-2:] == ('tsk', 'tracers') for r in rr)
                            else:
                                projs.add('?')
                ctx.check(src and projs == {'1'} and not sl.has_call(r'^std::iter::Iterator::(take|skip|filter|rev|step_by)$'), kb.key,
                          'usk.ps = msk.tsk.tracers.map(.1)', 'the tracing points embedded in a user key are not the public half (.1) of '
                          'every master tracer (source ok=%s, projection %s)' % (src, projs), 'same list, same projection as tpk()', kb.where(st['ln']))
    ctx.check(found, kb.key, 'builds UserSecretKey', 'usk_keygen no longer builds the key', '', kb.where())
    # the three set_traps multiply those points by the scalar
    for key, proj in (('core::TracingSecretKey::set_traps', {'1'}), ('core::UserSecretKey::set_traps', set()),
                      ('core::MasterPublicKey::set_traps', set())):
        n, pr, scalar = scaling(F, key)
        okm = n == 1 and pr == proj and scalar == 2
        ctx.check(okm, key, 'traps = points * r', '%s does not multiply every tracing point by the given scalar (multiplications: %d, '
                  'element projection %s, scalar = parameter %s)' % (key, n, sorted(pr), scalar),
                  'element%s * r' % ('.1' if proj else ''), F.fn(key).where())


def scaling(F, key, depth=0):
    """(number of multiplications, projections applied to the iterated element, index of the parameter of `key` the elements
    are multiplied by) for a function mapping `element * scalar` over an iterator, directly or through one private helper."""
    from .c07 import root_local
    rb = F.fn(key)
    fam = F.family(key)
    muls = [c for fb in fam for c in fb.calls(r'^std::ops::Mul::mul$')]
    projs = set()
    for fb in fam:
        if fb.kind != 'Closure':
            continue
        for b in sorted(fb.live_blocks()):
            for st in fb.stmts(b):
                rv = st['rv']
                pl = rv['pl'] if rv['k'] == 'ref' else (op_place(rv['a']) if rv['k'] == 'use' and is_place(rv['a']) else None)
                if pl is not None and pl['l'] == 2:
                    fp = [x for x in field_path(pl) if not x.startswith('@')]
                    if fp:
                        projs.add(fp[0])
    if len(muls) == 1:
        m = muls[0]
        fb = m.body
        scalar = None
        elem = False
        for a in m.args:
            rs = copy_chain_sources(fb, a, through_calls=IDENTITY_CALLS)
            if fb.kind == 'Closure' and any(r[0] == 'param' and r[1] == 2 for r in rs):
                elem = True
                continue
            b2, l = root_local(F, fb, a)
            if b2 is rb and l is not None:
                for r in copy_chain_sources(rb, {'cp': {'l': l, 'p': []}}, through_calls=IDENTITY_CALLS):
                    if r[0] == 'param':
                        scalar = r[1]
        return (1 if elem else 0), projs, scalar
    if not muls and depth < 2:
        subs = []
        for c in rb.calls():
            g = lib.local_callee(F, c)
            if g is None or g.kind == 'Closure' or g.key == key:
                continue
            n, pr, sc = scaling(F, g.key, depth + 1)
            if n:
                subs.append((c, n, pr, sc))
        if len(subs) == 1:
            c, n, pr, sc = subs[0]
            scalar = None
            if sc is not None and 0 < sc <= len(c.args):
                for r in copy_chain_sources(rb, c.args[sc - 1], through_calls=IDENTITY_CALLS):
                    if r[0] == 'param':
                        scalar = r[1]
            return n, projs | pr, scalar
        return sum(s[1] for s in subs), projs, None
    return len(muls), projs, None


@rule('C17', 'witness-private', tier='thorough')
def witness_private(ctx):
    from .. import witness
    witness.check(ctx, ['MasterKeyRepresentationIsPrivate'])


@rule('C17', 'wire', configs=('default', 'p256'))
def wire(ctx):
    """'This survives refreshes and serialization': users, tracers and ids round-trip."""
    from . import c13
    c13.restricted(ctx, r'(core::TracingSecretKey|core::TracingPublicKey|core::UserId|core::UserSecretKey|core::MasterSecretKey)$',
                   [c13.agree, c13.fields, c13.order, c13.read_loop_keeps_every_element, c13.read_keeps_every_element, c13.announced_count_of_what_follows])


REORDERING = (r'^std::iter::Iterator::(rev|skip|step_by|skip_while|take_while|filter|filter_map|cycle|chain|flat_map|peekable|scan|nth|last)$',
              r'::sort(_unstable)?(_by|_by_key)?$', r'::reverse$')


@rule('C17', 'pairing', configs=('default', 'p256'))
def pairing(ctx):
    """The tracing relation pairs marker i with tracer i. Structurally: generate_user_id sums over
    zip(tracers.iter(), markers.iter()) with no reordering adaptor on either side, draws one marker per tracer but the
    last (take(len - 1)), solves the last marker against tracers.back() and appends it with push_back; decapsulation pairs
    id.iter() with c.iter() in the same order; every set_traps maps the tracing points in their own order."""
    F = ctx.F
    gu = F.fn('core::TracingSecretKey::generate_user_id')
    zs = gu.calls(r'^std::iter::Iterator::zip$')
    ctx.check(len(zs) == 1, gu.key, 'one zip(tracers, markers)', 'generate_user_id pairs tracers and markers through %d zips' % len(zs), '', gu.where())
    for z in zs:
        for side, a in (('tracers', z.args[0]), ('markers', z.args[1])):
            sl = backward_slice(gu, [a], follow_mutarg=False)
            bad = sl.has_call(*REORDERING)
            its = [c for c in sl.calls if c.is_(r'LinkedList::<[^>]*>::iter$')]
            ctx.check(not bad and bool(its), gu.key, 'zip side %s in list order' % side,
                      'the %s side of the marker/tracer pairing goes through %s (line %d): marker i is no longer combined with tracer i, '
                      'issued identifiers do not satisfy the tracing relation' % (side, bad[0].name if bad else '?', bad[0].ln if bad else 0),
                      'plain LinkedList::iter()', z.where())
        r0 = [r for r in root_descr(gu, z.args[0]) if r[0] == 'param']
    bk = gu.calls(r'LinkedList::<[^>]*>::back$')
    # (the markers may live in a LinkedList or in a Vec: Vec::push appends like push_back, Vec::insert(0, ..) prepends)
    pb = gu.calls(r'LinkedList::<[^>]*>::push_back$', r'^std::vec::Vec::<[^>]*>::push$')
    pf = gu.calls(r'LinkedList::<[^>]*>::push_front$', r'^std::vec::Vec::<[^>]*>::insert$')
    ctx.check(len(bk) == 1 and len(pb) == 1 and not pf, gu.key, 'last marker <-> last tracer',
              'the solved marker is not the one of the last tracer (back() / push_back)', 'tracers.back(), markers.push_back', gu.where())
    tk = gu.calls(r'^std::iter::Iterator::take$')
    okt = len(tk) == 1
    if okt:
        sl = backward_slice(gu, [tk[0].args[1]], follow_mutarg=False)
        okt = bool(sl.has_call(r'LinkedList::<[^>]*>::len$')) and any(d.kind == 'assign' and d.rv['k'] == 'bin' and d.rv['op'] in ('SubWithOverflow', 'Sub')
                                                                      and d.rv['b'].get('c', {}).get('v') == 1 for d in sl.rvs)
    ctx.check(okt, gu.key, 'free markers = take(len - 1)', 'the number of freely drawn markers is not tracers.len() - 1', 'take(tracers.len() - 1)', gu.where())
    # decapsulation side
    db = F.fn('core::primitives::decaps')
    zs = db.calls(r'^std::iter::Iterator::zip$')
    ctx.check(len(zs) == 1, db.key, 'A = sum(marker_i * trap_i)', 'decaps pairs markers and traps through %d zips' % len(zs), '', db.where())
    for z in zs:
        for a in z.args[:2]:
            sl = backward_slice(db, [a], follow_mutarg=False)
            bad = sl.has_call(*REORDERING)
            ctx.check(not bad, db.key, 'zip(id, c) in order', 'decaps pairs markers and traps through %s' % (bad[0].name if bad else ''),
                      'plain iteration', z.where())
    for key in ('core::TracingSecretKey::set_traps', 'core::UserSecretKey::set_traps', 'core::MasterPublicKey::set_traps',
                'core::TracingSecretKey::tpk'):
        fb = F.fn(key)
        bad = fb.calls(*REORDERING)
        ctx.check(not bad, key, 'points in list order', '%s reorders the tracing points (%s)' % (key, bad[0].name if bad else ''), 'iter().map(..)', fb.where())


@rule('C17', 'verified-before-id-refresh', configs=('default', 'p256'))
def verified_before_id_refresh(ctx):
    """Identifiers recorded in the master key stay those of issued keys: refresh touches the registry (refresh_id) only after
    the key passed the integrity check (C08.verify-first)."""
    from . import c08
    c08.verify_first(ctx)


@rule('C17', 'tracing-level-floor')
def tracing_level_floor(ctx):
    """Identifiers are distinct only while at least one marker is drawn at random, i.e. while the tracing level stays >= 1:
    a tracer is dropped (pop_front) only on the edge where the level is strictly above MIN_TRACING_LEVEL."""
    F = ctx.F
    key = 'core::TracingSecretKey::_decrease_tracing'
    if key not in F.bodies:
        ctx.ok(key, 'no decrease function', 'the tracing level cannot be decreased', '')
        return
    body = F.bodies[key]
    REMOVERS = r'(LinkedList|VecDeque|Vec)::<[^>]*>::(pop_front|pop_back|pop|drain|truncate|clear|remove|split_off|retain|swap_remove)$'
    pops = body.calls(r'(LinkedList|VecDeque|Vec)::<[^>]*>::(pop_front|pop_back|pop)$')
    # nobody else shrinks the list of tracers: the guarded function is the only way down
    from .c02 import root_descr
    for fb in F.fns() + [b for b in F.bodies.values() if b.kind == 'Closure']:
        if (fb.root or fb.key) == key or '::tests::' in (fb.root or fb.key):
            continue
        for c in fb.calls(REMOVERS):
            if c.args and any(r[0] == 'param' and 'tracers' in [str(x) for x in r[2]] for r in root_descr(fb, c.args[0])):
                ctx.bad(fb.root or fb.key, 'tracers removed outside the guarded function',
                        '%s removes tracers (%s, line %d) without going through _decrease_tracing and its MIN_TRACING_LEVEL guard: the '
                        'level can reach 0, where no marker is random and every issued identifier is the same'
                        % (fb.key, c.name.split('::')[-1], c.ln), fb.where(c.ln))
    minv = (F.consts.get('core::MIN_TRACING_LEVEL') or {}).get('v', 1)
    for c in pops:
        ok = False
        for cmp_ in lib.comparisons(body):
            sa = backward_slice(body, [cmp_['a']], follow_mutarg=False)
            sb = backward_slice(body, [cmp_['b']], follow_mutarg=False)
            lvl_a = bool(sa.has_call(r'tracing_level$'))
            lvl_b = bool(sb.has_call(r'tracing_level$'))
            ca, cb = lib.classify_scalar(body, cmp_['a']), lib.classify_scalar(body, cmp_['b'])
            op = cmp_['op']
            if lvl_b and not lvl_a:
                op = {'Lt': 'Gt', 'Gt': 'Lt', 'Le': 'Ge', 'Ge': 'Le'}.get(op, op)
                cc = ca
            elif lvl_a:
                cc = cb
            else:
                continue
            if cc != ('const', minv):
                continue
            # level OP MIN
            safe = {'Eq': cmp_['fe'], 'Ne': cmp_['te'], 'Gt': cmp_['te'], 'Le': cmp_['fe']}.get(op)
            if safe is not None and body.edge_dominates(safe, c.b):
                ok = True
        ctx.check(ok, key, 'pop only above MIN_TRACING_LEVEL',
                  'a tracer can be dropped (line %d) when the tracing level is already at its minimum: at level 0 no marker is random '
                  'and every issued identifier is the same' % c.ln, 'guarded by level != / > MIN_TRACING_LEVEL', c.where())


@rule('C17', 'setup-level-floor')
def setup_level_floor(ctx):
    """... and a master key is never created below that level: in setup the tracing key is built only on the edge where the
    requested level is at least MIN_TRACING_LEVEL."""
    from .c02 import root_descr
    F = ctx.F
    sb = F.fn('core::primitives::setup')
    minv = (F.consts.get('core::MIN_TRACING_LEVEL') or {}).get('v', 1)
    lvl = [pi for pi in range(1, sb.argc + 1) if sb.local_ty(pi) == 'usize']
    mk = sb.calls(r'TracingSecretKey::new_with_level$')
    ctx.check(len(mk) == 1 and len(lvl) == 1, sb.key, 'builds the tracing key once from the level', 'setup does not build the tracing key '
              'through new_with_level(level, rng) exactly once', '', sb.where())
    if len(mk) != 1 or len(lvl) != 1:
        return
    safe_edges = []
    for cmp_ in lib.comparisons(sb):
        ra = [r for r in root_descr(sb, cmp_['a']) if r[0] == 'param' and r[1] == lvl[0]] if is_place(cmp_['a']) else []
        rb = [r for r in root_descr(sb, cmp_['b']) if r[0] == 'param' and r[1] == lvl[0]] if is_place(cmp_['b']) else []
        ca, cb = lib.classify_scalar(sb, cmp_['a']), lib.classify_scalar(sb, cmp_['b'])
        op = cmp_['op']
        if rb and not ra:
            op = {'Lt': 'Gt', 'Gt': 'Lt', 'Le': 'Ge', 'Ge': 'Le'}.get(op, op)
            cc = ca
        elif ra:
            cc = cb
        else:
            continue
        if cc[0] != 'const' or cc[1] is None:
            continue
        k = cc[1]
        # level OP k  ==> edge on which level >= minv
        edge = None
        if op == 'Lt' and k >= minv:
            edge = cmp_['fe']
        elif op == 'Ge' and k >= minv:
            edge = cmp_['te']
        elif op == 'Le' and k >= minv - 1:
            edge = cmp_['fe']
        elif op == 'Gt' and k >= minv - 1:
            edge = cmp_['te']
        elif op == 'Eq' and k < minv and minv - k == 1 and k == 0:
            edge = cmp_['fe']
        elif op == 'Ne' and k == 0 and minv == 1:
            edge = cmp_['te']
        if edge is not None:
            safe_edges.append(edge)
    ctx.check(bool(safe_edges) and sb.edges_dominate(safe_edges, mk[0].b), sb.key, 'new_with_level <= level >= MIN_TRACING_LEVEL',
              'setup builds a tracing key without having checked that the requested level is at least MIN_TRACING_LEVEL (%s): at level 0 '
              'no marker is random and every issued identifier is the same' % minv, 'guarded by the level check', mk[0].where())


@rule('C17', 'refreshed-id-stored', configs=('default', 'p256'))
def refreshed_id_stored(ctx):
    """'Every issued user key is registered': refresh_id may replace the registered identifier (it deletes the old one when the
    tracing level changed), so a refresh that succeeds must hand the key the identifier refresh_id returned — every Ok(()) of
    refresh is dominated by `usk.id = <result of refresh_id>`; there is no success path that skips the store."""
    from .c02 import root_descr
    F = ctx.F
    rb = F.fn('core::primitives::refresh')
    rid = rb.calls(r'TracingSecretKey::refresh_id$')
    ctx.check(len(rid) == 1, rb.key, 'one refresh_id', 'refresh calls refresh_id %d times' % len(rid), '', rb.where())
    if len(rid) != 1:
        return
    stores = []
    for b in sorted(rb.live_blocks()):
        for st in rb.stmts(b):
            lp = st['lhs']['p']
            if lp and isinstance(lp[-1], dict) and lp[-1].get('n') == 'id' and lp[-1].get('o') == 'core::UserSecretKey':
                srcs = copy_chain_sources(rb, st['rv'].get('a'), through_calls=(r'^std::ops::Try::branch$',) + tuple(IDENTITY_CALLS)) \
                    if st['rv']['k'] == 'use' else []
                if srcs and all(s[0] == 'call' and s[1] is rid[0] for s in srcs):
                    stores.append(b)
    oks = [b for b in sorted(rb.live_blocks()) for st in rb.stmts(b)
           if st['rv']['k'] == 'agg' and st['rv'].get('adt') == 'std::result::Result' and st['rv']['variant'] == 'Ok' and st['lhs']['l'] == 0]
    ctx.check(bool(stores) and bool(oks) and all(any(rb.block_dominates(s, b) for s in stores) for b in oks), rb.key,
              'Ok(()) <= usk.id = refresh_id(..)',
              'refresh can succeed without storing the identifier returned by refresh_id in the key: when the tracing level changed '
              'the old identifier has just been deleted, and the key is left with an identifier the master key no longer knows',
              'every Ok(()) dominated by the store', rb.where())


@rule('C17', 'identifiers-drawn-from-the-instance-rng', configs=('default', 'p256'))
def identifiers_drawn_from_the_instance_rng(ctx):
    """'distinct from all others': the markers of an identifier are drawn from the instance RNG, whose state advances with every
    call (C16.rng-threading: the API passes the locked generator itself, never a copy of it)."""
    from . import c16
    c16.rng_threading(ctx)


@rule('C17', 'refresh-atomic-on-the-tracing-state', configs=('default', 'p256'))
def refresh_atomic_on_the_tracing_state(ctx):
    """'Every issued user key is registered': refresh_id swaps the registered identifier before the key receives the new one;
    nothing between the two may fail, or the master key forgets the identifier the key still carries (C10.atomic restricted to
    refresh, key generation and refresh_id)."""
    from . import c10
    c10.atomic(ctx, only=r'primitives::refresh$|TracingSecretKey::refresh_id$|primitives::usk_keygen$', floor=3)
