"""C18 — re-encapsulation with the master key preserves the audience."""
import re

from ..engine import prop, rule
from ..facts import op_local, op_place, is_place, backward_slice, switch_on, bool_edges, copy_chain_sources, IDENTITY_CALLS
from .. import lib, flags
from .c02 import check_fo_guards, root_descr

prop('C18',
     explanation=(
         'guard (E-DOM): in full_decaps the insertion into the recovered right set and the assignment of the '
         'recovered key are dominated by the equal edges of the tag comparison and of the Fujisaki-Okamoto trap '
         'comparison (same operand provenance as C02.guard), and every use of a master secret (session_key) is '
         'dominated by the true edge of an activation test. wiring (E-PROV, identity form): recaps passes to '
         'primitives::encaps exactly the right set returned by full_decaps for the given encapsulation and the '
         'caller\'s public key, propagates full_decaps\'s error and returns encaps\'s fresh secret, not the '
         'recovered one. flag-position (belief consistency): the writers maintain the activation flag at the front '
         'of a chain only (update_msk via get_latest_mut, rekey copies it to the new front, mpk reads front()); '
         'every reader must therefore read it at the front, never at a revision reached by iterating the chain.'),
     not_decided='that the recovered set equals the original audience restricted to publishable rights; who can '
                 'open the result (history-dependent, cryptographic)',
     assumptions=['SHA3 collision resistance', 'LinkedList::front is the newest secret (C04.orientation)'])

WIRE_READERS = {
    'core::serialization::<impl cosmian_crypto_core::bytes_ser_de::Serializable for core::MasterSecretKey>::write':
        'serialisation writes every revision with its flag',
    'core::serialization::<impl cosmian_crypto_core::bytes_ser_de::Serializable for core::MasterSecretKey>::length':
        'length of the serialisation',
}


def activation_tests(F, body):
    """Switches on a bool that derives from an activation flag: [(block, true_edge)]."""
    out = []
    fam_keys = set(b.key for b in F.family(body.root or body.key))
    for b in sorted(body.live_blocks()):
        t = body.term(b)
        if t['k'] != 'switch' or not is_place(t['d']):
            continue
        pl = op_place(t['d'])
        l = pl['l']
        if flags.is_flag_place(body, pl):
            te, fe = bool_edges(body, b)
            out.append((b, te))
            continue
        if body.local_ty(l) != 'bool':
            continue
        sl = backward_slice(body, [l], follow_mutarg=False)
        hit = any(flags.is_flag_place(body, p) for p in sl.places)
        if not hit:
            for c in sl.calls:
                for (_i, cb, _rv) in lib.closure_args(F, c):
                    for bb in sorted(cb.live_blocks()):
                        for st in cb.stmts(bb):
                            rv = st['rv']
                            pls = []
                            if rv['k'] == 'use' and is_place(rv['a']):
                                pls.append(op_place(rv['a']))
                            elif rv['k'] == 'ref':
                                pls.append(rv['pl'])
                            if any(flags.is_flag_place(cb, p) for p in pls):
                                hit = True
        if hit:
            # the bool must be the flag and nothing but the flag: a test of `flag && <something else>` skips activated rights
            # when the something else is false — it is not an activation test, and its false edge is not a permitted bypass
            pure = not any(d.kind == 'assign' and d.rv['k'] == 'bin' for d in sl.rvs)
            for c in sl.calls:
                cal = lib.local_callee(F, c)
                if cal is not None and cal.kind != 'Closure' and not c.is_(r'::(front|get_latest|get|iter)$'):
                    pure = False
                for (_i, cb, _rv) in lib.closure_args(F, c):
                    if any(cb.term(bb)['k'] == 'switch' for bb in cb.live_blocks()) or \
                            any(lib.local_callee(F, cc) is not None for cc in cb.calls()):
                        pure = False
            if not pure:
                continue
            te, fe = bool_edges(body, b)
            if te is not None:
                out.append((b, te))
    return out


@rule('C18', 'guard', configs=('default', 'p256'))
def guard(ctx):
    F = ctx.F
    fam = F.family('core::primitives::full_decaps')
    n = 0
    guarded_closures = set()
    for body in fam:
        if body.calls(r'primitives::J_hash$'):
            k = check_fo_guards(ctx, F, body, body.key)
            n += k
            if k and body.kind == 'Closure':
                guarded_closures.add(body.key)
    # an opening closure that RETURNS the recovered key (`Ok(Some(ss))` under both guards) instead of recording it: what its
    # callers record (the key, the right) must sit on the Some edge of its result
    from .c02 import success_targets
    for body in fam:
        if body.calls(r'primitives::J_hash$'):
            continue
        calls = [c for c in body.calls(*lib.FN_CALLS) if any(cb.key in guarded_closures for cb in lib.called_closures(F, body, c))]
        if not calls:
            continue
        some_edges = []
        for b in sorted(body.live_blocks()):
            t_ = body.term(b)
            if t_['k'] != 'switch' or not is_place(t_['d']):
                continue
            _, d = lib.resolve_copy(body, op_local(t_['d']))
            if d is None or d.kind != 'assign' or d.rv['k'] != 'discr':
                continue
            srcs = copy_chain_sources(body, {'cp': d.rv['pl']}, through_calls=(r'^std::ops::Try::branch$',) + tuple(IDENTITY_CALLS))
            if srcs and all(s[0] == 'call' and s[1] in calls for s in srcs) and 'Option<' in body.place_ty(d.rv['pl']):
                for v, tgt in t_['cases']:
                    if v == 1:
                        some_edges.append((b, tgt))
        for (tb, what, payload, ln) in success_targets(F, body):
            n += 1
            ctx.check(bool(some_edges) and body.edges_dominate(some_edges, tb), body.key, '%s<=opened' % what,
                      '%s at line %d is not on the Some edge of the opening closure\'s result: a right is recorded although the '
                      'tag / trap guards did not pass' % (what, ln), 'dominated by `if let Some(ss) = try_decaps(..)?`', body.where(ln))
    ctx.floor(n, 2, 'guarded recoveries in full_decaps (key assignment, right insertion)')
    # master secrets are used only under an activation test
    m = 0
    for body in fam:
        sks = body.calls(r'traits::Nike::session_key$')
        if not sks:
            continue
        tests = activation_tests(F, body)
        for c in sks:
            m += 1
            # every path passes the true edge of some activation test (an or-pattern with a guard tests once per alternative)
            tes = [te for (_b, te) in tests if te is not None]
            ok = bool(tes) and body.edges_dominate(tes, c.b)
            ctx.check(ok, body.key, 'session_key<=activated',
                      'a master secret is tried (session_key, line %d) without a dominating test of its right\'s '
                      'activation flag: deactivated rights would be recovered and re-encapsulated' % c.ln,
                      'dominated by the true edge of an activation test', c.where())
    ctx.floor(m, 2, 'uses of master secrets in full_decaps')


@rule('C18', 'wiring')
def wiring(ctx):
    F = ctx.F
    body = F.fn('api::Covercrypt::recaps')
    fd = body.calls(r'primitives::full_decaps$')
    en = body.calls(r'primitives::encaps$')
    ctx.check(len(fd) == 1 and len(en) == 1, body.key, 'calls',
              'recaps must call full_decaps and primitives::encaps exactly once (found %d / %d)' % (len(fd), len(en)),
              'one full_decaps, one encaps', body.where())
    if len(fd) != 1 or len(en) != 1:
        return
    fd, en = fd[0], en[0]
    names = {'msk': lib.param_by_type(body, r'^&core::MasterSecretKey$'), 'mpk': lib.param_by_type(body, r'^&core::MasterPublicKey$'),
             'encapsulation': lib.param_by_type(body, r'^&core::XEnc$')}
    # full_decaps(msk, encapsulation)
    r0 = [r for r in root_descr(body, fd.args[0]) if r[0] == 'param']
    r1 = [r for r in root_descr(body, fd.args[1]) if r[0] == 'param']
    ctx.check(any(r[1] == names.get('msk') and not r[2] for r in r0), body.key, 'full_decaps(msk)',
              'full_decaps is not given the caller\'s master key', 'msk <- msk', fd.where())
    ctx.check(any(r[1] == names.get('encapsulation') and not r[2] for r in r1), body.key, 'full_decaps(encapsulation)',
              'full_decaps is not given the caller\'s encapsulation', 'encapsulation <- encapsulation', fd.where())
    # its error is propagated
    prop_ok = any(e.src_call is fd for e in lib.error_exits(body))
    ctx.check(prop_ok, body.key, 'full_decaps-error-propagated',
              'the error of full_decaps (no right could be recovered) is not propagated', '`?` on full_decaps', fd.where())
    # recaps adds no failure of its own: it fails only when full_decaps or encaps fail
    own = [e for e in lib.error_exits(body) if e.kind == 'explicit']
    ctx.check(not own, body.key, 'no failure of its own',
              'recaps raises an error of its own (%s, line %s): an encapsulation the master key can partially open is no longer '
              're-encapsulated for the rights that were recovered' % (own[0].desc if own else '', own[0].ln if own else ''),
              'errors only propagated from full_decaps / encaps', body.where())
    # encaps(rng, mpk, &rights): rights is exactly component .1 of full_decaps's Ok payload
    rr = copy_chain_sources(body, en.args[2], through_calls=(r'^std::ops::Try::branch$',) + IDENTITY_CALLS)
    okr = bool(rr) and all(r[0] == 'call' and r[1] is fd and '1' in [str(x) for x in r[2][-1:]] for r in rr)
    ctx.check(okr, body.key, 'encaps(rights)',
              'the right set handed to encaps is not exactly the set recovered by full_decaps (%s)' % (
                  [(r[0], getattr(r[1], 'full', r[1]) if r[0] == 'call' else r[1:]) for r in rr][:3],),
              'rights <- full_decaps(msk, encapsulation)?.1', en.where())
    rm = [r for r in root_descr(body, en.args[1]) if r[0] == 'param']
    ctx.check(any(r[1] == names.get('mpk') and not r[2] for r in rm), body.key, 'encaps(mpk)',
              'encaps is not given the caller\'s public key', 'mpk <- mpk', en.where())
    # returns encaps's result (fresh secret), not the recovered one
    ret = copy_chain_sources(body, 0, through_calls=IDENTITY_CALLS)
    ret = [r for r in ret if not (r[0] == 'call' and r[1].is_(r'^std::ops::FromResidual::from_residual$'))
           and not (r[0] == 'agg' and isinstance(r[1], dict) and r[1].get('adt') == 'std::result::Result' and r[1].get('variant') == 'Err')]
    okret = bool(ret) and all(r[0] == 'call' and r[1] is en for r in ret)
    ctx.check(okret, body.key, 'returns-fresh',
              'recaps does not return the result of encaps unchanged (the recovered secret may leak into it)',
              'return <- encaps(..)', body.where())


@rule('C18', 'flag-position', configs=('default', 'p256'))
def flag_position(ctx):
    F = ctx.F
    reads = flags.flag_reads(F)
    n = 0
    seen = set()
    for (body, b, ln, base) in reads:
        root = body.root or body.key
        if root in WIRE_READERS:
            if (root, 'wire') not in seen:
                seen.add((root, 'wire'))
                ctx.ok(root, 'flag read (wire)', WIRE_READERS[root], body.where(ln))
            n += 1
            continue
        kind, c = flags.classify_pair_origin(F, body, base)
        n += 1
        k = (root, kind)
        if kind == 'head':
            if k not in seen:
                seen.add(k)
                ctx.ok(root, 'flag read at the chain head', 'pair obtained from %s' % c.name, body.where(ln))
        elif kind == 'chain-iteration':
            if k not in seen:
                seen.add(k)
                ctx.bad(root, 'flag-read-at-iterated-revision',
                        'the activation flag is read (line %d) from a revision reached by iterating the chain (%s, '
                        'line %d); writers maintain the flag at the front of the chain only, so this reader '
                        'disagrees with mpk() about which rights are publishable' % (ln, c.name, c.ln),
                        body.where(ln))
        else:
            if k not in seen:
                seen.add(k)
                ctx.bad(root, 'flag-read-of-unknown-position',
                        'the activation flag is read (line %d) from a pair that is not known to be the head of its '
                        'chain (no front/get_latest in its provenance)' % ln, body.where(ln))
    ctx.floor(n, 3, 'reads of the activation flag')


@rule('C18', 'every-secret-tried', configs=('default', 'p256'))
def every_secret_tried(ctx):
    """In full_decaps every activated master secret is tried against every encapsulation: in the classic branch
    both variants of a secret reach session_key; in the hybridized branch only classic secrets may be skipped."""
    from .c13 import loop_depths
    from .c01 import own_loop
    F = ctx.F
    body = F.fn('core::primitives::full_decaps')
    depth, dom = loop_depths(body)
    nexts = [c for c in body.calls(r'^std::iter::Iterator::next$') if depth.get(c.b, 0) > 0]
    inner = [c for c in nexts if 'linked_list::Iter' in (c.self_ty or '') and flags.PAIR_TY in (c.self_ty or '')]
    ctx.floor(len(inner), 2, 'innermost loops over a chain of master secrets')
    rsk = F.adts['core::RightSecretKey']
    names = [v['name'] for v in rsk['variants']]
    tests = activation_tests(F, body)
    for c in inner:
        L = own_loop(body, c.b, dom)
        t = body.term(c.target)
        some_t = [bb for v, bb in t['cases'] if v == 1] if t['k'] == 'switch' else []
        if not some_t:
            ctx.bad(body.key, 'loop shape', 'cannot decode the loop at line %d' % c.ln, c.where())
            continue
        sks = [x.b for x in body.calls(r'traits::Nike::session_key$') if x.b in L]
        hybrid = any(x.b in L for x in body.calls(r'traits::Kem::dec$'))
        avoid = []
        # permitted bypasses: the not-activated edge ...
        for (tb, te) in tests:
            tt = body.term(tb)
            for v, bb in tt['cases'] + [[None, tt['else']]]:
                if te is not None and (tb, bb) != te:
                    avoid.append((tb, bb))
        # ... and, in the hybridized branch only, the non-Hybridized arm of the variant test
        if hybrid:
            for b in sorted(L):
                tt = body.term(b)
                if tt['k'] == 'switch' and is_place(tt['d']):
                    _, d = lib.resolve_copy(body, op_local(tt['d']))
                    if d is not None and d.kind == 'assign' and d.rv['k'] == 'discr' and 'RightSecretKey' in body.local_ty(d.rv['pl']['l']):
                        hi = names.index('Hybridized')
                        for v, bb in tt['cases'] + [[None, tt['else']]]:
                            if v != hi:
                                avoid.append((b, bb))
        r = body.reach(some_t[0], avoid_blocks=sks, avoid_edges=avoid)
        ctx.check(bool(sks) and c.b not in r, body.key, 'every activated secret reaches session_key (%s branch)' % ('hybridized' if hybrid else 'classic'),
                  'in the %s branch of full_decaps an activated secret can be skipped without being tried (loop at line %d): rights '
                  'opened only through such a secret are dropped from the re-encapsulation' % ('hybridized' if hybrid else 'classic', c.ln),
                  'session_key on every path except the permitted bypasses', c.where())


@rule('C18', 'recovery-unconditional', configs=('default', 'p256'))
def recovery_unconditional(ctx):
    """Every right whose secret opens the encapsulation is recovered: no condition that decides whether the insertion into the
    right set runs depends on the recovery state itself (the set of rights found so far, the session key found so far) —
    state that changes once a first right has been found."""
    from .c02 import eq_guards
    from ..facts import switch_on, field_path, proj_names
    F = ctx.F
    n = 0
    for body in F.family('core::primitives::full_decaps'):
        ins = [c for c in body.calls(r'^std::collections::HashSet::<[^>]*>::insert$') if 'Right' in c.full]
        if not ins:
            continue

        def key_of(pl):
            cur = body.through_ref(pl)
            for _ in range(6):
                # a copy of a captured reference (`_r = copy (*_1).enc_ss; (*_r) = ..`) is that captured place
                if not (cur['p'] and cur['p'][0] == '*'):
                    break
                d = lib.single_def(body, cur['l'])
                if d is None or d.kind != 'assign' or d.rv['k'] != 'use' or not is_place(d.rv['a']):
                    break
                q = op_place(d.rv['a'])
                cur = body.through_ref({'l': q['l'], 'p': list(q['p']) + list(cur['p'])})
            return (cur['l'], tuple(field_path(cur))[:1])
        # recovery state: the right set, and every place a Some(..) / the insertion result is stored into on a success path
        state = set()
        guard_edges = [te for (_c, te, _fe) in eq_guards(body)]
        for c in ins:
            if is_place(c.args[0]):
                state.add(key_of({'l': op_local(c.args[0]), 'p': ['*']}))
        success = set()
        for e in guard_edges:
            success |= body.dominated_by_edge(e)
        after_ins = set()
        for c in ins:
            after_ins |= body.dominated_by_block(c.b)
        for b in sorted(success | after_ins):
            for st in body.stmts(b):
                rv, lhs = st['rv'], st['lhs']
                if '*' in proj_names(lhs) and 'std::option::Option<' in (st.get('ty') or body.local_ty(op_local(rv['a'])) if rv['k'] == 'use' and is_place(rv['a']) else
                                                                          ('std::option::Option<' if rv['k'] == 'agg' and rv.get('adt') == 'std::option::Option' else '')):
                    state.add(key_of(lhs))
        # locals that hold the state in the root function (written where an insertion happens): `enc_ss = Some(ss)` next to it
        for b in sorted(after_ins):
            for st in body.stmts(b):
                rv, lhs = st['rv'], st['lhs']
                if rv['k'] == 'agg' and rv.get('adt') == 'std::option::Option' and rv['variant'] == 'Some' \
                        and not lhs['p'] and body.var_name(lhs['l']):
                    state.add((lhs['l'], ()))
        for c in ins:
            n += 1
            other = []
            for b in sorted(body.live_blocks()):
                t = body.term(b)
                if t['k'] != 'switch' or len(body.succs[b]) < 2:
                    continue
                # only a switch the insertion is reachable from can condition it: cheap pre-filter before the dominance query
                if c.b not in body.reach(b) or not any(body.edge_dominates((b, s), c.b) for s in body.succs[b]):
                    continue
                sl = backward_slice(body, [t['d']], follow_mutarg=True)
                dep = [pl for pl in sl.places if key_of(pl) in state or (key_of(pl)[0], ()) in state]
                dep += [c2 for c2 in sl.calls if c2.args and is_place(c2.args[0]) and
                        (key_of({'l': op_local(c2.args[0]), 'p': ['*']}) in state)]
                if dep:
                    other.append((b, t['ln']))
            ctx.check(not other, 'core::primitives::full_decaps', 'rights.insert conditioned only by tag / trap checks',
                      'the recovery of a right (line %d) depends on a condition (switch at line %s) computed from the recovery state '
                      '(rights / session key found so far): rights opened after the first one may be dropped from the '
                      're-encapsulation' % (c.ln, [ln for _b, ln in other][:2]),
                      'no dominating condition reads the recovery state', c.where())
    ctx.floor(n, 1, 'right insertions in full_decaps')


@rule('C18', 'transcript', configs=('default', 'p256'))
def transcript(ctx):
    """The master key opens what encaps produced: full_decaps recomputes T and U over the same inputs, in the same order, as the
    encapsulating side (C01.transcript) — otherwise no right is ever recovered and every recaps fails."""
    from . import c01
    c01.transcript(ctx)


@rule('C18', 'no-use-after-zeroize', configs=('default', 'p256'))
def no_use_after_zeroize(ctx):
    """Every (encapsulation, activated secret) pair is tried with the real session key: full_decaps does not reuse a key it has
    already zeroized (C01.no-use-after-zeroize), otherwise only the first share can be opened and recaps silently shrinks the
    audience to one right."""
    from . import c01
    n = c01.check_use_after_zeroize(ctx, ['core::primitives::full_decaps'], 'so only the first right is recovered')
    # (no floor on the number of zeroize calls: a key that is never wiped cannot be used after having been wiped)
    ctx.ok('core::primitives::full_decaps', 'no use after zeroize', '%d zeroize call(s) examined' % n, '')


@rule('C18', 'fresh-randomness', configs=('default', 'p256'))
def fresh_randomness(ctx):
    """'... under a new secret': the re-encapsulation draws from the shared generator itself, whose state advances — not from a
    copy of it, which would make two recaps calls return the same secret and encapsulation (C16.rng-threading)."""
    from . import c16
    c16.rng_threading(ctx)


@rule('C18', 'chain-orientation')
def chain_orientation(ctx):
    """'re-encapsulates for exactly the rights still activated': the activation status update_msk writes (get_latest_mut) is the
    one full_decaps and mpk() read (front of the chain): both ends of the accessor pair agree (C04.orientation)."""
    from . import c04
    c04.orientation(ctx)


@rule('C18', 'selection', configs=('default', 'p256'))
def selection(ctx):
    """'re-encapsulation ... succeeds': recaps hands the recovered rights to encaps, whose classic / hybridized decision must be
    "all sub-keys hybridized" whatever the order of the set (C11.selection) — a last-key-wins flag makes re-encapsulation of a
    mixed audience fail depending on hash-set order."""
    from . import c11
    c11.selection(ctx)


@rule('C18', 'instance-is-stateless')
def instance_is_stateless(ctx):
    """'re-encapsulation with the master key preserves the audience' as the master key stands NOW: the rights of an encapsulation are recovered by opening it with the given master key, never remembered from an earlier call. Structurally: the scheme instance holds its random generator and nothing else, and no type of the crate has an
    interior-mutable field — no cache, no memo, no static, no thread-local (C19.state-audit)."""
    from . import c19
    c19.state_audit(ctx)
