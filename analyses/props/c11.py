"""C11 — post-quantum protection is applied exactly where the policy asks for it."""
import re

from ..engine import prop, rule
from ..facts import (op_local, op_place, is_place, backward_slice, copy_chain_sources, IDENTITY_CALLS, switch_on,
                     bool_edges)
from .. import lib, fin
from .c02 import root_descr

prop('C11',
     explanation=(
         'Flag discipline with an inductive argument: a right\'s newest secret is hybridized iff the disjunction of its '
         'attributes\' hints is Hybridized; public and user material copy the flavour of the secret they derive from; '
         'an encapsulation is hybridized iff all selected public keys are. truth-tables (E-FIN, exact evaluation over '
         'the finite domains): EncryptionHint::bitor = OR with Hybridized as true; From<EncryptionHint> for bool and '
         'EncryptionHint::new are mutual inverses; RightSecretKey / RightPublicKey::is_hybridized are true exactly on '
         'the Hybridized variant. variant-preservation: cpk maps Hybridized->Hybridized and Classic->Classic; '
         'drop_hybridization always yields Classic; RightSecretKey::random builds Hybridized exactly on the true edge '
         'of its flag with ML-KEM material from MlKem::keygen. fold: combine seeds with Classic and ORs the hint of '
         'every component. creation (E-PROV): the hybridize argument of random is `Hybridized == hint` of the same '
         'right in update_msk and is_hybridized() of the right\'s newest secret in rekey; existing secrets are '
         'downgraded only under `Classic == hint`. selection (E-DOM): select_subkeys starts from true and clears its '
         'flag only under !is_hybridized() of a selected key; encaps calls h_encaps on the true edge and c_encaps on '
         'the false edge; the HEncs / CEncs variants are built only there and in read.'),
     not_decided='sizes of serialized objects as an observable; that ML-KEM is post-quantum',
     assumptions=['derived PartialEq on field-less enums compares discriminants'])

HINT = 'abe_policy::attribute::EncryptionHint'


def tt(ctx, F, body, domains, expect, label):
    try:
        table = fin.truth_table(F, body, domains)
    except fin.NotEvaluable as e:
        ctx.bad(body.key, 'truth-table', 'cannot evaluate %s over its finite domain: %s' % (label, e), body.where())
        return
    for ins, r in sorted(table.items(), key=str):
        want = expect(*ins)
        got = r.v
        ctx.check(got == want, body.key, '%s(%s)' % (label, ','.join(str(i.v) for i in ins)),
                  '%s(%s) = %s, expected %s' % (label, ', '.join(str(i.v) for i in ins), got, want), '= %s' % want, body.where())


@rule('C11', 'truth-tables')
def truth_tables(ctx):
    F = ctx.F
    dom = fin.enum_domain(F, HINT)
    n = 0
    bo = F.fn('<abe_policy::attribute::EncryptionHint as std::ops::BitOr>::bitor')
    tt(ctx, F, bo, [dom, dom], lambda a, b: 'Hybridized' if 'Hybridized' in (a.v, b.v) else 'Classic', 'EncryptionHint::bitor')
    n += 1
    nw = F.fn('abe_policy::attribute::EncryptionHint::new')
    tt(ctx, F, nw, [fin.BOOLS], lambda a: 'Hybridized' if a.v else 'Classic', 'EncryptionHint::new')
    n += 1
    fb = [b for b in F.fns() if b.name == 'from' and b.impl_trait == 'std::convert::From' and b.impl_self == 'bool'
          and 'EncryptionHint' in b.locals[1]['ty']]
    for body in fb:
        tt(ctx, F, body, [dom], lambda a: a.v == 'Hybridized', 'bool::from')
        n += 1
    # is_hybridized on the two key enums: true exactly on the Hybridized arm (the enums carry fields, so
    # the decision is read off the switch on the discriminant)
    for k in ('core::RightSecretKey::is_hybridized', 'core::RightPublicKey::is_hybridized'):
        body = F.fn(k)
        n += 1
        res = variant_to_const(F, body)
        ctx.check(res == {'Hybridized': 1, 'Classic': 0}, k, 'is_hybridized <=> Hybridized',
                  '%s maps variants to %s; it must be true exactly on the Hybridized variant' % (k, res), str(res), body.where())
    ctx.floor(n, 5, 'finite-domain functions')


def variant_to_const(F, body):
    """For `match self { A{..} => c1, B{..} => c2 }`: {variant: constant returned}."""
    out = {}
    adt = None
    for b in sorted(body.live_blocks()):
        t = body.term(b)
        if t['k'] != 'switch' or not is_place(t['d']):
            continue
        _, d = lib.resolve_copy(body, op_local(t['d']))
        if d is None or d.kind != 'assign' or d.rv['k'] != 'discr':
            continue
        ty = body.local_ty(d.rv['pl']['l'])
        m = re.search(r'(core::Right(Secret|Public)Key)', ty)
        if not m:
            continue
        adt = F.adts.get(m.group(1))
        names = [v['name'] for v in adt['variants']]
        for v, tgt in t['cases'] + [[None, t['else']]]:
            # constant assigned to _0 on that arm
            blocks = [x for x in body.reach(tgt) if body.edge_dominates((b, tgt), x)]
            for x in blocks:
                for st in body.stmts(x):
                    if st['lhs']['l'] == 0 and st['rv']['k'] == 'use' and 'c' in st['rv']['a']:
                        vn = names[v] if v is not None and v < len(names) else None
                        if vn is None:
                            rest = [nm for i, nm in enumerate(names) if i not in [c[0] for c in t['cases']]]
                            vn = rest[0] if len(rest) == 1 else None
                        if vn:
                            out[vn] = st['rv']['a']['c'].get('v')
    return out


def arm_constructions(F, body, adt_in, adt_out):
    """{input variant: set(output variants constructed on that arm)} for `match self`."""
    out = {}
    for b in sorted(body.live_blocks()):
        t = body.term(b)
        if t['k'] != 'switch' or not is_place(t['d']):
            continue
        _, d = lib.resolve_copy(body, op_local(t['d']))
        if d is None or d.kind != 'assign' or d.rv['k'] != 'discr' or adt_in not in body.local_ty(d.rv['pl']['l']):
            continue
        names = [v['name'] for v in F.adts[adt_in]['variants']]
        for v, tgt in t['cases'] + [[None, t['else']]]:
            # everything the arm can run, join blocks shared with other arms included (or-patterns bind per arm, build after)
            blocks = [x for x in body.reach(tgt)]
            vn = names[v] if v is not None and v < len(names) else None
            if vn is None:
                rest = [nm for i, nm in enumerate(names) if i not in [c[0] for c in t['cases']]]
                vn = rest[0] if len(rest) == 1 else None
            if vn is None:
                continue
            for x in blocks:
                for st in body.stmts(x):
                    rv = st['rv']
                    if rv['k'] == 'agg' and rv.get('adt') == adt_out:
                        out.setdefault(vn, set()).add(rv['variant'])
                tt_ = body.term(x)
                if tt_['k'] == 'call':
                    c = body.call_at(x)
                    if c.is_(r'^std::clone::Clone::clone$') and adt_out in (c.self_ty or '') and c.dest['l'] == 0:
                        out.setdefault(vn, set()).add(vn)   # clone of self on this arm
        break
    return out


@rule('C11', 'variant-preservation', configs=('default', 'p256'))
def variant_preservation(ctx):
    F = ctx.F
    cpk = F.fn('core::RightSecretKey::cpk')
    m = arm_constructions(F, cpk, 'core::RightSecretKey', 'core::RightPublicKey')
    ctx.check(m == {'Hybridized': {'Hybridized'}, 'Classic': {'Classic'}}, cpk.key, 'cpk preserves the flavour',
              'cpk maps secret-key variants to public-key variants %s; a hybridized secret must publish a hybridized key '
              '(with its ML-KEM encapsulation key) and a classic one a classic key' % m, str(m), cpk.where())
    # the published ek is the one of the secret's dk
    eks = cpk.calls(r'::ek$')
    ctx.check(len(eks) == 1, cpk.key, 'ek <- dk.ek()', 'cpk does not take the encapsulation key from the secret\'s decapsulation key',
              'dk.ek()', cpk.where())
    dh = F.fn('core::RightSecretKey::drop_hybridization')
    m = arm_constructions(F, dh, 'core::RightSecretKey', 'core::RightSecretKey')
    ctx.check(m.get('Hybridized') == {'Classic'} and m.get('Classic', {'Classic'}) == {'Classic'}, dh.key, 'drop_hybridization -> Classic',
              'drop_hybridization maps %s; it must always yield the Classic variant' % m, str(m), dh.where())
    rnd = F.fn('core::RightSecretKey::random')
    # Hybridized built exactly on the true edge of the `hybridize` parameter
    hp = None
    for pi in range(1, rnd.argc + 1):
        if rnd.local_ty(pi) == 'bool':
            hp = pi
    sws = switch_on(rnd, hp) if hp is not None else []
    ok = False
    if len(sws) == 1:
        te, fe = bool_edges(rnd, sws[0][0], sws[0][1])
        hy = cl = None
        for b in sorted(rnd.live_blocks()):
            for st in rnd.stmts(b):
                rv = st['rv']
                if rv['k'] == 'agg' and rv.get('adt') == 'core::RightSecretKey':
                    if rv['variant'] == 'Hybridized':
                        hy = b
                    else:
                        cl = b
        ok = hy is not None and cl is not None and rnd.edge_dominates(te, hy) and rnd.edge_dominates(fe, cl)
    ctx.check(ok, rnd.key, 'random(hybridize) variant', 'RightSecretKey::random does not build Hybridized exactly when '
              '`hybridize` is true and Classic otherwise', 'Hybridized on the true edge, Classic on the false edge', rnd.where())
    kg = rnd.calls(r'traits::Kem::keygen$')
    ctx.check(len(kg) == 1, rnd.key, 'dk <- MlKem::keygen', 'the ML-KEM key of a hybridized secret does not come from MlKem::keygen',
              'MlKem::keygen(rng)', rnd.where())
    # Encapsulations variants are built only by the matching encaps function and read
    allowed = {'HEncs': {'core::primitives::h_encaps'}, 'CEncs': {'core::primitives::c_encaps'}}
    for body in F.fns():
        for b in sorted(body.live_blocks()):
            for st in body.stmts(b):
                rv = st['rv']
                if rv['k'] == 'agg' and rv.get('adt') == 'core::Encapsulations':
                    root = body.root or body.key
                    if 'Serializable' in root and root.endswith('::read') or 'Clone' in root:
                        continue
                    ctx.check(root in allowed[rv['variant']], root, 'builds Encapsulations::%s' % rv['variant'],
                              '%s builds Encapsulations::%s (line %d); only %s may' % (root, rv['variant'], st['ln'],
                                                                                     sorted(allowed[rv['variant']])), '', body.where(st['ln']))


@rule('C11', 'fold')
def fold(ctx):
    F = ctx.F
    cb = F.fn('abe_policy::access_structure::combine')
    ors = [c for c in cb.calls(r'^std::ops::BitOr::bitor$') if 'EncryptionHint' in (c.self_ty or '')]
    gh = cb.calls(r'Attribute::get_encryption_hint$')
    gi = cb.calls(r'Attribute::get_id$')
    ok = bool(ors) and bool(gh) and len(gh) == len(gi)
    if ok:
        for g in gh:
            ok = ok and any(x is g for o in ors for x in backward_slice(cb, o.args, follow_mutarg=False).calls)
        # the hint and the id come from the same component
        for g, i in zip(gh, gi):
            ok = ok and bool(lib.roots_of(cb, g.args[0]) & lib.roots_of(cb, i.args[0]))
    ctx.check(ok, cb.key, 'hint-fold', 'combine does not OR the hint of every component whose id it appends',
              'is_hybridized | component.get_encryption_hint() for the component pushed', cb.where())
    # the seed of the fold is Classic
    seeds = []
    for b in sorted(cb.live_blocks()):
        for st in cb.stmts(b):
            rv = st['rv']
            if rv['k'] == 'agg' and rv.get('adt') == HINT:
                seeds.append(rv['variant'])
    ctx.check(seeds == ['Classic'], cb.key, 'fold seed = Classic',
              'the empty combination starts with %s; it must start Classic so that a right is hybridized iff one of its '
              'attributes is' % seeds, 'Classic', cb.where())


@rule('C11', 'creation', configs=('default', 'p256'))
def creation(ctx):
    F = ctx.F
    n = 0
    for fk, want in (('core::primitives::update_msk', 'hint-eq'), ('core::primitives::rekey', 'newest-secret')):
        fam = lib.family_ext(F, fk)
        for body in fam:
            for c in body.calls(r'RightSecretKey::random$'):
                n += 1
                arg = c.args[1]
                kind, detail = classify_hybridize(F, body, arg)
                ctx.check(kind == want, fk, 'random(hybridize <- %s)' % want,
                          'a new secret is created (line %d) with hybridize = %s (%s); %s' % (
                              c.ln, kind, detail, 'it must be `Hybridized == hint` of the right' if want == 'hint-eq'
                              else 'it must be is_hybridized() of the right\'s newest secret'), detail, c.where())
            for c in body.calls(r'RightSecretKey::drop_hybridization$'):
                n += 1
                ok = False
                for g in body.calls(r'^std::cmp::PartialEq::(eq|ne)$'):
                    if 'EncryptionHint' not in (g.self_ty or ''):
                        continue
                    ks = [lib.enum_const(F, body, a) for a in g.args]
                    for (sb, neg) in switch_on(body, g.dest['l']):
                        te, fe = bool_edges(body, sb, neg)
                        if g.name == 'ne':
                            te, fe = fe, te
                        if 'Classic' in ks and te and body.edge_dominates(te, c.b):
                            ok = True
                        if 'Hybridized' in ks and fe and body.edge_dominates(fe, c.b):
                            ok = True
                ctx.check(ok, fk, 'downgrade <= Classic == hint',
                          'an existing secret is downgraded (drop_hybridization, line %d) without the right\'s hint being Classic'
                          % c.ln, 'under Classic == hint', c.where())
    ctx.floor(n, 3, 'secret creations / downgrades')


def classify_hybridize(F, body, op):
    if 'c' in op:
        return 'const', op['c'].get('s')
    cur, d = lib.resolve_copy(body, op_local(op))
    if d is None or (d.kind == 'assign' and d.rv['k'] == 'use' and is_place(d.rv['a']) and op_place(d.rv['a'])['p']):
        # the value travelled in a tuple / Option (`get_latest(r).map(|(a, k)| (*a, k.is_hybridized()))`): follow the field
        srcs = copy_chain_sources(body, op, through_calls=(r'^std::ops::Try::branch$',) + tuple(IDENTITY_CALLS))
        calls = [s[1] for s in srcs if s[0] == 'call']
        if srcs and len(calls) == len(srcs) and all(c.is_(r'RightSecretKey::is_hybridized$') for c in calls):
            from .. import flags
            if all(any(x.is_(*flags.HEAD) for x in lib.deep_calls(F, c.body, [c.args[0]])) for c in calls):
                return 'newest-secret', 'is_hybridized() of get_latest(right)'
            return 'other-secret', 'is_hybridized() of a secret that is not the newest of the right'
    if d is None:
        return 'unknown', 'several definitions'
    if d.kind == 'assign' and d.rv['k'] == 'use' and 'c' in d.rv['a']:
        return 'const', d.rv['a']['c'].get('s')
    if d.kind == 'call':
        c = d.call
        if c.is_(r'^std::cmp::PartialEq::(eq|ne)$') and 'EncryptionHint' in (c.self_ty or ''):
            ks = [lib.enum_const(F, body, a) for a in c.args]
            if ks.count(None) == 1:
                k = [x for x in ks if x][0]
                good = (k == 'Hybridized' and c.name == 'eq') or (k == 'Classic' and c.name == 'ne')
                return ('hint-eq' if good else 'hint-inverted'), '%s %s hint' % (k, c.name)
        if c.is_(r'RightSecretKey::is_hybridized$'):
            calls = lib.deep_calls(F, body, [c.args[0]])
            from .. import flags
            if any(x.is_(*flags.HEAD) for x in calls):
                return 'newest-secret', 'is_hybridized() of get_latest(right)'
            return 'other-secret', 'is_hybridized() of a secret that is not the newest of the right'
        if c.is_(r'^std::convert::(Into::into|From::from)$') and 'EncryptionHint' in c.full:
            return 'hint-eq', 'bool::from(hint)'
    return 'unknown', 'unrecognised provenance'


@rule('C11', 'selection', configs=('default', 'p256'))
def selection(ctx):
    F = ctx.F
    sk = F.fn('core::MasterPublicKey::select_subkeys')
    fam = F.family(sk.key)
    # the flag is component .0 of the tuple returned in Ok(..)
    flag = []
    for b in sorted(sk.live_blocks()):
        for st in sk.stmts(b):
            rv = st['rv']
            if rv['k'] == 'agg' and rv.get('tuple') and len(rv['ops']) == 2 and sk.local_ty(st['lhs']['l']).startswith('(bool,') \
                    and is_place(rv['ops'][0]):
                cur, _d = lib.resolve_copy(sk, op_local(rv['ops'][0]))
                if cur not in flag:
                    flag.append(cur)
    ctx.check(len(flag) == 1, sk.key, 'flag local', 'select_subkeys does not return a single all-hybridized flag', '', sk.where())
    n = 0
    computed = False
    if len(flag) == 1:
        # `subkeys.iter().all(|k| k.is_hybridized())` over the very keys that are returned
        alls = [d for d in sk.defs().get(flag[0], []) if d.kind == 'call' and d.call.is_(r'^std::iter::Iterator::all$')]
        if alls and len(sk.defs().get(flag[0], [])) == 1:
            from ..trans import chain_source, CHAIN_FLAGS
            c = alls[0].call
            computed = True
            n += 1
            src = chain_source(F, sk, c.args[0]) if c.args else None
            fl = set(CHAIN_FLAGS[0])
            returned = set()
            for b in sorted(sk.live_blocks()):
                for st in sk.stmts(b):
                    rv = st['rv']
                    if rv['k'] == 'agg' and rv.get('tuple') and len(rv['ops']) == 2 and sk.local_ty(st['lhs']['l']).startswith('(bool,') \
                            and is_place(rv['ops'][1]):
                        returned.add(lib.resolve_copy(sk, op_local(rv['ops'][1]))[0])
            whole = src is not None and not fl and src[0] in returned and not src[1]
            pred = False
            for (_i, cb, _rv) in lib.closure_args(F, c):
                srcs = copy_chain_sources(cb, {'cp': {'l': 0, 'p': []}}, through_calls=tuple(IDENTITY_CALLS))
                pred = bool(srcs) and all(s[0] == 'call' and s[1].is_(r'RightPublicKey::is_hybridized$') and
                                          any(r[0] == 'param' and r[1] == 2 for r in
                                              copy_chain_sources(cb, s[1].args[0], through_calls=tuple(IDENTITY_CALLS))) for s in srcs)
            ctx.check(whole and pred, sk.key, 'flag = all selected keys are hybridized',
                      'the all-hybridized flag is computed by all(..) but not as "every returned key is_hybridized()" (%s): an '
                      'encapsulation must be hybridized iff every selected key is'
                      % ('the walk does not cover exactly the returned keys' if not whole else 'the predicate is not is_hybridized() of the element'),
                      'subkeys.iter().all(|k| k.is_hybridized())', c.where())
    if len(flag) == 1 and not computed:
        L = flag[0]
        direct = [d for d in sk.defs().get(L, []) if d.kind == 'assign' and d.via is None and not d.lhs['p']]
        consts = [d for d in direct if d.rv['k'] == 'use' and 'c' in d.rv['a']]
        inits = [d for d in consts if d.rv['a']['c'].get('v') == 1]
        ctx.check(len(inits) == 1 and all(sk.block_dominates(inits[0].b, d.b) for d in direct), sk.key, 'flag starts true',
                  'the all-hybridized flag is not initialised to true before anything else', 'true', sk.where())
        for d in direct:
            if d in inits:
                continue
            n += 1
            rv = d.rv
            ok = False
            why = 'assigned %s' % rv['k']
            if rv['k'] == 'use' and 'c' in rv['a'] and rv['a']['c'].get('v') == 0:
                # cleared: must be under !is_hybridized()
                for c in sk.calls(r'RightPublicKey::is_hybridized$'):
                    for (sb, neg) in switch_on(sk, c.dest['l']):
                        te, fe = bool_edges(sk, sb, neg)
                        if fe and sk.edge_dominates(fe, d.b):
                            ok = True
                why = 'cleared without a dominating !is_hybridized() test'
            elif rv['k'] == 'bin' and rv['op'] == 'BitAnd':
                # flag &= subkey.is_hybridized()
                sides = [rv['a'], rv['b']]
                has_self = any(is_place(o) and lib.resolve_copy(sk, op_local(o))[0] == L for o in sides)
                has_h = any(is_place(o) and backward_slice(sk, [o], follow_mutarg=False).has_call(r'RightPublicKey::is_hybridized$') for o in sides)
                ok = has_self and has_h
                why = 'and-ed with something other than is_hybridized() of the selected key'
            ctx.check(ok, sk.key, 'flag only cleared by a non-hybridized key',
                      'the all-hybridized flag is written at line %d in a way that is not "clear it when a selected key is not '
                      'hybridized" (%s): an encapsulation must be hybridized iff every selected key is' % (sk.stmts(d.b)[d.i]['ln'], why),
                      'cleared under !is_hybridized() / and-ed with is_hybridized()', sk.where(sk.stmts(d.b)[d.i]['ln']))
    # writes through a captured `&mut flag` in closures: only `false`, only under !is_hybridized()
    for cb in fam:
        if cb is sk:
            continue
        for b in sorted(cb.live_blocks()):
            for st in cb.stmts(b):
                lhs = st['lhs']
                if lhs['l'] == 1 or (lhs['p'] and lhs['p'][0] == '*' and cb.local_ty(lhs['l']) == '&mut bool'):
                    if cb.local_ty(lhs['l']) == '&mut bool' and (st['rv']['k'] != 'use' or 'c' not in st['rv']['a']):
                        n += 1
                        ctx.bad(sk.key, 'flag assigned a non-constant',
                                'the all-hybridized flag is overwritten at line %d with a computed value: it must only ever be '
                                'cleared (set to false) when a selected key is not hybridized, otherwise the last key visited decides '
                                'the flavour' % st['ln'], cb.where(st['ln']))
                        continue
                    if st['rv']['k'] != 'use' or 'c' not in st['rv']['a'] or st['rv']['a']['c'].get('ty') != 'bool':
                        continue
                    n += 1
                    v = st['rv']['a']['c'].get('v')
                    ok = (v == 0)
                    guard = False
                    for c in cb.calls(r'RightPublicKey::is_hybridized$'):
                        for (sb, neg) in switch_on(cb, c.dest['l']):
                            te, fe = bool_edges(cb, sb, neg)
                            if fe and cb.edge_dominates(fe, b):
                                guard = True
                    ctx.check(ok and guard, sk.key, 'flag cleared <= !subkey.is_hybridized()',
                              'the all-hybridized flag is set to %s at line %d %s: an encapsulation must be hybridized iff every '
                              'selected key is' % (bool(v), st['ln'], '' if guard else 'without a dominating !is_hybridized() test'),
                              'cleared only under !is_hybridized()', cb.where(st['ln']))
    ctx.floor(n, 1, 'writes of the all-hybridized flag')
    # the returned bool is that flag
    # encaps dispatch
    eb = F.fn('core::primitives::encaps')
    hs, cs = eb.calls(r'primitives::h_encaps$'), eb.calls(r'primitives::c_encaps$')
    ok = len(hs) == 1 and len(cs) == 1
    if ok:
        ok = False
        for b in sorted(eb.live_blocks()):
            t = eb.term(b)
            if t['k'] != 'switch' or not is_place(t['d']):
                continue
            sl = backward_slice(eb, [t['d']], follow_mutarg=False)
            if not sl.has_call(r'MasterPublicKey::select_subkeys$'):
                continue
            te, fe = bool_edges(eb, b)
            if te and eb.edge_dominates(te, hs[0].b) and eb.edge_dominates(fe, cs[0].b):
                # the flag is component .0 of select_subkeys's result
                ok = True
    ctx.check(ok, eb.key, 'hybrid flag -> h_encaps / c_encaps', 'encaps does not call h_encaps exactly when select_subkeys reports '
              'that all selected keys are hybridized (and c_encaps otherwise)', 'true edge -> h_encaps, false edge -> c_encaps', eb.where())
    # h_encaps rejects classic keys
    hb = F.fn('core::primitives::h_encaps')
    rej = False
    for cb in F.family(hb.key):
        for e in lib.error_exits(cb):
            if e.kind == 'explicit' and e.variant == 'Kem':
                rej = True
    ctx.check(rej, hb.key, 'classic key -> Err', 'h_encaps no longer rejects a classic public key', 'Err(Kem) on the Classic arm', hb.where())


@rule('C11', 'wire', configs=('default', 'p256'))
def wire(ctx):
    """'...through rekey, refresh and serialization': flavour tags and hints round-trip."""
    from . import c13
    c13.restricted(ctx, r'(core::RightSecretKey|core::RightPublicKey|core::Encapsulations|dimension::Attribute|core::XEnc)$',
                   [c13.agree, c13.fields, c13.enum_codec_inverse])


@rule('C11', 'refresh-preserves-flavour', configs=('default', 'p256'))
def refresh_preserves_flavour(ctx):
    """User keys hold ML-KEM material for exactly the hybridized rights *through refresh*: a user secret is kept only
    when it equals a master secret as a whole RightSecretKey (flavour and ML-KEM key included), so a hybridized user
    secret cannot stand for a downgraded (classic) master secret. Same rule as C05.subsequence, whose guards must be
    full-type comparisons. Right secrets are assembled only by random / drop_hybridization / read / Clone."""
    from . import c05, c16
    c05.subsequence(ctx)
    c16.secret_constructors(ctx)


@rule('C11', 'mlkem-bound-into-tag', configs=('default', 'p256'))
def mlkem_bound_into_tag(ctx):
    """'An encapsulation is hybridized (carries ML-KEM ciphertexts bound into the tag)': every ML-KEM ciphertext is absorbed into T
    on all sides and K2 enters H (C07.binding)."""
    c07 = __import__('analyses.props.c07', fromlist=['binding'])
    c07.binding(ctx)


@rule('C11', 'hint-only-for-new-attribute')
def hint_only_for_new_attribute(ctx):
    """An edit never changes the declared hint of the attributes it does not name: when Dimension::add_attribute rebuilds a
    hierarchy, the existing attributes are moved as they are — Attribute::new is called for the new attribute only (once per
    dimension kind, outside any loop / per-element closure); and disabling writes the status alone (C03.disable-only-status)."""
    from .c13 import loop_depths
    from . import c03
    F = ctx.F
    key = 'abe_policy::dimension::Dimension::add_attribute'
    rb = F.fn(key)
    n = 0
    for fb in lib.family_ext(F, key):
        news = fb.calls(r'dimension::Attribute::new$')
        if not news:
            continue
        depth, _dom = loop_depths(fb)
        for c in news:
            n += 1
            per_elem = fb.kind == 'Closure' and any(cc.is_(r'^std::iter::Iterator::') for (_pb, cc, _i) in lib.closure_consumers(F, fb))
            ctx.check(not per_elem and depth.get(c.b, 0) == 0, key, 'Attribute::new for the new attribute only',
                      'add_attribute builds attributes with Attribute::new once per existing element (line %d): the attributes that are '
                      'merely re-ranked get the hint (and a fresh status) of the attribute being added' % c.ln,
                      'outside loops and per-element closures', c.where())
    ctx.floor(n, 2, 'Attribute::new calls in Dimension::add_attribute')
    c03.disable_only_status(ctx)


@rule('C11', 'chain-orientation')
def chain_orientation(ctx):
    """'a right that becomes classic is downgraded': update_msk re-aligns the NEWEST secret of an existing right
    (get_latest_mut), the one key generation, refresh and mpk() hand out (get_latest) — both ends of the accessor pair look at
    the front of the chain (C04.orientation)."""
    from . import c04
    c04.orientation(ctx)
