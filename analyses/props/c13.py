"""C13 — serialized objects are faithful (E-WIRE: write / read / length agreement)."""
import os
import re

from ..engine import prop, rule
from ..facts import (op_local, op_place, is_place, backward_slice, copy_chain_sources, IDENTITY_CALLS,
                     switch_on, bool_edges, proj_names, field_path)
from .. import lib, flags

prop('C13',
     explanation=(
         'E-WIRE over every `impl Serializable` of the crate. agree: `write` and `read` are abstracted into ordered '
         'event lists (Leb with its constant / Item(T) / Array(N) / Vec, each with its loop depth; closures and '
         'crate-local helpers inlined at their call site); per enum-variant branch the two lists must be equal, '
         'including the tag constants written and tested. fields: every field of the type flows into some written '
         'datum and into `length`; every field of the value built by `read` derives from deserializer input (a flag '
         'that defaults on read is reported). count: every byte count returned by a Serializer call flows into the '
         'returned total and the accumulator is never overwritten after it started counting.'),
     not_decided='that a deserialized object behaves identically in every later operation (follows from field '
                 'coverage only if PartialEq equality is preserved; needs execution); vectors of the pinned release',
     assumptions=['cosmian_crypto_core Serializer/Deserializer primitives are mutually inverse',
                  'documented exceptions: AccessStructure.version (checked then reconstructed), trailing optional '
                  'signing_key / signature (presence = remaining length), Option<Vec<u8>> metadata (absent = empty)'])

SER = 'bytes_ser_de::Serializer'
DE = 'bytes_ser_de::Deserializer'
SERIALIZABLE = 'cosmian_crypto_core::bytes_ser_de::Serializable'
LAZY = r'^std::iter::Iterator::(map|filter|filter_map|flat_map|inspect|take_while|map_while|scan|skip_while)$'


def norm_ty(t):
    t = re.sub(r"&('[a-z_0-9]+ )?(mut )?", '', t or '')
    return t


def loop_depths(body):
    """Natural-loop nesting depth per block (back edge = edge to a dominator)."""
    live = body.live_blocks()
    depth = {b: 0 for b in live}
    # dominators by simple iterative sets (bodies are small)
    order = sorted(live)
    dom = {b: set(order) for b in order}
    dom[0] = {0}
    changed = True
    while changed:
        changed = False
        for b in order:
            if b == 0:
                continue
            ps = [p for p in body.preds[b] if p in live]
            if not ps:
                continue
            new = set.intersection(*[dom[p] for p in ps]) | {b}
            if new != dom[b]:
                dom[b] = new
                changed = True
    loops = []
    for u in order:
        for h in body.succs[u]:
            if h in dom.get(u, ()):
                # natural loop of back edge u -> h
                L = {h, u}
                st = [u]
                while st:
                    x = st.pop()
                    if x == h:
                        continue
                    for p in body.preds[x]:
                        if p in live and p not in L:
                            L.add(p)
                            st.append(p)
                loops.append(L)
    for L in loops:
        for b in L:
            depth[b] += 1
    return depth, dom


def rpo(body):
    seen = set()
    order = []

    def dfs(b):
        stack = [(b, iter(body.succs[b]))]
        seen.add(b)
        while stack:
            x, it = stack[-1]
            adv = False
            for s in it:
                if s not in seen:
                    seen.add(s)
                    stack.append((s, iter(body.succs[s])))
                    adv = True
                    break
            if not adv:
                order.append(x)
                stack.pop()
    dfs(0)
    order.reverse()
    return order


def error_blocks(body):
    out = set()
    for e in lib.error_exits(body):
        if e.kind in ('try', 'explicit'):
            out.add(e.b)
    return out


class Ev:
    __slots__ = ('kind', 'ty', 'depth', 'const', 'call', 'body', 'ctx', 'data', 'rb')

    def sig(self):
        return (self.kind, self.ty, self.depth, self.const)

    def __repr__(self):
        c = '=%s' % self.const if self.const is not None else ''
        return '%s%s%s%s' % (self.kind, '(%s)' % self.ty if self.ty else '', c, '^%d' % self.depth if self.depth else '')


def ser_de_arg(body, c, marker):
    for i, a in enumerate(c.args):
        l = op_local(a)
        if l is not None and marker in body.local_ty(l):
            return i
    return None


def classify_ser_call(F, body, c, side):
    """Event for a call that moves bytes, or None."""
    if side == 'w':
        if c.is_(r'Serializer::write_leb128_u64$'):
            return 'Leb', None, c.args[1] if len(c.args) > 1 else None
        if c.is_(r'Serializer::write_array$'):
            ty = norm_ty(body.local_ty(op_local(c.args[1]))) if is_place(c.args[1]) else ''
            n = lib.array_len_of_ty(ty)
            if n is None:
                n = array_len_through_unsize(body, c.args[1])
            return 'Array', n, c.args[1]
        if c.is_(r'Serializer::write_vec$'):
            return 'Vec', None, c.args[1]
        if c.is_(r'Serializer::write$') and c.fn.get('gargs'):
            return 'Item', norm_ty(c.fn['gargs'][-1]), c.args[1]
        if c.is_(r'^%s::write$' % SERIALIZABLE):
            return 'Item', norm_ty(c.self_ty), c.args[0]
    else:
        if c.is_(r'Deserializer::<?.*read_leb128_u64$'):
            return 'Leb', None, None
        if c.is_(r'Deserializer::<?.*read_array$'):
            n = None
            for g in c.fn.get('gargs', []):
                if re.match(r'^\d+$', g.strip()):
                    n = int(g)
                m = re.match(r'^(\d+)_usize$', g.strip())
                if m:
                    n = int(m.group(1))
            return 'Array', n, None
        if c.is_(r'Deserializer::<?.*read_vec(_as_ref)?$', r'^bytes_de::read_vec$'):
            return 'Vec', None, None
        if c.is_(r'Deserializer::<?.*::read$') and c.fn.get('gargs'):
            tys = [g for g in c.fn['gargs'] if not g.startswith("'")]
            return 'Item', norm_ty(tys[-1]), None
        if c.is_(r'^%s::read$' % SERIALIZABLE):
            return 'Item', norm_ty(c.self_ty), None
    return None


def array_len_through_unsize(body, op):
    l = op_local(op)
    if l is None:
        return None
    for s in copy_chain_sources(body, op, through_calls=IDENTITY_CALLS):
        if s[0] == 'param':
            n = lib.array_len_of_ty(body.local_ty(s[1]))
            if n:
                return n
        if s[0] == 'call':
            n = lib.array_len_of_ty(body.local_ty(s[1].dest['l']))
            if n:
                return n
    sl = backward_slice(body, [op], follow_mutarg=False)
    for x in sl.locals:
        n = lib.array_len_of_ty(body.local_ty(x))
        if n:
            return n
    return None


def const_of(F, body, op):
    if op is None:
        return None
    if 'c' in op:
        return op['c'].get('v')
    c = lib.classify_scalar(body, op)
    if c[0] == 'const':
        return c[1]
    return None


class Inline:
    """Marker: at this point of the sequence the events of another body (closure or crate-local helper) occur."""
    __slots__ = ('body', 'depth', 'rb')

    def __init__(self, body, depth, rb):
        self.body, self.depth, self.rb = body, depth, rb


def shallow_events(F, body, side):
    """Ordered events of ONE body (RPO, error exits excluded); closures and crate-local helpers that move bytes
    appear as Inline markers at the call that runs them."""
    depth, dom = loop_depths(body)
    errs = error_blocks(body)
    marker = SER if side == 'w' else DE
    evs = []
    for b in rpo(body):
        if b in errs or body.cleanup[b]:
            continue
        t = body.term(b)
        if t['k'] != 'call':
            continue
        c = body.call_at(b)
        d = depth.get(b, 0)
        cls = classify_ser_call(F, body, c, side)
        if cls is not None:
            kind, ty, data = cls
            e = Ev()
            e.kind, e.ty, e.depth, e.call, e.body, e.data = kind, ty, d, c, body, data
            e.const = const_of(F, body, data) if (kind == 'Leb' and side == 'w') else None
            e.ctx = None
            e.rb = b
            evs.append(e)
            continue
        if c.is_(LAZY):
            continue
        if c.is_(r'^std::iter::Iterator::(collect|sum|product|try_for_each|try_fold|for_each|fold|count|last|any|all|find|'
                 r'position|max|min|unzip)$', r'^std::iter::FromIterator::from_iter$', r'^std::iter::Extend::extend$') and c.args:
            for cb in lazy_closures(F, body, c.args[-1] if c.is_(r'extend$|from_iter$') else c.args[0]):
                evs.append(Inline(cb, d + 1, b))
        called = lib.called_closures(F, body, c)
        if called:
            for cb in called:
                evs.append(Inline(cb, d, b))
            continue
        clos = lib.closure_args(F, c)
        if clos:
            extra = 1 if c.is_(r'^std::iter::Iterator::') else 0
            for (_i, cb, _rv) in clos:
                evs.append(Inline(cb, d + extra, b))
            continue
        cal = lib.local_callee(F, c)
        if cal is not None and ser_de_arg(body, c, marker) is not None and not c.is_(r'^%s::' % SERIALIZABLE):
            evs.append(Inline(cal, d, b))
    return evs


def collect_events(F, body, side, base_depth=0, seen=None, rb=None):
    """Flat list of all events of a body with everything inlined (used for field / count rules)."""
    if seen is None:
        seen = set()
    if body.key in seen:
        return []
    seen = seen | {body.key}
    out = []
    for e in shallow_events(F, body, side):
        if isinstance(e, Inline):
            out.extend(collect_events(F, e.body, side, base_depth + e.depth, seen, rb if rb is not None else e.rb))
        else:
            e2 = Ev()
            for s in Ev.__slots__:
                setattr(e2, s, getattr(e, s, None))
            e2.depth = base_depth + e.depth
            e2.rb = rb if rb is not None else e.rb
            out.append(e2)
    return out


def lazy_closures(F, body, op, depth=0):
    """Closures attached to an iterator value by adaptor calls (map/filter/...) upstream."""
    out = []
    if depth > 6:
        return out
    l = op_local(op)
    if l is None:
        return out
    cur, d = lib.resolve_copy(body, l)
    if d is None:
        # several definitions (e.g. moved in two branches): look at all
        ds = [x for x in body.defs().get(cur, []) if x.kind == 'call']
    else:
        ds = [d] if d.kind == 'call' else []
    for dd in ds:
        c = dd.call
        if c.is_(r'^std::iter::Iterator::(map|filter|filter_map|flat_map|inspect|take_while|map_while|scan)$'):
            for (_i, cb, _rv) in lib.closure_args(F, c):
                out.append(cb)
            if c.args:
                out.extend(lazy_closures(F, body, c.args[0], depth + 1))
        elif c.is_(r'^std::iter::(Iterator::(enumerate|zip|chain|rev|skip|take|peekable|by_ref)|IntoIterator::into_iter)$') and c.args:
            out.extend(lazy_closures(F, body, c.args[0], depth + 1))
    return out


# ------------------------------------------------------------ branch contexts
def variant_arms_write(body):
    """For `write` (and its helpers): blocks reached only through one arm of a `match` on an enum value that
    comes from a parameter (self, or the Option / enum handed to a helper): {(switch block, value): blocks}."""
    arms = {}
    for b in sorted(body.live_blocks()):
        t = body.term(b)
        if t['k'] != 'switch' or not is_place(t['d']):
            continue
        l = op_local(t['d'])
        _, d = lib.resolve_copy(body, l)
        if d is None or d.kind != 'assign' or d.rv['k'] != 'discr':
            continue
        pl = body.through_ref(d.rv['pl'])
        roots = [r for r in copy_chain_sources(body, {'cp': {'l': pl['l'], 'p': []}}, through_calls=IDENTITY_CALLS)
                 if r[0] == 'param' and SER not in body.local_ty(r[1]) and DE not in body.local_ty(r[1])]
        if not roots and not body.is_param(pl['l']):
            continue
        if 'ControlFlow' in body.local_ty(d.rv['pl']['l']) or 'std::result::Result' in body.local_ty(d.rv['pl']['l']):
            continue
        for v, tgt in t['cases'] + [[None, t['else']]]:
            blocks = body.reach(tgt)
            only = set(x for x in blocks if body.edge_dominates((b, tgt), x))
            if only and any(body.term(x)['k'] != 'unreachable' for x in only):
                arms[(b, v)] = only
        return arms
    return None


def variant_contexts_write(body):
    """Per-variant views of a `write`-side body: every switch on the discriminant of the same parameter-rooted enum value is
    taken consistently.  Returns [(label, blocks that can run when the scrutinee is that variant)] or None when the body does
    not match on such a value.  (One `match self` or several — a first one computing the tag and count, a second one writing
    the elements — give the same views.)"""
    groups = {}
    for b in sorted(body.live_blocks()):
        t = body.term(b)
        if t['k'] != 'switch' or not is_place(t['d']):
            continue
        _, d = lib.resolve_copy(body, op_local(t['d']))
        if d is None or d.kind != 'assign' or d.rv['k'] != 'discr':
            continue
        pl = body.through_ref(d.rv['pl'])
        roots = [r for r in copy_chain_sources(body, {'cp': {'l': pl['l'], 'p': []}}, through_calls=IDENTITY_CALLS)
                 if r[0] == 'param' and SER not in body.local_ty(r[1]) and DE not in body.local_ty(r[1])]
        if not roots and not body.is_param(pl['l']):
            continue
        if 'ControlFlow' in body.local_ty(d.rv['pl']['l']) or 'std::result::Result' in body.local_ty(d.rv['pl']['l']):
            continue
        key = (tuple(sorted((r[1], tuple(r[2])) for r in roots)) or (pl['l'],), tuple(proj_names(pl)))
        groups.setdefault(key, []).append((b, t))
    if not groups:
        return None
    key = sorted(groups, key=lambda k: min(b for b, _t in groups[k]))[0]
    sws = groups[key]
    live = body.live_blocks()
    values = []
    for (b, t) in sws:
        for v, _tgt in t['cases']:
            if v not in values:
                values.append(v)
        if t['else'] in body.succs[b] and body.term(t['else'])['k'] != 'unreachable' and None not in values:
            values.append(None)
    out = []
    for v in values:
        excluded = set()
        for (b, t) in sws:
            cvals = [c[0] for c in t['cases']]
            for cv, tgt in t['cases']:
                if cv != v:
                    excluded |= body.dominated_by_edge((b, tgt))
            if v in cvals and t['else'] in body.succs[b]:
                excluded |= body.dominated_by_edge((b, t['else']))
        out.append(('variant#%s' % (v,), set(live) - excluded))
    return out


def const_under(F, body, op, blocks, depth=0):
    """Constant value of an operand when only the definitions located in `blocks` can have run (a tag chosen by an earlier
    `match` on the same scrutinee)."""
    if op is None or depth > 8:
        return None
    if 'c' in op:
        return op['c'].get('v')
    pl = op_place(op)
    ds = [d for d in body.defs().get(pl['l'], []) if d.b in blocks and d.kind in ('assign', 'call')]
    if len(ds) == 1 and ds[0].kind == 'call' and not pl['p']:
        # `u64::from(opt.is_some())`: a tag computed from which variant an Option built under this arm holds
        c = ds[0].call
        if c.is_(r'^std::convert::(From::from|Into::into)$') and c.args and body.local_ty(op_local(c.args[0]) or 0) == 'bool':
            v = const_under(F, body, c.args[0], blocks, depth + 1)
            return None if v is None else int(bool(v))
        if c.is_(r'^std::option::Option::<T>::(is_some|is_none)$') and c.args:
            var = variant_under(F, body, c.args[0], blocks, depth + 1)
            if var in ('Some', 'None'):
                return int((var == 'Some') == c.name.endswith('is_some'))
        return None
    if len(ds) != 1 or ds[0].kind != 'assign' or ds[0].lhs['p']:
        return None
    rv = ds[0].rv
    fp = field_path(pl)
    if rv['k'] == 'use':
        a = rv['a']
        if 'c' in a:
            return a['c'].get('v') if not fp else None
        q = op_place(a)
        return const_under(F, body, {'cp': {'l': q['l'], 'p': list(q['p']) + list(pl['p'])}}, blocks, depth + 1)
    if rv['k'] == 'cast':
        return const_under(F, body, rv['a'], blocks, depth + 1) if not fp else None
    if rv['k'] == 'agg' and rv.get('tuple') and fp and fp[0].isdigit() and int(fp[0]) < len(rv['ops']) and len(fp) == 1:
        return const_under(F, body, rv['ops'][int(fp[0])], blocks, depth + 1)
    return None


def variant_under(F, body, op, blocks, depth=0):
    """Variant held by an Option / enum operand when only the definitions located in `blocks` can have run."""
    if op is None or depth > 10 or not is_place(op):
        return None
    pl = op_place(op)
    ds = [d for d in body.defs().get(pl['l'], []) if d.b in blocks and d.kind == 'assign' and not d.lhs['p']]
    if len(ds) != 1:
        return None
    rv = ds[0].rv
    fp = [x for x in field_path(pl) if x != '*']
    if rv['k'] == 'ref':
        q = rv['pl']
        return variant_under(F, body, {'cp': {'l': q['l'], 'p': list(q['p']) + [e for e in pl['p'] if e != '*']}}, blocks, depth + 1)
    if rv['k'] == 'use' and is_place(rv['a']):
        q = op_place(rv['a'])
        return variant_under(F, body, {'cp': {'l': q['l'], 'p': list(q['p']) + list(pl['p'])}}, blocks, depth + 1)
    if rv['k'] == 'agg' and rv.get('tuple') and fp and fp[0].isdigit() and int(fp[0]) < len(rv['ops']):
        o = rv['ops'][int(fp[0])]
        if not is_place(o):
            return None
        q = op_place(o)
        rest = [e for e in pl['p'] if e != '*'][1:]
        return variant_under(F, body, {'cp': {'l': q['l'], 'p': list(q['p']) + rest}}, blocks, depth + 1)
    if rv['k'] == 'agg' and 'variant' in rv and not fp:
        return rv['variant']
    return None


def read_branches(F, body, events):
    """For `read`: comparisons of a Leb result with a constant that are branched on.
    Returns [(const, true-only blocks, false-only blocks, leb call)]."""
    out = []
    for cmp_ in lib.comparisons(body):
        if cmp_['op'] not in ('Eq', 'Ne'):
            continue
        for (x, y) in ((cmp_['a'], cmp_['b']), (cmp_['b'], cmp_['a'])):
            cv = const_of(F, body, x)
            if cv is None:
                continue
            sl = backward_slice(body, [y], follow_mutarg=False)
            lebs = sl.has_call(r'Deserializer::<?.*read_leb128_u64$')
            if not lebs:
                continue
            te, fe = cmp_['te'], cmp_['fe']
            if cmp_['op'] == 'Ne':
                te, fe = fe, te
            tb = set(b for b in body.reach(te[1]) if body.edge_dominates(te, b))
            out.append(('tag==%s' % cv, tb, lebs[0], cmp_, cv))
    # `match tag { 1 => .., 0 => .., _ => Err }`: a switch directly on the value read
    for b in sorted(body.live_blocks()):
        t = body.term(b)
        if t['k'] != 'switch' or not is_place(t['d']) or len(t['cases']) < 1:
            continue
        l = op_local(t['d'])
        if body.local_ty(l) not in ('u64', 'usize', 'u8', 'u32'):
            continue
        sl = backward_slice(body, [t['d']], follow_mutarg=False)
        lebs = sl.has_call(r'Deserializer::<?.*read_leb128_u64$')
        if not lebs or any(d.kind == 'assign' and d.rv['k'] == 'bin' for d in sl.rvs):
            continue
        for v, tgt in t['cases']:
            tb = set(x for x in body.reach(tgt) if body.edge_dominates((b, tgt), x))
            out.append(('tag==%s' % v, tb, lebs[0], {'op': 'Eq', 'te': (b, tgt), 'fe': (b, t['else']), 'blk': b, 'ln': t['ln']}, v))
    # presence encoded by the remaining input length (trailing optional fields)
    for cmp_ in lib.comparisons(body):
        sa = backward_slice(body, [cmp_['a']], follow_mutarg=False)
        sb = backward_slice(body, [cmp_['b']], follow_mutarg=False)
        if sa.has_call(r'Deserializer::<?.*value$') or sb.has_call(r'Deserializer::<?.*value$'):
            for nm, e in (('remaining:T', cmp_['te']), ('remaining:F', cmp_['fe'])):
                tb = set(b for b in body.reach(e[1]) if body.edge_dominates(e, b))
                out.append(('%s@%d' % (nm, cmp_['blk']), tb, None, cmp_, None))
    return out


def alternatives(F, body, side, depth=0, seen=()):
    """All alternative event-signature sequences of a body: one per branch context (variant arm on write; tag /
    remaining-length branch on read), inlined bodies contributing the cross product of their own alternatives."""
    if body.key in seen or depth > 6:
        return [[]]
    seen = tuple(seen) + (body.key,)
    evs = shallow_events(F, body, side)
    wctx = None
    if side == 'w':
        wctx = variant_contexts_write(body) or []
        ctxs = [(label, bl, None, None) for (label, bl) in wctx]
    else:
        ctxs = [(label, tb, leb, cv) for (label, tb, leb, cmp_, cv) in read_branches(F, body, evs)]
    if not ctxs:
        ctxs = [('*', None, None, None)]
    allb = [c[1] for c in ctxs if c[1] is not None]
    out = []
    for (label, blocks, leb, cv) in ctxs:
        seqs = [[]]
        for e in evs:
            if blocks is not None:
                inany = any(e.rb in bl for bl in allb) or side == 'w'
                if not (e.rb in blocks or not inany):
                    continue
            if isinstance(e, Inline):
                sub = alternatives(F, e.body, side, depth + 1, seen)
                sub = [[(k, t, d + e.depth, c) for (k, t, d, c) in a] for a in sub]
                seqs = [s + a for s in seqs for a in sub][:48]
            else:
                s = e.sig()
                if e.kind == 'Leb' and leb is not None and e.call is leb:
                    s = (s[0], s[1], s[2], cv)
                if side == 'w' and e.kind == 'Leb' and s[3] is None and blocks is not None:
                    s = (s[0], s[1], s[2], const_under(F, body, e.data, blocks))
                seqs = [x + [s] for x in seqs]
        for s in seqs:
            if s and s not in out:
                out.append(s)
    return out or [[]]


def sequences(F, body, side):
    """{label: [event signatures]} for one write or read implementation (all alternatives)."""
    alts = alternatives(F, body, side)
    return {'alt%d' % i: a for i, a in enumerate(alts)}, collect_events(F, body, side)


def root_block_of(F, root, e):
    """Block of `root` whose call (transitively) runs the body that produced event e."""
    cur = e.body
    for _ in range(6):
        if cur is root:
            return None
        par = F.bodies.get(cur.parent) if cur.kind == 'Closure' else None
        if cur.kind == 'Closure':
            cons = lib.closure_consumers(F, cur)
            for (pb, c, idx) in cons:
                if pb is root:
                    # lazily consumed? find the consuming call (collect ...) downstream of c
                    bs = [c.b]
                    for cc in pb.calls(r'^std::iter::Iterator::(collect|sum|try_for_each|try_fold|for_each|fold)$'):
                        if cur in lazy_closures(F, pb, cc.args[0]) if cc.args else False:
                            bs.append(cc.b)
                    return bs[-1]
            if par is None:
                return None
            cur = par
        else:
            # crate-local helper: find its call in root
            for c in root.calls():
                cal = lib.local_callee(F, c)
                if cal is cur:
                    return c.b
            return None
    return None


def strip_consts(seq, keep):
    return [(k, t, d, (c if keep else None)) for (k, t, d, c) in seq]


def seq_eq(a, b):
    """Sequence equality where an Array of unknown length matches any Array."""
    if len(a) != len(b):
        return False
    for (k1, t1, d1, c1), (k2, t2, d2, c2) in zip(a, b):
        if (k1, d1) != (k2, d2):
            return False
        if k1 == 'Array' and (t1 is None or t2 is None):
            continue
        if t1 != t2:
            return False
    return True


def seqset_eq(A, B):
    return all(any(seq_eq(a, b) for b in B) for a in A) and all(any(seq_eq(a, b) for a in A) for b in B)


_ONLY = [None]


def restricted(ctx, pattern, fns):
    """Run some of the C13 rules restricted to the types matching `pattern` (used by the properties
    whose statement includes 'through serialization' for particular objects)."""
    _ONLY[0] = re.compile(pattern)
    try:
        for f in fns:
            f(ctx)
    finally:
        _ONLY[0] = None


def serializable_impls(F):
    out = []
    for i in F.impls:
        if _ONLY[0] is not None and not _ONLY[0].search(norm_ty(i.get('self', ''))):
            continue
        if i.get('trait') == SERIALIZABLE:
            w, r, ln = F.impl_method(i, 'write'), F.impl_method(i, 'read'), F.impl_method(i, 'length')
            out.append((i, w, r, ln))
    return out


@rule('C13', 'agree', configs=('default', 'p256'))
def agree(ctx):
    F = ctx.F
    impls = serializable_impls(F)
    if _ONLY[0] is None:
        ctx.floor(len(impls), 24, 'impl Serializable in the crate')
    else:
        ctx.floor(len(impls), 1, 'impl Serializable (restricted)')
    for (i, w, r, ln) in impls:
        name = norm_ty(i['self'])
        if w is None or r is None:
            ctx.bad(name, 'write/read missing', 'impl Serializable for %s has no write or read body' % name)
            continue
        ws, wev = sequences(F, w, 'w')
        rs, rev = sequences(F, r, 'r')
        # tag-less comparison of the multiset of branch sequences
        wl = sorted(tuple(strip_consts(s, False)) for s in ws.values())
        rl = sorted(tuple(strip_consts(s, False)) for s in rs.values())
        ok = seqset_eq(wl, rl)
        if not ok:
            ctx.bad(name, 'write~read',
                    'write and read of %s do not move the same data in the same order: write %s / read %s' % (
                        name, {k: fmt(v) for k, v in ws.items()}, {k: fmt(v) for k, v in rs.items()}), w.where())
            continue
        ctx.ok(name, 'write~read', '%d event(s): %s' % (len(wev), fmt(list(ws.values())[0])), w.where())
        # flags / tags decoded from the wire are tested by equality with the constant the writer emits, never by order
        for fb in F.family(r.key):
            for b in sorted(fb.live_blocks()):
                for st in fb.stmts(b):
                    rv = st['rv']
                    if rv['k'] == 'bin' and rv['op'] in ('Lt', 'Le', 'Gt', 'Ge'):
                        sl = backward_slice(fb, [rv['a'], rv['b']], follow_mutarg=False)
                        if sl.has_call(r'Deserializer::<?.*read_leb128_u64$') and not sl.has_call(r'Deserializer::<?.*value$') \
                                and (('c' in rv['a']) or ('c' in rv['b'])):
                            ctx.bad(name, 'wire value tested by order (%s)' % rv['op'],
                                    'read of %s decodes a flag / tag from the wire with an order comparison (%s, line %d) instead of equality '
                                    'with the value the writer emits: values the writer never produces are accepted and 0 / 1 may be '
                                    'conflated' % (name, rv['op'], st['ln']), fb.where(st['ln']))
        # tag constants: the constant written in a variant arm is the constant tested on the branch that reads the same data
        if len(ws) > 1 or len(rs) > 1:
            wt = sorted((tuple(strip_consts(s, False)), tuple(c for (_k, _t, _d, c) in s if c is not None)) for s in ws.values())
            rt = sorted((tuple(strip_consts(s, False)), tuple(c for (_k, _t, _d, c) in s if c is not None)) for s in rs.values())
            okc = True
            for (seq, wc) in wt:
                rc = [c for (s2, c) in rt if seq_eq(s2, seq)]
                if wc and not any(set(wc) & set(c) or not c for c in rc):
                    okc = False
            ctx.check(okc, name, 'tags agree',
                      'the flavour tag written for a variant of %s is not the tag tested before reading that variant: '
                      'write %s / read %s' % (name, wt, rt), 'tag constants agree per variant', w.where())


def fmt(seq):
    out = []
    for (k, t, d, c) in seq:
        s = k
        if t:
            s += '(%s)' % (str(t).split('::')[-1] if isinstance(t, str) else t)
        if c is not None:
            s += '=%s' % c
        if d:
            s += '^%d' % d
        out.append(s)
    return ' '.join(out)


# ---------------------------------------------------------------- strict flags (shared with C07)
def strict_tag_reads(ctx, F):
    """Every read branch on a flavour tag has exactly two accepted values and an Err else."""
    n = 0
    for (i, w, r, ln) in serializable_impls(F):
        if r is None:
            continue
        brs = read_branches(F, r, [])
        if not brs:
            continue
        name = norm_ty(i['self'])
        by_leb = {}
        for (label, tb, leb, cmp_, cv) in brs:
            if leb is None:
                continue
            by_leb.setdefault(leb.b, []).append((cv, cmp_))
        for lb, lst in by_leb.items():
            vals = sorted(set(cv for cv, _ in lst))
            n += 1
            yield name, r, vals, lst


# ----------------------------------------------------------------- fields
FIELD_EXCEPTIONS = {
    ('abe_policy::access_structure::AccessStructure', 'version'):
        'checked against V1 on read, then reconstructed as the only variant',
}


FIXED_SIZE = re.compile(r'^(bool|\[u8; [A-Za-z_0-9:]+\]|cosmian_crypto_core::Secret<[^>]+>|abe_policy::attribute::(EncryptionHint|AttributeStatus)|'
                        r'std::boxed::Box<|abe_policy::Version|curve25519_dalek::|p256::|elliptic_curve::)')


VARIABLE_SIZE = re.compile(r'(Vec<|HashMap<|HashSet<|LinkedList<|String|Option<|RevisionMap|RevisionVec|Dict<|AccessStructure|Dimension|usize|u64)')


def control_from_input(F, body, op):
    """The operand is a constant chosen by branches on deserializer input (if 0 == hint {A} else {B})."""
    l = op_local(op)
    if l is None:
        return False
    for _ in range(8):
        ds = [d for d in body.defs().get(l, []) if d.kind == 'assign' and not d.lhs['p']]
        if len(ds) == 1 and ds[0].rv['k'] == 'use' and is_place(ds[0].rv['a']) and not op_place(ds[0].rv['a'])['p']:
            l = op_local(ds[0].rv['a'])
            continue
        break
    if not ds:
        return False
    input_cmps = []
    for cmp_ in lib.comparisons(body):
        sl = backward_slice(body, [cmp_['a'], cmp_['b']], follow_mutarg=False)
        if sl.has_call(r'Deserializer::<?.*read'):
            input_cmps.append(cmp_)
    # ... or by a `match` on the integer that was read
    input_edges = []
    for b in sorted(body.live_blocks()):
        t = body.term(b)
        if t['k'] != 'switch' or not is_place(t['d']) or len(body.succs[b]) < 2:
            continue
        sl = backward_slice(body, [t['d']], follow_mutarg=False)
        if sl.has_call(r'Deserializer::<?.*read'):
            input_edges += [(b, s) for s in body.succs[b]]
    for d in ds:
        if any(body.edge_dominates(c['te'], d.b) or body.edge_dominates(c['fe'], d.b) for c in input_cmps):
            continue
        if any(body.edge_dominates(e, d.b) for e in input_edges):
            continue
        return False
    return True


def adt_of_impl(F, i):
    h = i.get('self_head') or {}
    return h.get('adt') if isinstance(h, dict) else None


def self_field_reads(F, body, seen=None):
    """Field names of `self` (param 1) read anywhere in the body family."""
    out = set()
    for fb in F.family(body.root or body.key) if body.kind != 'Closure' else [body]:
        for b in sorted(fb.live_blocks()):
            pls = []
            for st in fb.stmts(b):
                rv = st['rv']
                if rv['k'] == 'use' and is_place(rv['a']):
                    pls.append(op_place(rv['a']))
                elif rv['k'] in ('ref', 'discr', 'rawptr'):
                    pls.append(rv['pl'])
                elif rv['k'] == 'agg':
                    pls += [op_place(o) for o in rv['ops'] if is_place(o)]
            t = fb.term(b)
            if t['k'] == 'call':
                pls += [op_place(a) for a in t['args'] if is_place(a)]
            for pl in pls:
                if fb.kind != 'Closure' and pl['l'] == 1 and not [x for x in proj_names(pl) if x != '*']:
                    # `self` taken whole (Deref::deref(self), self.iter(), self.is_ordered()): every field may be read
                    out.add('*')
                if fb.kind == 'Closure':
                    # captured self: _1.<upvar self>...
                    names = proj_names(pl)
                    if pl['l'] == 1 and any(n_ in ('self', '_ref__self') for n_ in names):
                        idx = [k for k, n_ in enumerate(names) if n_ in ('self', '_ref__self')][0]
                        rest = [x for x in names[idx + 1:] if x != '*' and not x.startswith('@')]
                        if rest:
                            out.add(rest[0])
                elif pl['l'] == 1:
                    rest = [x for x in proj_names(pl) if x != '*' and not x.startswith('@')]
                    if rest:
                        out.add(rest[0])
    return out


@rule('C13', 'fields', configs=('default', 'p256'))
def fields(ctx):
    F = ctx.F
    n = 0
    for (i, w, r, ln) in serializable_impls(F):
        adt = adt_of_impl(F, i)
        if adt is None or adt not in F.adts or w is None or r is None:
            continue
        a = F.adts[adt]
        name = norm_ty(i['self'])
        wreads = self_field_reads(F, w)
        lreads = self_field_reads(F, ln) if ln is not None else set()
        allf = []
        for v in a['variants']:
            for f in v['fields']:
                if f['name'] not in allf:
                    allf.append(f['name'])
        ftypes = {}
        for v in a['variants']:
            for f in v['fields']:
                ftypes[f['name']] = f['ty']
        for f in allf:
            if (adt, f) in FIELD_EXCEPTIONS:
                ctx.ok(name, 'field %s (exception)' % f, FIELD_EXCEPTIONS[(adt, f)], w.where())
                continue
            n += 1
            ctx.check(f in wreads or '*' in wreads, name, 'field %s written' % f,
                      'field `%s` of %s is never read by `write`: it is dropped from the wire format' % (f, name),
                      'read by write', w.where())
            if ln is not None and (lreads or VARIABLE_SIZE.search(ftypes.get(f, ''))) and not FIXED_SIZE.match(ftypes.get(f, '')):
                ctx.check(f in lreads or '*' in lreads, name, 'field %s in length' % f,
                          'field `%s` of %s does not contribute to `length`' % (f, name), 'read by length', ln.where())
        # every field of the value built by read derives from the input
        built = []
        for fb in F.family(r.key):
            for b in sorted(fb.live_blocks()):
                for st in fb.stmts(b):
                    rv = st['rv']
                    if rv['k'] == 'agg' and rv.get('adt') == adt:
                        built.append((fb, st, rv))
        ctors = []   # variant constructors used as functions (`.map(Self::Anarchy)`)
        for fb in F.family(r.key):
            for c in fb.calls():
                for arg in c.args:
                    if 'c' in arg and 'fn' in arg['c'] and arg['c']['fn']['def'].startswith(adt + '::'):
                        ctors.append((fb, c))
        # value built by a crate-local constructor function (Self::new(..)): look inside it
        viactor = []
        if not built:
            for fb in F.family(r.key):
                for c in fb.calls():
                    cal = lib.local_callee(F, c)
                    if cal is None or cal.key == r.key or norm_ty(cal.locals[0]['ty']).split('<')[0] != adt:
                        continue
                    for bb in sorted(cal.live_blocks()):
                        for st2 in cal.stmts(bb):
                            rv2 = st2['rv']
                            if rv2['k'] == 'agg' and rv2.get('adt') == adt:
                                viactor.append((fb, c, cal, st2, rv2))
        for (fb, c, cal, st2, rv2) in viactor:
            for fname, op in zip(rv2['fields'], rv2['ops']):
                if (adt, fname) in FIELD_EXCEPTIONS:
                    continue
                n += 1
                srcs = copy_chain_sources(cal, op, through_calls=IDENTITY_CALLS)
                params = [s[1] for s in srcs if s[0] == 'param']
                if params and len(params) == len(srcs):
                    ok = True
                    for pp in params:
                        arg = c.args[pp - 1]
                        calls = lib.deep_calls(F, fb, [arg], follow_mutarg=True)
                        if not (any(x.is_(r'Deserializer::<?.*read', r'^bytes_de::read_vec$', r'^%s::read$' % SERIALIZABLE) for x in calls)
                                or control_from_input(F, fb, arg)):
                            ok = False
                    ctx.check(ok, name, 'read: field %s <- input (via %s)' % (fname, cal.name),
                              'field `%s` of the %s built by `read` through %s (line %d) is fed by an argument that does not derive '
                              'from the deserializer' % (fname, name, cal.name, c.ln), 'argument derives from deserializer reads', c.where())
                else:
                    ctx.bad(name, 'read: field %s <- input (via %s)' % (fname, cal.name),
                            'field `%s` of the %s built by `read` is set by the constructor %s (line %d) to a value that does not come '
                            'from the wire (%s): the datum is read but does not round-trip' % (
                                fname, name, cal.name, c.ln, [(s[0], s[1] if s[0] == 'const' else '') for s in srcs][:2]), c.where())
        if viactor:
            built = built or [None]
            built = [x for x in built if x is not None]
        if not built and not ctors and not viactor:
            calls = lib.deep_calls(F, r, [0], follow_mutarg=True)
            ctx.check(any(c.is_(r'Deserializer::<?.*read', r'^bytes_de::read_vec$') for c in calls), name,
                      'read: value <- input', 'the value returned by `read` of %s does not derive from the deserializer' % name,
                      'returned value derives from deserializer reads', r.where())
        for (fb, st, rv) in built:
            for fname, op in zip(rv['fields'], rv['ops']):
                if (adt, fname) in FIELD_EXCEPTIONS:
                    continue
                n += 1
                calls = lib.deep_calls(F, fb, [op], follow_mutarg=True)
                from_input = any(c.is_(r'Deserializer::<?.*read', r'^bytes_de::read_vec$', r'^%s::read$' % SERIALIZABLE)
                                 for c in calls)
                if not from_input:
                    from_input = control_from_input(F, fb, op)
                ctx.check(from_input, name, 'read: field %s <- input' % fname,
                          'field `%s` of the %s built by `read` (line %d) does not derive from the deserializer: it '
                          'defaults instead of round-tripping' % (fname, name, st['ln']),
                          'derives from deserializer reads', fb.where(st['ln']))
        # every component of a tuple / crate aggregate built on the way derives from the input too
        for fb in F.family(r.key):
            if fb.blocks and error_blocks(fb) is None:
                continue
            errs = error_blocks(fb)
            for b in sorted(fb.live_blocks()):
                if b in errs:
                    continue
                for st in fb.stmts(b):
                    rv = st['rv']
                    if rv['k'] != 'agg' or st.get('exp'):
                        continue
                    if not (rv.get('tuple') and len(rv['ops']) >= 2):
                        continue
                    for k, op in enumerate(rv['ops']):
                        if 'c' in op and op['c'].get('ty') != '()':
                            n += 1
                            ctx.bad(name, 'read: tuple component %d <- input' % k,
                                    'a component of a tuple built by `read` of %s (line %d) is the constant %s instead of '
                                    'deserializer input: the datum does not round-trip' % (name, st['ln'], op['c'].get('s')),
                                    fb.where(st['ln']))
                        elif is_place(op):
                            cur, d = lib.resolve_copy(fb, op_local(op))
                            if d is not None and d.kind == 'assign' and d.rv['k'] == 'use' and 'c' in d.rv['a'] \
                                    and d.rv['a']['c'].get('ty') != '()':
                                n += 1
                                ctx.bad(name, 'read: tuple component %d <- input' % k,
                                        'a component of a tuple built by `read` of %s (line %d) is the constant %s instead of '
                                        'deserializer input' % (name, st['ln'], d.rv['a']['c'].get('s')), fb.where(st['ln']))
        for (fb, c) in ctors:
            n += 1
            calls = lib.deep_calls(F, fb, [c.args[0]], follow_mutarg=True)
            lz = []
            for cb in lazy_closures(F, fb, c.args[0]):
                lz += cb.calls(r'Deserializer::<?.*read', r'^bytes_de::read_vec$')
            ok = bool(lz) or any(x.is_(r'Deserializer::<?.*read', r'^bytes_de::read_vec$') for x in calls)
            if not ok:
                # collected from a lazily-mapped iterator defined upstream
                for x in calls:
                    if x.is_(r'^std::iter::Iterator::collect$') and x.args:
                        for cb in lazy_closures(F, x.body, x.args[0]):
                            if cb.calls(r'Deserializer::<?.*read', r'^bytes_de::read_vec$'):
                                ok = True
            ctx.check(ok, name, 'read: variant payload <- input',
                      'the payload handed to the %s constructor (line %d) does not derive from the deserializer' % (name, c.ln),
                      'derives from deserializer reads', c.where())
    ctx.floor(n, 40 if _ONLY[0] is None else 2, 'field obligations')


# ------------------------------------------------------------------ count
@rule('C13', 'count', configs=('default', 'p256'))
def count(ctx):
    F = ctx.F
    n = 0
    for (i, w, r, ln) in serializable_impls(F):
        if w is None:
            continue
        name = norm_ty(i['self'])
        for fb in F.family(w.key):
            # (1) every Serializer result is used
            for c in fb.calls():
                cls = classify_ser_call(F, fb, c, 'w')
                if cls is None:
                    continue
                n += 1
                ok = count_flows_out(F, fb, c)
                ctx.check(ok, name, 'count(%s) accumulated' % cls[0],
                          'the number of bytes written by %s (line %d) is not accumulated into the value `write` returns'
                          % (c.name, c.ln), 'flows into the returned total', c.where())
            # (2) the accumulator is not overwritten once it counts
            accs = set()
            for b in sorted(fb.live_blocks()):
                for st in fb.stmts(b):
                    rv = st['rv']
                    if rv['k'] == 'bin' and rv['op'] in ('AddWithOverflow', 'Add') and is_place(rv['a']) and not op_place(rv['a'])['p']:
                        accs.add(op_local(rv['a']))
            # inside a closure the counter is a captured `&mut usize`: every write to it must be `*n = *n + x`
            if fb.kind == 'Closure':
                for b in sorted(fb.live_blocks()):
                    for st in fb.stmts(b):
                        lhs, rv = st['lhs'], st['rv']
                        if list(lhs['p']) != ['*'] or fb.local_ty(lhs['l']) != '&mut usize' or rv['k'] != 'use' or not is_place(rv['a']):
                            continue
                        rd = lib.single_def(fb, lhs['l'])
                        if rd is None or rd.kind != 'assign' or rd.rv['k'] != 'use' or not is_place(rd.rv['a']) or op_place(rd.rv['a'])['l'] != 1:
                            continue      # not a captured counter
                        src = op_place(rv['a'])
                        sd = lib.single_def(fb, src['l'])
                        acc_ok = sd is not None and sd.kind == 'assign' and sd.rv['k'] == 'bin' and sd.rv['op'] in ('AddWithOverflow', 'Add')
                        n += 1
                        ctx.check(acc_ok, name, 'accumulator not overwritten',
                                  'the byte counter captured by a closure of %s::write is overwritten at line %d instead of added to: '
                                  'write returns less than it wrote' % (name, st['ln']), 'captured counter only added to', fb.where(st['ln']))
            # the counter is also whatever local the returned Ok(..) carries, even when every `+=` happens in a closure
            if fb.kind != 'Closure':
                for b in sorted(fb.live_blocks()):
                    for st in fb.stmts(b):
                        rv = st['rv']
                        if rv['k'] == 'agg' and rv.get('adt') == 'std::result::Result' and rv['variant'] == 'Ok' and st['lhs']['l'] == 0 \
                                and rv['ops'] and is_place(rv['ops'][0]) and fb.local_ty(op_local(rv['ops'][0])) == 'usize':
                            cur, _d = lib.resolve_copy(fb, op_local(rv['ops'][0]))
                            if cur is not None and fb.var_name(cur):
                                accs.add(cur)
            for acc in accs:
                ds = [d for d in fb.defs().get(acc, []) if d.kind in ('assign', 'call', 'mutarg') and d.via is None]
                plain = []
                for d in ds:
                    if d.kind == 'mutarg':
                        continue      # a closure / callee adding to the counter through `&mut n`
                    if d.kind == 'assign' and d.rv['k'] == 'use' and is_place(d.rv['a']):
                        src = op_place(d.rv['a'])
                        # `n = move _38.0` after AddWithOverflow is the accumulation itself
                        _, dd = lib.resolve_copy(fb, src['l'])
                        sd = lib.single_def(fb, src['l'])
                        if sd is not None and sd.kind == 'assign' and sd.rv['k'] == 'bin' and sd.rv['op'] in ('AddWithOverflow', 'Add'):
                            continue
                    plain.append(d)
                for p in plain:
                    others = [d for d in ds if d is not p]
                    reach_p = [d for d in others if (d.b != p.b and p.b in fb.reach(fb.succs[d.b])) or
                               (d.b == p.b and d.i is not None and p.i is not None and d.i < p.i)]
                    if fb.is_param(acc):
                        reach_p = reach_p or [p]      # the parameter of a fold already carries the running total
                    n += 1
                    ctx.check(not reach_p, name, 'accumulator not overwritten',
                              'the byte counter `%s` of %s::write is overwritten at line %d after it already holds counts: '
                              'write returns less than it wrote' % (fb.var_name(acc) or '_%d' % acc, name,
                                                                     fb.stmts(p.b)[p.i]['ln'] if p.i is not None else 0),
                              'initialised once', fb.where(fb.stmts(p.b)[p.i]['ln'] if p.i is not None else None))
    ctx.floor(n, 60 if _ONLY[0] is None else 1, 'byte-count obligations')


def count_flows_out(F, body, c):
    """Forward: the usize produced by call c reaches the return value (through `?`,
    additions, moves) — or, inside a closure, the closure's result / a captured counter."""
    S = {c.dest['l']}
    for _ in range(40):
        grew = False
        for b in sorted(body.live_blocks()):
            for st in body.stmts(b):
                rv = st['rv']
                srcs = []
                if rv['k'] == 'use':
                    srcs = [rv['a']]
                elif rv['k'] in ('bin',):
                    srcs = [rv['a'], rv['b']]
                elif rv['k'] == 'agg':
                    srcs = rv['ops']
                elif rv['k'] in ('cast', 'un'):
                    srcs = [rv['a']]
                if any(is_place(o) and op_local(o) in S and '@Break' not in proj_names(op_place(o)) for o in srcs):
                    lhs = st['lhs']
                    if '*' in proj_names(lhs):
                        return True      # stored through a captured `&mut n`
                    if lhs['l'] not in S:
                        S.add(lhs['l'])
                        grew = True
            t = body.term(b)
            if t['k'] == 'call':
                cc = body.call_at(b)
                if any(is_place(a) and op_local(a) in S for a in cc.args):
                    if cc.is_(r'^std::ops::Try::branch$', r'^std::result::Result::<T, E>::(map|map_err|and_then)$',
                              r'^std::ops::(Add|AddAssign)::', r'^std::convert::', r'^std::iter::Iterator::(fold|try_fold)$'):
                        if cc.is_(r'AddAssign'):
                            return True
                        if cc.dest['l'] not in S:
                            S.add(cc.dest['l'])
                            grew = True
        if not grew:
            break
    return 0 in S


REORDER = (r'::sort(_unstable)?(_by|_by_key|_by_cached_key)?$', r'^std::iter::Iterator::rev$', r'::reverse$',
           r'^std::collections::(BTreeMap|BTreeSet|BinaryHeap)::')
UNORDERED_SRC = (r'^std::collections::(HashMap|HashSet)::<[^>]*>::(iter|keys|values|into_iter|drain)$',
                 r'^std::iter::IntoIterator::into_iter$')


COUNT_CARRIERS = (r'Deserializer::<?.*read_leb128_u64$', r'^std::convert::TryFrom::try_from$', r'^std::convert::TryInto::try_into$',
                  r'^std::ops::Try::branch$', r'^std::convert::(From::from|Into::into)$', r'^std::ops::FromResidual::from_residual$',
                  r'::read_count$')


@rule('C13', 'announced-count-exact', configs=('default', 'p256'))
def announced_count_exact(ctx):
    """The number of elements a reader takes is exactly the count announced on the wire: the end of every `0..n` it iterates
    derives from the LEB128 count through conversions only — no min / clamp / arithmetic. (A clamped count makes distinct byte
    strings parse to the same object: bytes outside every transcript, such as the number of encapsulations, become malleable.)"""
    F = ctx.F
    n = 0
    for (i, w, r, ln) in serializable_impls(F):
        if r is None:
            continue
        name = norm_ty(i['self'])
        for fb in lib.family_ext(F, r.key):
            for b in sorted(fb.live_blocks()):
                for st in fb.stmts(b):
                    rv = st['rv']
                    if not (rv['k'] == 'agg' and rv.get('adt') == 'std::ops::Range' and len(rv['ops']) == 2):
                        continue
                    sl = backward_slice(fb, [rv['ops'][1]], follow_mutarg=False)
                    if not sl.has_call(r'Deserializer::<?.*read_leb128_u64$'):
                        continue
                    n += 1
                    other = [c for c in sl.calls if not c.is_(*COUNT_CARRIERS) and lib.local_callee(F, c) is None]
                    arith = [d for d in sl.rvs if d.kind == 'assign' and d.rv['k'] == 'bin']
                    ctx.check(not other and not arith, name, 'read: loop bound = announced count',
                              'read of %s iterates (line %d) over a count that is not the announced one as is (%s): several byte strings '
                              'decode to the same object' % (name, st['ln'], (other[0].name if other else 'arithmetic')),
                              'count <- read_leb128_u64 through conversions only', fb.where(st['ln']))
    ctx.floor(n, 10 if _ONLY[0] is None else 1, 'counted loops in read implementations')


@rule('C13', 'order', configs=('default', 'p256'))
def order(ctx):
    """Ordered containers (hierarchies, revision chains, tracers, traps, user-key chains) go on the wire
    in their own order and come back in wire order: no sorting / reversing in write or read."""
    F = ctx.F
    n = 0
    for (i, w, r, ln) in serializable_impls(F):
        name = norm_ty(i['self'])
        for side, root in (('write', w), ('read', r)):
            if root is None:
                continue
            n += 1
            bad = []
            if side == 'write':
                for root2 in [root] + ([ln] if ln is not None else []):
                    for fb in F.family(root2.key):
                        for c in fb.calls(r'^std::iter::Iterator::(filter|filter_map|skip|take|take_while|skip_while|step_by|nth|last|find|map_while)$'):
                            bad.append(c)
            if side == 'read':
                for fb in F.family(root.key):
                    for c in fb.calls(r'LinkedList::<[^>]*>::push_front$', r'VecDeque::<[^>]*>::push_front$'):
                        bad.append(c)
                    for c in fb.calls(r'Vec::<[^>]*>::insert$'):
                        bad.append(c)
            for fb in F.family(root.key):
                for c in fb.calls(*REORDER):
                    # a set / map that IS the representation of a field of some type of the crate (a registry kept in a BTreeSet,
                    # say) has no order of its own to lose: walking it or inserting into it reorders nothing
                    if c.is_(r'^std::collections::(BTreeMap|BTreeSet)::') and _is_field_container(F, c):
                        continue
                    # sorting the entries of an unordered map for determinism is harmless
                    sl = backward_slice(fb, c.args[:1], follow_mutarg=True)
                    src_unordered = any(('HashMap' in (x.self_ty or x.full) or 'HashSet' in (x.self_ty or x.full)) and x.is_(r'::(iter|keys|values|into_iter)$')
                                        for x in sl.calls)
                    src_ordered = any(x.is_(r'Dict::<K, V>::|LinkedList::<[^>]*>::(iter|into_iter)|RevisionVec|Vec::<[^>]*>::(iter|into_iter)$') for x in sl.calls)
                    if src_unordered and not src_ordered:
                        continue
                    bad.append(c)
            ctx.check(not bad, name, '%s keeps container order' % side,
                      '%s of %s reorders the elements it serialises (%s, line %d): ordered containers (hierarchy ranks, revision '
                      'chains) no longer round-trip' % (side, name, bad[0].name if bad else '', bad[0].ln if bad else 0),
                      'no sort / rev', root.where())
    ctx.floor(n, 40 if _ONLY[0] is None else 2, 'write / read bodies')


def _is_field_container(F, c):
    m = re.search(r'(BTreeMap|BTreeSet)::<(.*?)>::[a-z_]+(::<.*)?$', c.full)
    if not m:
        return False
    want = '%s<%s' % (m.group(1), re.sub(r"'[a-z_0-9]+ ", '', m.group(2)))
    for a in F.adts.values():
        for v in a['variants']:
            for f in v['fields']:
                if want in re.sub(r"'[a-z_0-9]+ ", '', f['ty']).replace(', std::alloc::Global', ''):
                    return True
    return False


@rule('C13', 'signature-compat', configs=('default',))
def signature_compat(ctx):
    """'Objects serialized by the pinned release keep deserializing to working objects': a user key carries a KMAC over
    (markers, right, scalar [, ML-KEM key]); changing what sign() absorbs makes every key issued before the change fail verify
    on its next refresh.  The transcript shape is therefore part of the format (C08.mac-covers)."""
    from . import c08
    c08.mac_covers(ctx)


@rule('C13', 'hidden-state-consistent')
def hidden_state_consistent(ctx):
    """A live object and its reloaded copy are the same object: state that is not written out but rebuilt by `read` (the index
    map of the ordered dictionary) is kept consistent by every in-memory edit (C03.dict-remove-shifts), otherwise the reloaded
    structure resolves names differently from the one that was serialized."""
    from . import c03
    c03.dict_remove_shifts(ctx)


GOLDEN = os.path.join(os.path.dirname(os.path.dirname(os.path.abspath(__file__))), 'wire_golden.json')


def wire_signatures(F):
    out = {}
    for (i, w, r, ln) in serializable_impls(F):
        if w is None:
            continue
        name = norm_ty(i['self'])
        ws, _wev = sequences(F, w, 'w')
        out[name] = sorted(fmt(s) for s in ws.values())
    return out


@rule('C13', 'wire-stable', configs=('default',))
def wire_stable(ctx):
    """'Objects serialized by the pinned release keep deserializing to working objects': the wire grammar of every type — the
    ordered sequence of LEB128 counts / tags, fixed arrays, byte vectors and nested objects its `write` emits, per variant —
    is the one recorded from the pinned tree (analyses/wire_golden.json, regenerated by bin/mkgolden only with a reviewed
    format change). A change applied consistently to write and read round-trips, and is therefore invisible to every other
    rule and test, yet makes every stored key and ciphertext unreadable."""
    import json
    F = ctx.F
    if not os.path.exists(GOLDEN):
        ctx.bad('-', 'anchor-missing:wire_golden.json', 'the recorded wire grammar is missing')
        return
    with open(GOLDEN) as f:
        gold = json.load(f)
    cur = wire_signatures(F)
    n = 0
    for name in sorted(gold):
        if _ONLY[0] is not None and not _ONLY[0].search(name):
            continue
        n += 1
        ctx.check(cur.get(name) == gold[name], name, 'wire grammar unchanged',
                  'the wire grammar of %s is %s, the pinned release writes %s: data serialized before the change no longer '
                  'deserializes (or deserializes to something else)' % (name, cur.get(name), gold[name]),
                  '%d alternative(s)' % len(gold[name]))
    ctx.floor(n, 20 if _ONLY[0] is None else 1, 'types with a recorded wire grammar')


@rule('C13', 'enum-codec-inverse')
def enum_codec_inverse(ctx):
    """Field-less enums travel as an integer: `write` emits `bool::from(v) as u64`, `read` branches on the integer and picks a
    variant. The two tables must be inverse of each other — the variant picked under `tag == k` is the one `bool::from` maps to
    k (truth table by exact finite-domain evaluation). Otherwise a disabled attribute reloads as enabled, a hybridized one as
    classic: every round-trip test that only ever serializes the default value still passes."""
    from .. import fin
    F = ctx.F
    ENUMS = ('abe_policy::attribute::EncryptionHint', 'abe_policy::attribute::AttributeStatus')
    table = {}
    for adt in ENUMS:
        fb = [b for b in F.fns() if b.name == 'from' and b.impl_trait == 'std::convert::From' and b.impl_self == 'bool'
              and adt.split('::')[-1] in b.locals[1]['ty']]
        if len(fb) != 1:
            ctx.bad(adt, 'anchor-missing:From<%s> for bool' % adt.split('::')[-1], 'cannot find the conversion the writer uses')
            continue
        try:
            tt_ = fin.truth_table(F, fb[0], [fin.enum_domain(F, adt)])
        except fin.NotEvaluable as e:
            ctx.bad(fb[0].key, 'truth-table', 'cannot evaluate: %s' % e)
            continue
        table[adt] = {int(bool(r.v)): a.v for (a,), r in tt_.items()}
    n = 0
    for (i, w, r, ln) in serializable_impls(F):
        if r is None or w is None:
            continue
        name = norm_ty(i['self'])
        # the writer really goes through bool::from for these enums
        for fb in lib.family_ext(F, r.key):
            evs = shallow_events(F, fb, 'r')
            for (label, blocks, leb, cmp_, cv) in read_branches(F, fb, evs):
                if cv is None or blocks is None:
                    continue
                for b in sorted(blocks):
                    for st in fb.stmts(b):
                        rv = st['rv']
                        if rv['k'] == 'agg' and rv.get('adt') in table and not rv['ops']:
                            # only the assignment made directly on this branch, not under a nested comparison
                            inner = [x for x in read_branches(F, fb, evs) if x[1] is not None and b in x[1] and x[1] < blocks]
                            if inner:
                                continue
                            n += 1
                            want = table[rv['adt']].get(cv)
                            ctx.check(want == rv['variant'], name, 'read: tag %s -> %s::%s' % (cv, rv['adt'].split('::')[-1], want),
                                      'read of %s decodes the value %s of a %s as %s (line %d), the writer emits %s for %s: the value does '
                                      'not survive a round trip' % (name, cv, rv['adt'].split('::')[-1], rv['variant'], st['ln'], cv, want),
                                      'inverse of bool::from', fb.where(st['ln']))
    ctx.floor(n, 4 if _ONLY[0] is None else 1, 'enum constants chosen by a wire tag')


READ_REMOVALS = (r'^std::vec::Vec::<[^>]*>::(dedup|dedup_by|dedup_by_key|retain|retain_mut|truncate|pop|remove|swap_remove|drain|clear|split_off|sort|sort_by|sort_by_key|sort_unstable|sort_unstable_by|reverse)$',
                 r'^core::slice::<impl \[T\]>::(sort|sort_by|sort_by_key|sort_unstable|sort_unstable_by|sort_unstable_by_key|reverse|rotate_left|rotate_right)$',
                 r'^std::collections::LinkedList::<[^>]*>::(pop_front|pop_back|clear|split_off)$')


@rule('C13', 'read-keeps-every-element', configs=('default', 'p256'))
def read_keeps_every_element(ctx):
    """What `read` returns is what the bytes say, element for element: between the reads and the construction of the value
    nothing is removed, deduplicated or re-sorted (two different byte strings would decode to the same object — and for an
    encapsulation the duplicated component is not covered by any digest)."""
    F = ctx.F
    n = 0
    for (i, w, r, ln) in serializable_impls(F):
        if r is None:
            continue
        name = norm_ty(i['self'])
        n += 1
        bad = []
        for fb in lib.family_ext(F, r.key):
            bad += fb.calls(*READ_REMOVALS)
        ctx.check(not bad, name, 'read: nothing removed / reordered',
                  'read of %s post-processes what it has read with %s (line %d): distinct serializations decode to the same value'
                  % (name, bad[0].name if bad else '', bad[0].ln if bad else 0), 'no removal / sort between reading and building', r.where())
    ctx.floor(n, 20 if _ONLY[0] is None else 1, 'read implementations')


@rule('C13', 'absent-only-when-empty', configs=('default', 'p256'))
def absent_only_when_empty(ctx):
    """An optional byte string is decoded as absent only when nothing was written for it: a reader compares the length of
    what it has just read with zero (is_empty / len == 0) and with nothing else. A reader that treats short-but-present values
    as absent returns an object that differs from the one serialized — and for an encrypted header drops the authenticated
    (possibly empty) metadata."""
    F = ctx.F
    n = 0
    for (i, w, r, ln) in serializable_impls(F):
        if r is None:
            continue
        name = norm_ty(i['self'])
        for fb in lib.family_ext(F, r.key):
            for cmp_ in lib.comparisons(fb):
                for (x, y) in ((cmp_['a'], cmp_['b']), (cmp_['b'], cmp_['a'])):
                    cx = lib.classify_scalar(fb, x)
                    if cx[0] != 'len':
                        continue
                    sl = backward_slice(fb, [x], follow_mutarg=False)
                    if not sl.has_call(r'bytes_de::read_vec$', r'Deserializer::<?.*read_vec$', r'Deserializer::<?.*read_array') \
                            or sl.has_call(r'Deserializer::<?.*value$'):
                        continue
                    cy = lib.classify_scalar(fb, y)
                    n += 1
                    ctx.check(cy == ('const', 0), name, 'read: value absent <=> empty',
                              'read of %s compares the length of a value it has read with %s (line %d): values that are present but '
                              'short are decoded as absent' % (name, cy[1] if cy[0] == 'const' else 'a computed bound', cmp_['ln']),
                              'len == 0 / is_empty()', fb.where(cmp_['ln']))
    ctx.note('%d length tests on values just read' % n)


def _place_sig(fb, op, limit=8):
    """(root local, field path) of the place an operand refers to, looking through `&place`, reborrows and plain copies;
    None when the operand is not a place or its root has several definitions."""
    if not is_place(op):
        return None
    pl = op_place(op)
    l, path = pl['l'], [x for x in proj_names(pl) if x != '*']
    for _ in range(limit):
        if fb.is_param(l):
            break
        d = lib.single_def(fb, l)
        if d is None or d.kind != 'assign':
            break
        rv = d.rv
        if rv['k'] == 'ref':
            src = rv['pl']
        elif rv['k'] == 'use' and is_place(rv['a']):
            src = op_place(rv['a'])
        else:
            break
        l, path = src['l'], [x for x in proj_names(src) if x != '*'] + path
    return (l, tuple(path))


ITER_CALLS = (r'IntoIterator>::into_iter$', r'::iter$', r'::flat_iter$', r'::iter_mut$')


@rule('C13', 'announced-count-is-the-length-of-what-follows', configs=('default', 'p256'))
def announced_count_of_what_follows(ctx):
    """Writer side of the counted-sequence framing: when `write` announces `X.len()` and then iterates a collection to write its
    elements, the collection it iterates next is X itself. (Announcing the length of one field and writing the elements of
    another gives the same bytes only while the two happen to have the same size — e.g. the markers of the identifier and
    the tracing points of a user key, until `refresh` changes one of them.) Decided only when both places hang off the same
    root (self, or the same loop binding); anything else is left to `agree`."""
    F = ctx.F
    n = 0
    for (i, w, r, ln) in serializable_impls(F):
        if w is None:
            continue
        name = norm_ty(i['self'])
        for fb in F.family(w.key):
            for c in fb.calls():
                if not c.is_(r'Serializer::write_leb128_u64$') or c.b not in fb.live_blocks() or len(c.args) < 2:
                    continue
                sl = backward_slice(fb, [c.args[1]], follow_mutarg=False)
                lens = [x for x in sl.calls if x.is_(r'::len$') and x.args]
                if len(lens) != 1:
                    continue
                s1 = _place_sig(fb, lens[0].args[0])
                if s1 is None:
                    continue
                after = fb.reach(fb.succs[c.b])
                its = [x for x in fb.calls() if x.b in after and x.b in fb.live_blocks() and x.is_(*ITER_CALLS) and x.args
                       and x.ln >= c.ln]
                if not its:
                    continue
                nxt = min(its, key=lambda x: (x.ln, x.b))
                s2 = _place_sig(fb, nxt.args[0])
                if s2 is None or s2[0] != s1[0]:
                    continue
                n += 1
                k = min(len(s1[1]), len(s2[1]))
                # a wrapper's own `len` / `iter` (RevisionMap) and its inner container are the same collection: prefixes agree
                ctx.check(s1[1][:k] == s2[1][:k], name, 'write: count announced = length of the collection written next',
                          'write of %s announces the length of `%s` (line %d) and then writes the elements of `%s` (line %d): the '
                          'reader takes the announced number of elements, so the object is mis-framed as soon as the two sizes differ'
                          % (name, '.'.join(s1[1]) or '_%d' % s1[0], c.ln, '.'.join(s2[1]) or '_%d' % s2[0], nxt.ln),
                          'same place', fb.where(c.ln))
    ctx.floor(n, 4 if _ONLY[0] is None else 0, 'announced counts followed by a loop over the same root')


@rule('C13', 'length-counts-variable-prefixes', configs=('default', 'p256'))
def length_counts_variable_prefixes(ctx):
    """'the serialization has exactly the announced length': a LEB128 prefix is one byte only below 128. When `write` emits a
    prefix whose value is the length of a collection (write_vec of a field, write_leb128_u64 of some `len()`), `length` sizes it with
    `to_leb128_len` (directly or through a helper) instead of assuming one byte."""
    F = ctx.F
    n = 0
    for (i, w, r, ln) in serializable_impls(F):
        if w is None or ln is None:
            continue
        name = norm_ty(i['self'])
        var = []
        for fb in F.family(w.key):
            for c in fb.calls():
                if c.b not in fb.live_blocks():
                    continue
                if c.is_(r'Serializer::write_vec$'):
                    var.append(c)
                elif c.is_(r'Serializer::write_leb128_u64$') and len(c.args) > 1 and is_place(c.args[1]):
                    sl = backward_slice(fb, [c.args[1]], follow_mutarg=False)
                    # a prefix that carries a LENGTH is unbounded; a tag computed from a flag (`u64::from(ek.is_some())`) is not
                    if sl.has_call(r'::len$'):
                        var.append(c)
        if not var:
            continue
        n += 1
        sized = any(c.is_(r'to_leb128_len$') for fb in lib.family_ext(F, ln.key) for c in fb.calls() if c.b in fb.live_blocks())
        ctx.check(sized, name, 'length sizes variable prefixes',
                  'write of %s emits a LEB128 prefix of variable value (line %d) but length never calls to_leb128_len: the announced '
                  'length is short by one byte as soon as the prefixed value reaches 128' % (name, var[0].ln),
                  'to_leb128_len reached from length', ln.where())
    ctx.floor(n, 3 if _ONLY[0] is None else 0, 'writers with variable-value prefixes')


@rule('C13', 'length-sums-every-element', configs=('default', 'p256'))
def length_sums_every_element(ctx):
    """`length` announces what `write` emits for EVERY element of a collection: it sums over the elements; it never multiplies the
    number of elements by the size of one representative unless the element type has a fixed size (chains can mix classic and
    hybridized secrets after a flavour change)."""
    F = ctx.F
    n = 0
    for (i, w, r, ln) in serializable_impls(F):
        if ln is None:
            continue
        name = norm_ty(i['self'])
        n += 1
        bad = []
        for fb in lib.family_ext(F, ln.key):
            for b in sorted(fb.live_blocks()):
                for st in fb.stmts(b):
                    rv = st['rv']
                    if rv['k'] == 'bin' and rv['op'] in ('Mul', 'MulWithOverflow'):
                        sides = [rv['a'], rv['b']]
                        kinds = [lib.classify_scalar(fb, o)[0] for o in sides]
                        if 'len' in kinds:
                            other = sides[1 - kinds.index('len')]
                            osl = backward_slice(fb, [other], follow_mutarg=False) if is_place(other) else None
                            if osl is not None and osl.has_call(r'Serializable::length$', r'::length$'):
                                bad.append(st['ln'])
        ctx.check(not bad, name, 'length sums over the elements',
                  'length of %s multiplies a number of elements by the length of one of them (line %s): wrong as soon as the elements '
                  'differ in size (a chain mixing classic and hybridized secrets)' % (name, bad[:1]), 'sum over elements', ln.where())
    ctx.floor(n, 20 if _ONLY[0] is None else 1, 'length implementations')


CONTAINER_ADD = (r'^std::collections::HashSet::<[^>]*>::insert$', r'^std::collections::HashMap::<[^>]*>::insert$',
                 r'^std::collections::LinkedList::<[^>]*>::push_(back|front)$', r'^std::vec::Vec::<[^>]*>::push$',
                 r'^std::collections::VecDeque::<[^>]*>::push_(back|front)$', r'data_struct::.*::(insert|insert_new_chain|push)$')


@rule('C13', 'read-loop-keeps-every-element', configs=('default', 'p256'))
def read_loop_keeps_every_element(ctx):
    """A reader that loops `for _ in 0..n { let x = read()?; container.insert(x) }` stores every element it reads: inside the
    loop, no path leads from the read back to the loop head without passing the insertion (errors leave the function). An
    insertion made conditional on the element's content silently drops well-formed data (identifiers issued under an earlier
    tracing level, say) when a key is reloaded."""
    from .c01 import own_loop
    F = ctx.F
    n = 0
    for (i, w, r, ln) in serializable_impls(F):
        if r is None:
            continue
        name = norm_ty(i['self'])
        for fb in lib.family_ext(F, r.key):
            depth, dom = loop_depths(fb)
            for c in fb.calls(r'^std::iter::Iterator::next$'):
                if 'std::ops::Range' not in (c.self_ty or '') or depth.get(c.b, 0) == 0:
                    continue
                L = own_loop(fb, c.b, dom)
                adds = [x for x in fb.calls(*CONTAINER_ADD) if x.b in L]
                if not adds:
                    continue
                t_ = fb.term(c.target) if c.target is not None else None
                some_t = [bb for v, bb in t_['cases'] if v == 1] if t_ and t_['k'] == 'switch' else []
                if not some_t:
                    continue
                n += 1
                # inside this loop only: leaving it (an error exit, the end of an enclosing iteration) is not a next iteration
                rr = fb.reach(some_t[0], avoid_blocks=[x.b for x in adds] + [b2 for b2 in range(fb.n) if b2 not in L])
                ctx.check(c.b not in rr, name, 'read: every element read is stored',
                          'in read of %s the loop at line %d can go on to its next iteration without storing the element it has just '
                          'read (the insertion at line %d is conditional): well-formed elements are dropped on reload'
                          % (name, c.ln, adds[0].ln), 'the insertion is on every path through the loop body', fb.where(c.ln))
    ctx.note('%d reading loops with an insertion' % n)


def _chain_nonempty(F, fb, op, depth=0):
    """Can the LinkedList held by operand `op` at its use be shown non-empty?  (ok, why-not)"""
    if depth > 4 or not is_place(op):
        return False, 'not a place'
    srcs = copy_chain_sources(fb, op, through_calls=(r'^std::clone::Clone::clone$', r'^std::ops::Try::branch$') + tuple(IDENTITY_CALLS))
    if not srcs:
        return False, 'unknown origin'
    for s in srcs:
        if s[0] == 'param':
            # a chain that already sits in a key (moved or cloned along): non-empty by the invariant this rule maintains
            continue
        if s[0] != 'call':
            return False, 'built from %s' % s[0]
        c = s[1]
        if c.is_(r'^std::convert::From::from$', r'^std::iter::FromIterator::from_iter$') and c.args:
            ty = c.body.local_ty(op_local(c.args[0])) if is_place(c.args[0]) else ''
            m = re.match(r'^\[.*; (\d+)\]$', ty)
            if m and int(m.group(1)) >= 1:
                continue
            return False, 'built by %s from a value of type `%s`, which may be empty' % (c.name, ty[:60])
        if c.is_(r'LinkedList::<[^>]*>::new$', r'^std::default::Default::default$'):
            root = c.dest['l']
            body = c.body
            pushes = []
            for p in body.calls(r'LinkedList::<[^>]*>::(push_back|push_front)$'):
                if p.args and is_place(p.args[0]):
                    for r in copy_chain_sources(body, p.args[0], through_calls=tuple(IDENTITY_CALLS)):
                        if (r[0] == 'call' and r[1] is c) or (r[0] == 'local' and r[1] == root):
                            pushes.append(p)
                    l, d = lib.resolve_copy(body, op_local(p.args[0]))
                    if d is not None and d.kind == 'assign' and d.rv['k'] == 'ref' and d.rv['pl']['l'] == root and p not in pushes:
                        pushes.append(p)
            # where the chain is used
            use_blocks = [b for b in sorted(body.live_blocks()) for st in body.stmts(b)
                          if st['rv']['k'] == 'use' and is_place(st['rv']['a']) and op_place(st['rv']['a']) == {'l': root, 'p': []}
                          and 'mv' in st['rv']['a']]
            if not use_blocks:
                use_blocks = body.return_blocks()
            ok_all = True
            for ub in use_blocks:
                if any(body.block_dominates(p.b, ub) for p in pushes):
                    continue
                # filled by a loop over a master chain (non-empty), every non-leaving iteration of which pushes
                filled = False
                for nx in body.calls(r'^std::iter::Iterator::next$'):
                    if flags.PAIR_TY not in (nx.self_ty or '') + nx.full:
                        continue
                    inloop = [p for p in pushes if nx.b in body.reach(p.b) and p.b in body.reach(nx.b)]
                    if not inloop:
                        continue
                    somes = [t for (sb, t) in lib.present_edges(body, nx)]
                    if somes and all(nx.b not in body.reach(s_, avoid_blocks=tuple(p.b for p in inloop)) for s_ in somes):
                        filled = True
                if not filled:
                    ok_all = False
            if ok_all:
                continue
            return False, 'starts empty (LinkedList::new) and can reach its use without a push'
        # an element / chain taken out of an existing container
        if c.is_(r'^std::iter::Iterator::next$', r'RevisionMap::<K, V>::(get|remove)$', r'RevisionVec::<K, T>::', r'^std::option::Option::<T>::unwrap'):
            continue
        return False, 'returned by %s' % c.name
    return True, ''


@rule('C13', 'chains-never-empty', configs=('default', 'p256'))
def chains_never_empty(ctx):
    """'deserialization gives back an equal object': the reader of a user key drops a right whose chain is empty
    (`insert_new_chain`), and `sign` / the merge of `refresh` treat an empty chain as no right at all — so no user key that the
    API hands out may hold an empty chain. Wherever chains are collected straight into a `RevisionVec` (the
    `FromIterator<(K, LinkedList<T>)>` form, which does not filter), each chain is shown non-empty: it received a push on every
    path, was filled by a loop over a master chain, was built from a non-empty array, or was taken as it is from a key."""
    from .. import flags as _f
    F = ctx.F
    n = 0
    for fb in F.fns() + [b for b in F.bodies.values() if b.kind == 'Closure']:
        root = fb.root or fb.key
        if root.startswith('data_struct::') or '::tests::' in root or root.startswith('test_utils'):
            continue
        for st_b in sorted(fb.live_blocks()):
            for st in fb.stmts(st_b):
                rv = st['rv']
                if rv['k'] != 'agg' or not rv.get('tuple') or len(rv['ops']) != 2:
                    continue
                o1 = rv['ops'][1]
                if not is_place(o1) or not fb.local_ty(op_local(o1)).startswith('std::collections::LinkedList<core::RightSecretKey'):
                    continue
                if 'Right' not in fb.local_ty(op_local(rv['ops'][0])) if is_place(rv['ops'][0]) else True:
                    continue
                n += 1
                ok, why = _chain_nonempty(F, fb, o1)
                ctx.check(ok, root, 'chain paired with a right is non-empty',
                          '%s pairs a right with a chain of secrets that may be EMPTY (%s; line %d): such a key serializes a right '
                          'that the reader drops — the deserialized key is a different key (other length, other signature input), and '
                          'the right it "holds" opens nothing' % (fb.key, why, st['ln']), 'a push on every path / a non-empty source',
                          fb.where(st['ln']))
    ctx.floor(n, 2, '(right, chain) pairs built outside the container module')


ARITH = ('Add', 'Sub', 'Mul', 'Div', 'Rem', 'Shl', 'Shr', 'AddWithOverflow', 'SubWithOverflow', 'MulWithOverflow')


@rule('C13', 'length-guard-admits-what-was-written', configs=('default', 'p256'))
def length_guard_admits_what_was_written(ctx):
    """'deserialization gives back an equal object': the crate's own reader of length-prefixed byte vectors (`bytes_de::read_vec`)
    refuses an input only when the announced length exceeds the bytes that remain. The bound it compares the announced length with
    is the length of the remaining input — taken as it is, or less the width of the prefix OF THE ANNOUNCED LENGTH — and nothing
    else: any other arithmetic on the bound (the width of some other number, a constant) rejects vectors the writer legitimately
    produced (a 127-byte metadata field at the end of a header, say)."""
    F = ctx.F
    key = 'bytes_de::read_vec'
    if key not in F:
        ctx.bad('-', 'anchor-missing:bytes_de::read_vec', 'the length-checked vector reader is gone')
        return
    body = F.fn(key)
    n = 0
    for e in lib.error_exits(body):
        if e.kind != 'explicit':
            continue
        for sb in sorted(body.live_blocks()):
            t = body.term(sb)
            if t['k'] != 'switch' or len(set(body.succs[sb])) < 2 or e.b not in body.reach(sb):
                continue
            if not any(body.edge_dominates((sb, s), e.b) for s in set(body.succs[sb])):
                continue
            n += 1
            sl = backward_slice(body, [t['d']], follow_mutarg=False)
            bad = []
            for d in sl.rvs:
                if d.kind != 'assign' or d.rv['k'] != 'bin' or d.rv['op'] not in ARITH:
                    continue
                ok = False
                if d.rv['op'].startswith('Sub'):
                    s2 = backward_slice(body, [d.rv['b']], follow_mutarg=False)
                    wl = [c for c in s2.calls if c.is_(r'to_leb128_len$')]
                    ok = bool(wl) and all(backward_slice(body, [c.args[0]], follow_mutarg=False).has_call(r'read_leb128_u64$') for c in wl)
                if not ok:
                    bad.append('%s (line %d)' % (d.rv['op'], body.stmts(d.b)[d.i]['ln']))
            ctx.check(not bad, key, 'announced length compared with the remaining bytes themselves',
                      'read_vec rejects an input on a bound that is not the number of remaining bytes (arithmetic on the way: %s): '
                      'some vectors the writer produced are refused, and the object they belong to no longer deserializes' % bad[:2],
                      'remaining.len() [- to_leb128_len(announced)] < announced', body.where(e.ln))
    ctx.floor(n, 1, 'length guards of bytes_de::read_vec')


@rule('C13', 'deserialized-registry-behaves-like-the-original', configs=('default', 'p256'))
def deserialized_registry_behaves_like_the_original(ctx):
    """'using the deserialized object instead of the original ... changes no later outcome' / 'objects serialized by the pinned
    release keep deserializing to working objects': the registry of user identifiers is a set — membership, insertion and removal do
    not depend on the order in which the identifiers arrived from the wire (C17.registered: is_known = users.contains, add_user
    inserts, the set is written by the listed functions only)."""
    from . import c17
    c17.registered(ctx)
