"""C06 — disabled attributes can never be encrypted to again, but stay decryptable."""
import re

from ..engine import prop, rule
from ..facts import (op_local, op_place, is_place, backward_slice, copy_chain_sources, IDENTITY_CALLS,
                     bool_edges, proj_names)
from .. import lib, flags, fin
from .c02 import field_writers, root_descr
from .c18 import activation_tests

prop('C06',
     explanation=(
         'Inductive invariant I: after the update that follows a disable, the activation flag of the newest secret '
         'of every right involving the disabled attribute is false, and the public key contains a right only if '
         'that flag is true. All obligations are structural: mutators — MasterSecretKey.secrets is mutated only by '
         'update_msk, rekey, prune, read and setup; flag-provenance — every activation flag stored in the master '
         'key is `EncryptDecrypt == status` of the same right (update), a copy of the flag at the front of the same '
         'right\'s chain (rekey), or deserializer input (read); a constant is a violation. status-monotone — '
         'Attribute.write_status is written only by Attribute::new (EncryptDecrypt), disable_attribute (DecryptOnly) '
         'and read; AttributeStatus::bitor yields DecryptOnly iff either operand is; From<AttributeStatus> for bool '
         'maps EncryptDecrypt to true (E-FIN truth tables); combine folds statuses with bitor. publish-guard — in '
         'mpk every cpk() is dominated by the true edge of the flag read at front(); cpk is called from mpk only; '
         'MasterPublicKey.encryption_keys is written only by mpk and read. decrypt-kept — update_msk touches '
         'msk.secrets only through retain(rights.contains_key), get_latest_mut and insert.'),
     not_decided='that earlier encapsulations still decrypt (cryptographic): only that nothing removes the '
                 'secrets that would open them',
     assumptions=['LinkedList::front is the newest secret (C04.orientation)', 'derived PartialEq on field-less enums'])

MSK = 'core::MasterSecretKey'
MUTATORS = {
    'core::primitives::update_msk': 'reconciles the key with the structure',
    'core::primitives::rekey': 'prepends fresh secrets',
    'core::primitives::prune': 'truncates chains',
    'core::primitives::setup': 'creates an empty key',
    'core::serialization::<impl cosmian_crypto_core::bytes_ser_de::Serializable for core::MasterSecretKey>::read': 'deserialisation',
}


@rule('C06', 'mutators', configs=('default', 'p256'))
def mutators(ctx):
    F = ctx.F
    ws = field_writers(F, MSK, 'secrets')
    seen = set()
    for (body, ln, kind, op) in ws:
        root = body.root or body.key
        if (root, kind) in seen:
            continue
        seen.add((root, kind))
        ctx.check(lib.role_owner(F, root, MUTATORS) is not None, root, 'mutates MasterSecretKey.secrets (%s)' % kind.split(':')[0],
                  '%s mutates the master secrets (%s, line %d) but is not one of the mutators whose flag discipline '
                  'is discharged (%s)' % (body.key, kind, ln, ', '.join(k.split('::')[-1] for k in MUTATORS)),
                  MUTATORS.get(lib.role_owner(F, root, MUTATORS), ''), body.where(ln))
    # the inner map is pub(crate): direct users of RevisionMap.map on a master key
    for body in F.fns():
        if body.key.startswith('data_struct::revision_map::'):
            continue
        for b in sorted(body.live_blocks()):
            for st in body.stmts(b):
                rv = st['rv']
                if rv['k'] == 'ref' and rv['mut']:
                    names = proj_names(rv['pl'])
                    if 'map' in names and 'secrets' in names:
                        root = body.root or body.key
                        ctx.check(lib.role_owner(F, root, MUTATORS) is not None, root, 'mutates MasterSecretKey.secrets.map',
                                  '%s takes `&mut msk.secrets.map` (line %d)' % (body.key, st['ln']),
                                  MUTATORS.get(root, ''), body.where(st['ln']))
    ctx.floor(len(seen), 4, 'mutators of MasterSecretKey.secrets')


def classify_flag_value(F, body, op, key_roots):
    """('status-eq'|'head-copy'|'wire'|'const'|'unknown', detail)"""
    if 'c' in op:
        return 'const', op['c'].get('s')
    l = op_local(op)
    cur, d = lib.resolve_copy(body, l)
    if d is None:
        ds = [x for x in body.defs().get(cur, []) if x.kind == 'assign']
        if ds and all(x.rv['k'] == 'use' and 'c' in x.rv['a'] for x in ds):
            return 'const', ds[0].rv['a']['c'].get('s')
        return 'unknown', 'no single definition'
    if d.kind == 'assign' and d.rv['k'] == 'use' and 'c' in d.rv['a']:
        return 'const', d.rv['a']['c'].get('s')
    if d.kind == 'call':
        c = d.call
        if c.is_(r'^std::cmp::PartialEq::(eq|ne)$') and 'AttributeStatus' in (c.self_ty or ''):
            ks = [lib.enum_const(F, body, a) for a in c.args]
            if ks.count(None) == 1:
                k = [x for x in ks if x is not None][0]
                good = (k == 'EncryptDecrypt' and c.name == 'eq') or (k == 'DecryptOnly' and c.name == 'ne')
                return ('status-eq' if good else 'status-inverted'), '%s %s status' % (k, c.name)
            return 'unknown', 'status comparison without a constant side'
        if c.is_(r'^std::convert::(Into::into|From::from)$') and 'AttributeStatus' in c.full:
            return 'status-eq', 'bool::from(status)'
    if d.kind == 'assign' and d.rv['k'] in ('use', 'ref'):
        pl = op_place(d.rv['a']) if d.rv['k'] == 'use' else d.rv['pl']
        if pl is not None:
            pl = body.through_ref(pl)
        if pl is not None and flags.is_flag_place(body, pl):
            kind, hc = flags.classify_pair_origin(F, body, pl['l'])
            if kind == 'head':
                # same right?
                if key_roots is not None and hc is not None and len(hc.args) > 1:
                    if not (lib.roots_of(hc.body, hc.args[1]) & key_roots) and hc.body is body:
                        return 'head-copy-other-right', 'flag copied from the head of another right\'s chain'
                return 'head-copy', 'copy of the flag at %s' % hc.name
            return 'copy-of-' + kind, 'flag copied from a pair that is not the chain head'
    # the flag travelled in a tuple / Option (`get_latest(r).map(|(a, k)| (*a, ..))`): follow the field it sits in
    srcs = copy_chain_sources(body, op, through_calls=(r'^std::ops::Try::branch$',) + tuple(IDENTITY_CALLS))
    if srcs and all(s[0] == 'call' and s[1].is_(r'RevisionMap::<K, V>::get_latest$', r'LinkedList::<[^>]*>::front$')
                    and flags.PAIR_TY in s[1].full and [x for x in s[2] if not str(x).startswith('@')][-1:] == ['0'] for s in srcs):
        hc = srcs[0][1]
        if key_roots is not None and len(hc.args) > 1 and hc.body is body and not (lib.roots_of(hc.body, hc.args[1]) & key_roots):
            return 'head-copy-other-right', 'flag copied from the head of another right\'s chain'
        return 'head-copy', 'copy of the flag at %s' % hc.name
    sl = backward_slice(body, [op], follow_mutarg=False)
    if sl.has_call(*flags.DESER):
        return 'wire', 'deserializer input'
    return 'unknown', 'unrecognised provenance'


@rule('C06', 'flag-provenance', configs=('default', 'p256'))
def flag_provenance(ctx):
    F = ctx.F
    n = 0
    ACCEPT = {'status-eq', 'head-copy', 'wire'}
    for (body, b, ln, flag_op, lhs_l) in flags.pair_constructions(F):
        root = body.root or body.key
        # the key under which the pair is inserted
        key_roots = None
        for c in body.calls(r'RevisionMap::<K, V>::insert$'):
            if len(c.args) == 3 and lhs_l in [op_local(c.args[2])] + [
                    lib.resolve_copy(body, op_local(c.args[2]))[0] if is_place(c.args[2]) else None]:
                key_roots = lib.roots_of(body, c.args[1])
        kind, detail = classify_flag_value(F, body, flag_op, key_roots)
        n += 1
        ctx.check(kind in ACCEPT, root, 'flag-provenance(new pair):%s' % kind,
                  'the activation flag of a secret stored in the master key (line %d) is %s (%s); it must be '
                  '`EncryptDecrypt == status` of the right, a copy of the flag at the front of the same right\'s chain, '
                  'or deserializer input — otherwise a disabled right is published again' % (ln, kind, detail),
                  detail, body.where(ln))
    for (body, b, ln, rv, base) in flags.flag_writes(F):
        root = body.root or body.key
        if rv['k'] != 'use':
            kind, detail = 'unknown', rv['k']
        else:
            kind, detail = classify_flag_value(F, body, rv['a'], None)
        n += 1
        okpos, hc = flags.classify_pair_origin(F, body, base)
        ctx.check(kind in ACCEPT and okpos == 'head', root, 'flag-provenance(update):%s@%s' % (kind, okpos),
                  'the activation flag is overwritten (line %d) with a value that is %s (%s) on a pair obtained from %s'
                  % (ln, kind, detail, okpos), '%s, written at the chain head' % detail, body.where(ln))
    ctx.floor(n, 4, 'stored activation flags (constructions and updates)')


@rule('C06', 'status-monotone', configs=('default',))
def status_monotone(ctx):
    F = ctx.F
    ATTR = 'abe_policy::dimension::Attribute'
    allowed = {
        'abe_policy::dimension::Attribute::new': 'EncryptDecrypt',
        'abe_policy::dimension::Dimension::disable_attribute': 'DecryptOnly',
        'abe_policy::dimension::serialization::<impl cosmian_crypto_core::bytes_ser_de::Serializable for abe_policy::dimension::Attribute>::read': None,
        '<abe_policy::dimension::Attribute as std::clone::Clone>::clone': None,
    }
    n = 0
    for (body, ln, kind, op) in field_writers(F, ATTR, 'write_status'):
        root = body.root or body.key
        n += 1
        if 'serde' in body.key and 'Deserialize' in body.key:
            ctx.ok(root, 'writes Attribute.write_status (serde derive)', 'deserialisation', body.where(ln))
            continue
        if root not in allowed:
            ctx.bad(root, 'writes Attribute.write_status', '%s writes the status of an attribute (line %d): only '
                    'Attribute::new, disable_attribute and read may, and none may set it back' % (body.key, ln),
                    body.where(ln))
            continue
        want = allowed[root]
        if want is not None:
            got = lib.enum_const(F, body, op) if op is not None else None
            ctx.check(got == want, root, 'write_status := %s' % want,
                      '%s stores %s into write_status (line %d), expected the constant %s' % (body.key, got, ln, want),
                      'constant %s' % want, body.where(ln))
        else:
            ctx.ok(root, 'writes Attribute.write_status', 'copy / deserialisation', body.where(ln))
    ctx.floor(n, 4, 'writers of Attribute.write_status')
    # truth tables
    ST = 'abe_policy::attribute::AttributeStatus'
    dom = fin.enum_domain(F, ST)
    bo = F.fn('<abe_policy::attribute::AttributeStatus as std::ops::BitOr>::bitor')
    try:
        tt = fin.truth_table(F, bo, [dom, dom])
        for (a, b), r in sorted(tt.items(), key=str):
            want = 'DecryptOnly' if 'DecryptOnly' in (a.v, b.v) else 'EncryptDecrypt'
            ctx.check(r.k == 'enum' and r.v == want, bo.key, 'bitor(%s,%s)' % (a.v, b.v),
                      'AttributeStatus::bitor(%s, %s) = %s, expected %s (a right is decrypt-only iff one of its '
                      'attributes is)' % (a.v, b.v, r.v, want), '= %s' % want, bo.where())
    except fin.NotEvaluable as e:
        ctx.bad(bo.key, 'truth-table', 'cannot evaluate AttributeStatus::bitor over its finite domain: %s' % e)
    fb = [b for b in F.fns() if b.name == 'from' and b.impl_trait == 'std::convert::From'
          and b.impl_self == 'bool' and 'AttributeStatus' in b.locals[1]['ty']]
    ctx.floor(len(fb), 1, 'From<AttributeStatus> for bool')
    for body in fb:
        try:
            tt = fin.truth_table(F, body, [dom])
            for (a,), r in sorted(tt.items(), key=str):
                want = (a.v == 'EncryptDecrypt')
                ctx.check(r.k == 'bool' and r.v == want, body.key, 'bool::from(%s)' % a.v,
                          'bool::from(%s) = %s, expected %s' % (a.v, r.v, want), '= %s' % want, body.where())
        except fin.NotEvaluable as e:
            ctx.bad(body.key, 'truth-table', 'cannot evaluate: %s' % e)
    # combine folds the statuses with bitor, for every component it appends
    cb = F.fn('abe_policy::access_structure::combine')
    ors = [c for c in cb.calls(r'^std::ops::BitOr::bitor$') if 'AttributeStatus' in (c.self_ty or '')]
    gs = cb.calls(r'Attribute::get_status$')
    ok = bool(ors) and bool(gs) and all(
        any(x is g for o in ors for x in backward_slice(cb, o.args, follow_mutarg=False).calls) for g in gs)
    ctx.check(ok, cb.key, 'status-fold', 'combine does not fold the status of every appended attribute with '
              'AttributeStatus::bitor', 'is_activated | component.get_status()', cb.where())


@rule('C06', 'publish-guard', configs=('default', 'p256'))
def publish_guard(ctx):
    F = ctx.F
    fam = lib.reach_bodies(F, 'core::MasterSecretKey::mpk')
    n = 0
    for body in fam:
        for c in body.calls(r'RightSecretKey::cpk$'):
            n += 1
            tests = activation_tests(F, body)
            ok = False
            why = 'no activation test dominates it'
            for (tb, te) in tests:
                if te is None or not body.edge_dominates(te, c.b):
                    continue
                t = body.term(tb)
                l = op_local(t['d'])
                sl_calls = lib.deep_calls(F, body, [l])
                if any(x.is_(*flags.HEAD) for x in sl_calls) and not any(flags.chain_iteration_call(x) for x in sl_calls):
                    # the published secret is the one the flag belongs to
                    ok = True
                else:
                    why = 'the tested flag is not read at the front of the chain'
            if not ok and body.kind == 'Closure':
                # `flag.then(|| .. cpk ..)`: the closure runs iff the flag is true
                for (pb, cc, idx) in lib.closure_consumers(F, body):
                    if cc.is_(r'^core::bool::<impl bool>::then$|bool>::then$') and cc.args:
                        fl = cc.args[0]
                        pl = None
                        cur, d = lib.resolve_copy(pb, op_local(fl)) if is_place(fl) else (None, None)
                        if d is not None and d.kind == 'assign' and d.rv['k'] == 'use' and is_place(d.rv['a']):
                            pl = pb.through_ref(op_place(d.rv['a']))
                        if pl is not None and flags.is_flag_place(pb, pl):
                            kind, hc = flags.classify_pair_origin(F, pb, pl['l'])
                            if kind == 'head':
                                ok = True
                            else:
                                why = 'the tested flag is not read at the front of the chain'
            if not ok and body.kind == 'Closure':
                # `chain.front().filter(|(flag, _)| *flag).map(|(_, sk)| .. cpk ..)`: the closure runs iff the predicate held
                for (pb, cc, idx) in lib.closure_consumers(F, body):
                    if not (cc.is_(r'^std::option::Option::<T>::(map|and_then)$') and cc.args and is_place(cc.args[0])):
                        continue
                    _l, d = lib.resolve_copy(pb, op_local(cc.args[0]))
                    if d is None or d.kind != 'call' or not d.call.is_(r'^std::option::Option::<T>::filter$'):
                        continue
                    fc = d.call
                    heads = [x for x in lib.deep_calls(F, pb, [op_local(fc.args[0])]) if x.is_(*flags.HEAD)]
                    iters = [x for x in lib.deep_calls(F, pb, [op_local(fc.args[0])]) if flags.chain_iteration_call(x)]
                    for (_i, pcb, _rv) in lib.closure_args(F, fc):
                        srcs = copy_chain_sources(pcb, {'cp': {'l': 0, 'p': []}}, through_calls=tuple(IDENTITY_CALLS))
                        is_flag = bool(srcs) and all(s[0] == 'param' and s[1] == 2 and
                                                     [x for x in s[2] if x != '*' and not str(x).startswith('@')][-1:] == ['0'] for s in srcs)
                        if is_flag and heads and not iters:
                            ok = True
                        elif is_flag:
                            why = 'the tested flag is not read at the front of the chain'
            ctx.check(ok, body.root or body.key, 'cpk<=front-flag',
                      'a right public key is derived (cpk, line %d) but %s: deactivated rights would be published'
                      % (c.ln, why), 'dominated by the true edge of front().0', c.where())
    ctx.floor(n, 1, 'cpk call sites in mpk')
    # who may call cpk / who may write encryption_keys
    callers = set()
    for body in F.fns():
        if body.calls(r'RightSecretKey::cpk$'):
            callers.add(body.root or body.key)
    ctx.check(bool(callers) and all(lib.only_reached_via(F, k, 'core::MasterSecretKey::mpk') for k in callers),
              'core::RightSecretKey::cpk', 'who-may-call',
              'cpk is called from %s; only MasterSecretKey::mpk (which tests the activation flag) may derive public '
              'keys from master secrets' % sorted(callers), 'only mpk', '')
    allowed = {'core::MasterSecretKey::mpk',
               'core::serialization::<impl cosmian_crypto_core::bytes_ser_de::Serializable for core::MasterPublicKey>::read'}
    for (body, ln, kind, op) in field_writers(F, 'core::MasterPublicKey', 'encryption_keys'):
        root = body.root or body.key
        ctx.check(root in allowed or lib.only_reached_via(F, root, 'core::MasterSecretKey::mpk'), root, 'writes MasterPublicKey.encryption_keys',
                  '%s writes the published keys (line %d); only mpk and read may' % (body.key, ln), '', body.where(ln))


@rule('C06', 'decrypt-kept', configs=('default', 'p256'))
def decrypt_kept(ctx):
    F = ctx.F
    fam = F.family('core::primitives::update_msk')
    ALLOWED = {'retain', 'get_latest_mut', 'insert', 'contains_key', 'get_latest', 'get', 'len', 'iter', 'keys'}
    n = 0
    for body in fam:
        for c in body.calls():
            if not c.args:
                continue
            roots = [r for r in root_descr(body, c.args[0]) if r[0] == 'param']
            if not any(r[2] and r[2][-1] == 'secrets' for r in roots):
                continue
            n += 1
            ctx.check(c.name in ALLOWED, 'core::primitives::update_msk', 'msk.secrets.%s' % c.name,
                      'update_msk applies `%s` to the master secrets (line %d): secrets of rights that stay in the '
                      'universe must be kept (only retain / get_latest_mut / insert are discharged)' % (c.name, c.ln),
                      'allowed', c.where())
            if c.name == 'retain':
                ok = False
                for (_i, cb, _rv) in lib.closure_args(F, c):
                    for cc in cb.calls(r'HashMap::<[^>]*>::contains_key$'):
                        calls = lib.deep_calls(F, cb, [cc.args[0]])
                        sl = backward_slice(cb, [cc.args[0]], follow_mutarg=False)
                        f = [lib.env_field_of(p) for p in sl.places]
                        for fi in [x for x in f if x is not None]:
                            pb, op = lib.upvar_operand(F, cb, fi)
                            if pb is not None and any(r[0] == 'param' and 'AttributeStatus' in pb.local_ty(r[1]) and 'HashMap<' in pb.local_ty(r[1])
                                                      for r in root_descr(pb, op)):
                                ok = True
                ctx.check(ok, 'core::primitives::update_msk', 'retain(rights.contains_key)',
                          'the retain predicate (line %d) is not membership in the given right universe' % c.ln,
                          'predicate = rights.contains_key(r)', c.where())
    ctx.floor(n, 3, 'operations of update_msk on msk.secrets')


@rule('C06', 'witness-private', tier='thorough')
def witness_private(ctx):
    from .. import witness
    witness.check(ctx, ['MasterKeyRepresentationIsPrivate', 'PublicKeyRepresentationIsPrivate'])


@rule('C06', 'wire', configs=('default', 'p256'))
def wire(ctx):
    """'...including after serialization': the status of an attribute and the activation flag of every
    secret round-trip (C13 rules restricted to the objects that carry them)."""
    from . import c13
    c13.restricted(ctx, r'(dimension::Attribute|dimension::Dimension|AccessStructure|core::MasterSecretKey|core::RightSecretKey)$',
                   [c13.agree, c13.fields, c13.order, c13.enum_codec_inverse])


FLAG_READERS = {
    'core::MasterSecretKey::mpk': 'decides what is published',
    'core::primitives::full_decaps': 'the master key only re-opens rights it can still publish',
    'core::primitives::rekey': 'copies the flag of the current newest secret to the new one',
    'core::serialization::<impl cosmian_crypto_core::bytes_ser_de::Serializable for core::MasterSecretKey>::write': 'wire',
    'core::serialization::<impl cosmian_crypto_core::bytes_ser_de::Serializable for core::MasterSecretKey>::length': 'wire',
}


def check_flag_readers(ctx, F):
    """Who may read the activation flag.  Deactivation only stops *publication*: key generation, refresh, pruning and
    decapsulation must not look at the flag, otherwise disabled attributes stop being decryptable / refreshable or
    unrelated keys silently lose rights."""
    seen = set()
    n = 0
    for (body, b, ln, base) in flags.flag_reads(F):
        root = body.root or body.key
        n += 1
        if root in seen:
            continue
        seen.add(root)
        okr = root in FLAG_READERS or any(lib.only_reached_via(F, root, k) for k in ('core::MasterSecretKey::mpk', 'core::primitives::full_decaps', 'core::primitives::rekey'))
        if root.startswith('<') and ('PartialEq' in root or 'Debug' in root or 'Clone' in root):
            okr = True
        ctx.check(okr, root, 'reads the activation flag',
                  '%s reads the activation flag of a master secret (line %d): only publication (mpk), re-encapsulation (full_decaps), '
                  'rekey (to carry it over) and serialisation may; key generation, refresh and prune must treat deactivated rights '
                  'like any other so that they stay decryptable and refreshable' % (body.key, ln), FLAG_READERS.get(root, 'helper of mpk / full_decaps'),
                  body.where(ln))
    ctx.floor(n, 3, 'reads of the activation flag')


@rule('C06', 'disable-total')
def disable_total(ctx):
    """Disabling takes effect for every attribute of every dimension kind: Dimension::disable_attribute cannot return Ok
    without having written the status (C03.disable-only-status, path part)."""
    from . import c03
    c03.disable_total(ctx)


@rule('C06', 'flag-readers', configs=('default', 'p256'))
def flag_readers(ctx):
    check_flag_readers(ctx, ctx.F)


@rule('C06', 'chain-orientation')
def chain_orientation(ctx):
    """The flag written by update_msk through get_latest_mut and the flag read by mpk through front() are the same
    element only if both are the head of the chain (C04.orientation)."""
    from . import c04
    c04.orientation(ctx)


@rule('C06', 'disable-hits-the-named-attribute')
def disable_hits_the_named_attribute(ctx):
    """disable_attribute(SEC::MID) must disable SEC::MID: the name is resolved through the ordered dictionary of the dimension,
    whose hidden index map every removal keeps consistent (C03.dict-remove-shifts) — with a stale index the call succeeds,
    marks the neighbouring attribute decrypt-only and leaves the named one encryptable."""
    from . import c03
    c03.dict_remove_shifts(ctx)


@rule('C06', 'rename-keeps-status')
def rename_keeps_status(ctx):
    """Renaming a disabled attribute does not re-enable it: rename moves the very Attribute value under the new name (anarchy:
    insert(new, remove(old)); hierarchy: Dict::update_key) instead of re-creating it, which would reset its status
    (C03.rename-keeps-id)."""
    from . import c03
    c03.rename_keeps_id(ctx)


@rule('C06', 'every-targeted-right-needs-a-public-key', configs=('default', 'p256'))
def every_targeted_right_needs_a_public_key(ctx):
    """'no public key ... allows encapsulating for a policy involving that attribute': the rights of a disabled attribute are absent
    from every public key, and encapsulation refuses a target set as soon as ONE of its rights has no public key. In
    `select_subkeys` the lookup of each targeted right turns a miss into an error that leaves the function — it is not filtered
    away (a policy `FIN || MKG` with FIN disabled would otherwise quietly encapsulate for MKG alone)."""
    F = ctx.F
    key = 'core::MasterPublicKey::select_subkeys'
    n = 0
    for fb in lib.family_ext(F, key):
        for g in fb.calls(r'^std::collections::HashMap::<[^>]*>::get$', r'^std::collections::HashMap::<[^>]*>::get_key_value$'):
            if 'RightPublicKey' not in g.full:
                continue
            n += 1
            ok, why = lib.absence_is_an_error(F, fb, g)
            ctx.check(ok, key, 'a targeted right without public key is an error',
                      'select_subkeys looks a targeted right up in the public key, but %s: encapsulation goes ahead for the rights that '
                      'remain, and a policy involving a disabled attribute is accepted' % why, 'get(r).ok_or(..)? for every right',
                      fb.where(g.ln))
    ctx.floor(n, 1, 'public-key lookups in select_subkeys')


@rule('C06', 'every-revision-walked')
def every_revision_walked(ctx):
    """'user keys keep opening the encapsulations made before': the old secrets a key keeps are tried by decapsulation whatever
    the lengths of its other chains (C04.iter: the revision iterator does not stop at the first exhausted chain)."""
    from . import c04
    c04.iter_rule(ctx)
