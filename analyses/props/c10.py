"""C10 — failed operations leave keys untouched (E-ATOM: may-write-before-error)."""
import re

from ..engine import prop, rule
from ..facts import op_local, is_place, backward_slice
from .. import lib
from .. import libtable as T

prop('C10',
     explanation=(
         'E-ATOM failure atomicity. For every crate function that takes a crate-local object by `&mut` and '
         'returns Result, a forward may-analysis finds every statement that may write memory reachable from '
         'that parameter (assignment through a derived handle, mem::take/replace/swap, mutating std call, '
         'crate-local callee whose summary writes, closure that writes) and every feasible error exit '
         '(explicit Err, `?`, tail-returned Result; sources in the infallible-in-practice table and derived '
         'infallible crate functions are excluded). A violation is a CFG path write -> error exit, loops '
         'included (write in iteration i, error in iteration i+1). Decides the structural fact "nothing was '
         'written before any failure", which implies byte-identical serialisations after a failed call.'),
     not_decided='panics (unwinding) between a write and the commit; byte equality itself is implied, not measured',
     assumptions=['libtable.INFALLIBLE entries are unreachable error sources',
                  'libtable.NONWRITING callees do not mutate their referent',
                  'no interior mutability in key types (C19.state-audit)'])

KEY_OWNER = re.compile(r'^&mut (core::|abe_policy::|data_struct::|encrypted_header::|api::)')

# functions the property names (floor): primitives, API wrappers, tracing-key methods, structure edits
EXPECTED = [
    'core::primitives::update_msk', 'core::primitives::rekey', 'core::primitives::refresh',
    'core::primitives::usk_keygen',
    'api::Covercrypt::update_msk', 'api::Covercrypt::rekey', 'api::Covercrypt::prune_master_secret_key',
    'api::Covercrypt::generate_user_secret_key', 'api::Covercrypt::refresh_usk',
    'core::TracingSecretKey::generate_user_id', 'core::TracingSecretKey::refresh_id',
    'abe_policy::access_structure::AccessStructure::add_anarchy',
    'abe_policy::access_structure::AccessStructure::add_hierarchy',
    'abe_policy::access_structure::AccessStructure::del_dimension',
    'abe_policy::access_structure::AccessStructure::add_attribute',
    'abe_policy::access_structure::AccessStructure::del_attribute',
    'abe_policy::access_structure::AccessStructure::rename_attribute',
    'abe_policy::access_structure::AccessStructure::disable_attribute',
    'abe_policy::dimension::Dimension::add_attribute', 'abe_policy::dimension::Dimension::remove_attribute',
    'abe_policy::dimension::Dimension::disable_attribute', 'abe_policy::dimension::Dimension::rename_attribute',
    'data_struct::dictionary::Dict::<K, V>::update_key',
]


def short(s):
    s = re.sub(r'<[^<>]*>', '', s or '?')
    s = re.sub(r'<[^<>]*>', '', s)
    s = re.sub(r'::+', '::', s)
    parts = [p for p in s.split('::') if p]
    return '::'.join(parts[-2:])


def after(body, w, e):
    """Can control flow from write site w later reach error exit e?"""
    if w.b == e.b:
        if w.i is not None and (e.i is None or w.i < e.i):
            return True
    r = body.reach(body.succs[w.b])
    return e.b in r


def derives_from_call(body, e, wcall):
    """Does the value whose Err/None-ness decides exit e derive from wcall's result
    through Some/None-preserving combinators only?"""
    cur = e.src_call
    for _ in range(8):
        if cur is None:
            return False
        if cur is wcall:
            return True
        if not cur.is_(*T.PRESERVING):
            return False
        l = op_local(cur.args[0]) if cur.args and is_place(cur.args[0]) else None
        if l is None:
            return False
        _, d = lib.resolve_copy(body, l)
        cur = d.call if (d is not None and d.kind == 'call') else None
    return False


def writer_is_source(body, e, wcall):
    """The failing value is the writer's own result (possibly through map/map_err)."""
    return derives_from_call(body, e, wcall)


def on_nothing_written_edge(body, e, wcall):
    """Explicit error exit reachable only through the `None`/`false` edge of a switch on the
    result of a self-reporting mutator (match map.remove(k) { None => Err(..) })."""
    dl = wcall.dest['l']
    for b in range(body.n):
        if body.cleanup[b]:
            continue
        t = body.term(b)
        if t['k'] != 'switch':
            continue
        l = op_local(t['d'])
        if l is None:
            continue
        ok = (l == dl)
        if not ok:
            _, d = lib.resolve_copy(body, l)
            if d is not None and d.kind == 'assign' and d.rv['k'] == 'discr' and not d.rv['pl']['p']:
                src, _d2 = lib.resolve_copy(body, d.rv['pl']['l'])
                if d.rv['pl']['l'] == dl or src == dl:
                    ok = True
        if not ok:
            continue
        zero = [bb for v, bb in t['cases'] if v == 0]
        if not zero and [v for v, _bb in t['cases']] == [1]:
            zero = [t['else']]      # `1 => Some arm, otherwise => None`
        if zero and body.edge_dominates((b, zero[0]), e.b):
            return True
    return False


def analyse(ctx, F, body, MA, FA):
    params = [p for p in range(1, body.argc + 1) if KEY_OWNER.match(body.local_ty(p))]
    if not params or not lib.returns_result(body):
        return None
    exits = lib.error_exits(body)
    feas = []
    for e in exits:
        if e.kind == 'relay':
            continue      # relays inner error exits, each examined on its own
        if e.kind == 'explicit':
            feas.append(e)
        elif e.src_call is not None and FA.call_infallible(e.src_call):
            continue
        elif e.src_call is None and e.kind == 'try' and e.src_local is not None and FA.value_infallible(body, e.src_local):
            # `?` on a Result assembled in place (the return value of an inlined helper) none of whose definitions can fail
            continue
        else:
            feas.append(e)
    n_pairs = 0
    bad = {}
    for p in params:
        ws, D = MA.writes(body, {p})
        pname = body.var_name(p) or '_%d' % p
        for e in feas:
            for w in ws:
                n_pairs += 1
                if e.src_call is not None and w.call is not None and writer_is_source(body, e, w.call):
                    # the failing call is the writer itself: a crate-local callee is
                    # analysed on its own; only a loop can bring an earlier write
                    ts = e.try_site
                    if e.kind == 'tail' or ts is None or ts.cont is None:
                        continue
                    if e.b not in body.reach(ts.cont):
                        continue
                    why = 'write by an earlier iteration'
                elif not after(body, w, e):
                    continue
                else:
                    why = ''
                if w.call is not None and w.self_reporting and (
                        derives_from_call(body, e, w.call) or on_nothing_written_edge(body, e, w.call)):
                    continue
                k = (pname, e.desc)
                bad.setdefault(k, (e, []))[1].append(w)
    return params, feas, n_pairs, bad


@rule('C10', 'atomic', configs=('default', 'p256'))
def atomic(ctx, only=None, floor=4):
    """only: regex restricting the functions examined (used by the properties that delegate one clause to this rule)."""
    F = ctx.F
    MA = lib.MutAnalysis(F)
    FA = lib.Fallibility(F)
    seen = 0
    CG = lib.CallGraph(F)
    reach = CG.reachable(lib.api_roots(F))
    only_re = re.compile(only) if only else None
    for body in F.fns():
        if body.kind == 'Closure':
            continue
        if only_re is not None and not only_re.search(body.key):
            continue
        r = analyse(ctx, F, body, MA, FA)
        if r is None:
            continue
        if body.key not in reach:
            ctx.note('%s skipped: not reachable from the public API (dead code)' % body.key)
            continue
        params, feas, n_pairs, bad = r
        seen += 1
        if not bad:
            ctx.ok(body.key, 'no write(&mut %s) reaches a feasible error exit' % ','.join(
                body.var_name(p) or '_%d' % p for p in params),
                '%d feasible error exit(s), %d write/exit pairs examined' % (len(feas), n_pairs),
                body.where())
        for (pname, edesc), (e, ws) in sorted(bad.items()):
            w = ws[0]
            ctx.bad(body.key, 'write(%s)->%s' % (pname, short_err(e)),
                    'a write to *%s (%s, line %d) can be followed by the error exit %s (line %d): the failed '
                    'call leaves the key modified' % (pname, w.desc[:100], w.ln, e.desc[:120], e.ln),
                    body.where(e.ln),
                    path={'writes': [(x.desc[:100], x.ln) for x in ws[:6]], 'error_exit': (e.desc, e.ln)})
    if only_re is not None:
        ctx.floor(seen, floor, 'functions examined (restricted)')
        return
    missing = [k for k in EXPECTED if k not in F.bodies]
    for k in missing:
        ctx.bad('-', 'anchor-missing:' + k, 'function %s named by the property is gone' % k)
    ctx.floor(seen, 20, 'functions taking a key by &mut and returning Result')


def short_err(e):
    if e.kind == 'explicit':
        return 'err(%s)' % (e.variant or 'Err')
    c = e.src_call
    return 'err(?%s)' % (short(c.defp if c and c.defp else e.desc))
