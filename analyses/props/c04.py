"""C04 — key rotation: refreshed keys follow the master key, stale keys fall behind."""
import re

from ..engine import prop, rule
from ..facts import op_local, op_place, is_place, backward_slice, copy_chain_sources, IDENTITY_CALLS
from .. import lib, flags
from .c02 import root_descr
from .c14 import check_revision_iterator

prop('C04',
     explanation=(
         'iter: RevisionIterator::next hands out the next element of every chain that still has one (the per-chain '
         'results are not combined by a short-circuiting collector such as FromIterator for Option) and returns None '
         'when no chain produced an element. orientation (sibling agreement over the library table): every producer '
         'and consumer of a revision chain agrees that the newest secret is at the front — RevisionMap::insert -> '
         'push_front, get_latest(_mut) -> front(_mut), keep -> split_off(n) returning the tail, MasterSecretKey::mpk -> '
         'front(), refresh_coordinate_keys appends in iteration order from the front, RevisionVec::revisions iterates '
         'each chain from the front, create_chain_with_single_value -> push_front. rekey-prepends: rekey adds the new '
         'secret through RevisionMap::insert for the rights of its argument; the API wrappers rekey / update_msk / '
         'prune_master_secret_key return msk.mpk() computed after the mutation.'),
     not_decided='that un-refreshed keys cannot open new encapsulations and refreshed ones can (cryptographic / '
                 'algebraic); equality of outcomes over interleavings',
     assumptions=['LinkedList::push_front prepends, front() is the head, iter() starts at the head'])

LL = r'^std::collections::LinkedList::<[^>]*>::'
# (function, required callee patterns, forbidden callee patterns, meaning)
ORIENTATION = [
    ('data_struct::revision_map::RevisionMap::<K, V>::insert', [LL + 'push_front$'], [LL + 'push_back$', LL + 'append$'],
     'a new revision is prepended (directly or through the insert_in_chain / insert_new_chain helpers)'),
    ('data_struct::revision_map::RevisionMap::<K, V>::get_latest', [LL + 'front$'], [LL + 'back$'], 'latest = front'),
    ('data_struct::revision_map::RevisionMap::<K, V>::get_latest_mut', [LL + 'front_mut$'], [LL + 'back_mut$'], 'latest = front'),
    ('data_struct::revision_map::RevisionMap::<K, V>::keep', [LL + 'split_off$'], [LL + 'pop_front$'], 'keep retains the head'),
    ('core::MasterSecretKey::mpk', [LL + 'front$'], [LL + 'back$', LL + 'iter$'], 'the public key is built from the newest secret', '(bool, core::RightSecretKey)'),
    ('data_struct::revision_vec::RevisionVec::<K, T>::revisions', [LL + 'iter$'], [r'::rev$'], 'revisions start at the newest secret'),
    ('core::primitives::refresh_coordinate_keys', [LL + 'push_back$', LL + 'iter$'], [LL + 'push_front$', r'::rev$'],
     'the merged chain is appended in iteration order from the front', 'RightSecretKey'),
]


def fn_refs(body):
    """Function items referenced as values (e.g. `.and_then(LinkedList::front)`)."""
    out = []
    for b in sorted(body.live_blocks()):
        for st in body.stmts(b):
            rv = st['rv']
            ops = []
            if rv['k'] == 'use':
                ops = [rv['a']]
            elif rv['k'] == 'agg':
                ops = rv['ops']
            for o in ops:
                if 'c' in o and 'fn' in o['c']:
                    out.append(o['c']['fn'])
        t = body.term(b)
        if t['k'] == 'call':
            for a in t['args']:
                if 'c' in a and 'fn' in a['c']:
                    out.append(a['c']['fn'])
    return out


def uses(F, key, pats, ty=None):
    """Callees matching `pats` used by the function, its closures and the helpers it reaches; `ty` restricts to
    calls / function items whose instantiated text mentions that element type."""
    found = []
    for body in lib.reach_bodies(F, key):
        for c in body.calls():
            if c.is_(*pats) and (ty is None or ty in c.full):
                found.append(c.defp)
        for fn in fn_refs(body):
            for p in pats:
                if (re.search(p, fn['def']) or re.search(p, fn.get('res') or '')) and (ty is None or ty in fn.get('full', '')):
                    found.append(fn['def'])
    return found


@rule('C04', 'iter')
def iter_rule(ctx):
    check_revision_iterator(ctx)
    F = ctx.F
    # the opening loops range over the full product: no truncating adaptor on revisions()
    TRUNC = (r'^std::iter::Iterator::(take|skip|step_by|take_while|skip_while|nth|last|peekable|map_while)$',)
    n = 0
    for k in ('core::primitives::c_decaps', 'core::primitives::h_decaps'):
        body = F.fn(k)
        revs = body.calls(r'RevisionVec::<K, T>::revisions$')
        ctx.check(len(revs) >= 1, k, 'iterates revisions()', 'the opening loop no longer ranges over usk.secrets.revisions()',
                  'outer iterator = revisions()', body.where())
        for r in revs:
            n += 1
            # forward: every adaptor applied to the iterator
            S = {r.dest['l']}
            bad = []
            for _ in range(6):
                for b in sorted(body.live_blocks()):
                    for st in body.stmts(b):
                        rv = st['rv']
                        if rv['k'] == 'use' and is_place(rv['a']) and op_local(rv['a']) in S and not st['lhs']['p']:
                            S.add(st['lhs']['l'])
                        elif rv['k'] == 'ref' and rv['pl']['l'] in S and not st['lhs']['p']:
                            S.add(st['lhs']['l'])
                for c in body.calls():
                    if c.args and is_place(c.args[0]) and op_local(c.args[0]) in S:
                        if c.is_(*TRUNC):
                            bad.append(c)
                        elif c.is_(r'^std::iter::IntoIterator::into_iter$', r'^std::iter::Iterator::(map|filter|by_ref|inspect)$'):
                            S.add(c.dest['l'])
            ctx.check(not bad, k, 'revisions() not truncated',
                      'the revision iterator is truncated by %s (line %d): older secrets are never tried' % (
                          bad[0].name if bad else '', bad[0].ln if bad else 0), 'no take/skip/step_by/nth', r.where())
    ctx.floor(n, 2, 'revision loops in the opening functions')


@rule('C04', 'orientation')
def orientation(ctx):
    F = ctx.F
    n = 0
    for row in ORIENTATION:
        (key, req, forb, meaning) = row[:4]
        tyf = row[4] if len(row) > 4 else None
        if key not in F.bodies:
            ctx.bad(key, 'anchor-missing', 'chain producer/consumer %s is gone' % key)
            continue
        body = F.bodies[key]
        for p in req:
            n += 1
            got = uses(F, key, [p], tyf)
            ctx.check(bool(got), key, 'uses %s' % p.replace(LL, 'LinkedList::').rstrip('$'),
                      '%s no longer goes through %s (%s): the producers and consumers of revision chains disagree on '
                      'where the newest secret is' % (key, p.replace(LL, 'LinkedList::'), meaning),
                      meaning, body.where())
        for p in forb:
            got = uses(F, key, [p], tyf)
            n += 1
            ctx.check(not got, key, 'avoids %s' % p.replace(LL, 'LinkedList::').rstrip('$'),
                      '%s uses %s: the newest secret is expected at the front of a chain (%s)' % (key, got[:1], meaning),
                      meaning, body.where())
    # insert only ADDS: the secret it has just put at the front stays there, nothing is taken out of the chain on the way
    # (a "bounded history" that trims the chain inside insert drops either the newest secret or old ones a user key still holds)
    ik = 'data_struct::revision_map::RevisionMap::<K, V>::insert'
    if ik in F.bodies:
        REMOVERS = r'(LinkedList|VecDeque|Vec)::<[^>]*>::(pop_front|pop_back|pop|drain|truncate|clear|remove|split_off|retain|swap_remove)$'
        for fb in lib.reach_bodies(F, ik, precise=True):
            if not (fb.root or fb.key).startswith('data_struct::revision_map'):
                continue
            rm = fb.calls(REMOVERS)
            n += 1
            ctx.check(not rm, ik, 'insert only adds', 'RevisionMap::insert (through %s) also removes elements of the chain (%s, line %d): the '
                      'secret a rotation has just created, or an older one still in use, disappears' %
                      (fb.key, rm[0].name.split('::')[-1] if rm else '', rm[0].ln if rm else 0), 'push_front only', fb.where())
    ctx.floor(n, 11, 'orientation sites')


@rule('C04', 'rekey-prepends', configs=('default', 'p256'))
def rekey_prepends(ctx):
    F = ctx.F
    rb = F.fn('core::primitives::rekey')
    ins = []
    for body in lib.family_ext(F, rb.key):
        for c in body.calls():
            # (a closure may capture `msk.secrets` itself: the captured place is then named `_ref__msk__secrets`)
            if c.args and any(r[0] == 'param' and r[2] and re.search(r'(^|__)secrets$', str(r[2][-1])) for r in root_descr(body, c.args[0])):
                ins.append(c)
    writes = [c for c in ins if c.name not in ('contains_key', 'get_latest', 'get', 'len', 'iter', 'keys')]
    ctx.check(bool(writes) and all(c.name == 'insert' for c in writes), rb.key, 'adds through RevisionMap::insert',
              'rekey mutates the master secrets through %s; a rotation must prepend a fresh secret with RevisionMap::insert '
              '(older secrets stay behind it)' % sorted(set(c.name for c in writes)), 'insert only', rb.where())
    for c in writes:
        if c.name != 'insert':
            continue
        kr = backward_slice(c.body, [c.args[1]], follow_mutarg=False)
        ctx.check(any('HashSet<' in c.body.local_ty(p) for p in kr.params) or c.body is not rb, rb.key, 'insert(key<-rights)',
                  'the re-keyed right (line %d) does not come from the `rights` argument' % c.ln, 'key <- rights', c.where())
        vs = backward_slice(c.body, [c.args[2]], follow_mutarg=False)
        ctx.check(bool(vs.has_call(r'RightSecretKey::random$')), rb.key, 'insert(value<-random)',
                  'the inserted secret (line %d) is not a fresh RightSecretKey::random' % c.ln, 'fresh secret', c.where())
    # API wrappers return the public key rebuilt after the mutation
    for (api, prim) in (('api::Covercrypt::rekey', r'primitives::rekey$'), ('api::Covercrypt::update_msk', r'primitives::update_msk$'),
                        ('api::Covercrypt::prune_master_secret_key', r'primitives::prune$')):
        body = F.fn(api)
        pc = body.calls(prim)
        mp = body.calls(r'MasterSecretKey::mpk$')
        ok = len(pc) == 1 and len(mp) >= 1
        if ok:
            ret = [r for r in copy_chain_sources(body, 0, through_calls=IDENTITY_CALLS)
                   if not (r[0] == 'call' and r[1].is_(r'FromResidual::from_residual$'))]
            ok = bool(ret) and all(r[0] == 'call' and r[1].is_(r'MasterSecretKey::mpk$') for r in ret)
            ok = ok and all(body.block_dominates(pc[0].b, m.b) and m.b != pc[0].b for m in mp)
            ok = ok and all(any(r[0] == 'param' and 'core::MasterSecretKey' in body.local_ty(r[1]) for r in root_descr(body, m.args[0])) for m in mp)
        ctx.check(ok, api, 'returns mpk() after %s' % prim.split('::')[-1].rstrip('$'),
                  '%s does not return msk.mpk() computed after the primitive ran: callers would keep encrypting under a '
                  'stale public key' % api, 'return <- msk.mpk() dominated by the primitive call', body.where())


@rule('C04', 'api-wiring')
def api_wiring(ctx):
    """rekey / prune / key generation act on the rights a user key for the policy would HOLD (ap_to_usk_rights), encapsulation
    on the rights the policy TARGETS (ap_to_enc_rights): rotating only the targeted right would leave stale keys able to open
    new encapsulations for more specific policies."""
    F = ctx.F
    want = [('api::Covercrypt::rekey', r'primitives::rekey$', 2, 'ap_to_usk_rights'),
            ('api::Covercrypt::prune_master_secret_key', r'primitives::prune$', 1, 'ap_to_usk_rights'),
            ('api::Covercrypt::generate_user_secret_key', r'primitives::usk_keygen$', 2, 'ap_to_usk_rights'),
            ('<api::Covercrypt as traits::KemAc<SHARED_SECRET_LENGTH>>::encaps', r'primitives::encaps$', 2, 'ap_to_enc_rights')]
    for (api, prim, ai, conv) in want:
        body = F.fn(api)
        pcs = body.calls(prim)
        ok = len(pcs) == 1
        got = '?'
        if ok:
            roots = copy_chain_sources(body, pcs[0].args[ai], through_calls=(r'^std::ops::Try::branch$',) + IDENTITY_CALLS)
            got = sorted(set(r[1].name for r in roots if r[0] == 'call'))
            ok = bool(roots) and all(r[0] == 'call' and r[1].name == conv for r in roots)
            if ok:
                cv = [r[1] for r in roots][0]
                ap = lib.param_by_type(body, r'AccessPolicy$')
                ok = any(r[0] == 'param' and r[1] == ap for r in root_descr(body, cv.args[1]))
        ctx.check(ok, api, 'rights <- %s(ap)' % conv, '%s hands its primitive rights obtained through %s instead of %s(ap)' % (api, got, conv),
                  '%s(ap)' % conv, body.where())
    a = F.fn('abe_policy::access_structure::AccessStructure::ap_to_usk_rights')
    b = F.fn('abe_policy::access_structure::AccessStructure::ap_to_enc_rights')
    ctx.check(bool(a.calls(r'generate_complementary_rights$')) and bool(b.calls(r'generate_associated_rights$')), a.key, 'usk -> complementary, enc -> associated',
              'ap_to_usk_rights / ap_to_enc_rights no longer map to the complementary / associated rights', '', a.where())


@rule('C04', 'keep-old-merge', configs=('default', 'p256'))
def keep_old_merge(ctx):
    """'A key refreshed with keep-old still opens every encapsulation it could open before': the merge keeps every user secret
    that is still in the master chain — it walks the master chain once, in lock-step (C05.single-pass-merge) and only drops what
    does not compare equal (C05.subsequence)."""
    from . import c05
    c05.single_pass_merge(ctx)
    c05.subsequence(ctx)
    c05.no_extra_master_secrets(ctx)


@rule('C04', 'no-keep-old-latest-only', configs=('default', 'p256'))
def no_keep_old_latest_only(ctx):
    """'A key refreshed without keep-old opens only encapsulations under the newest secret' (C05.no-keep-old-latest-only)."""
    from . import c05
    c05.no_keep_old_latest_only(ctx)


@rule('C04', 'rights-kept', configs=('default', 'p256'))
def rights_kept(ctx):
    """'Every authorized key opens new encapsulations once refreshed': the merge never gives up a right the master key still
    holds (C05.rights-kept)."""
    from . import c05
    c05.rights_kept(ctx)


@rule('C04', 'stored-keys-keep-their-order', configs=('default', 'p256'))
def stored_keys_keep_their_order(ctx):
    """'once refreshed': a key that was refreshed, stored and loaded again must still be refreshable — its chains come back in the
    order that was signed, newest first (C13.order restricted to the user key), and decapsulation tries every secret it holds
    (C01.every-secret-tried)."""
    from . import c13, c01
    c13.restricted(ctx, r'(core::UserSecretKey)$', [c13.order, c13.read_loop_keeps_every_element, c13.read_keeps_every_element])
    c01.every_secret_tried(ctx)


@rule('C04', 'update-keeps-chains', configs=('default', 'p256'))
def update_keeps_chains(ctx):
    """'refreshed keys follow the master key': an update of the master key (new / deleted attributes) leaves the chains of the
    rights it keeps exactly as they are — it only drops whole chains, re-aligns the newest secret and adds chains for new rights
    (C06.decrypt-kept: the operations update_msk applies to msk.secrets) — so "newest first" survives every update."""
    from . import c06
    c06.decrypt_kept(ctx)


@rule('C04', 'instance-is-stateless')
def instance_is_stateless(ctx):
    """'refreshed keys follow the master key', whichever master key the instance is used with: the rights a policy denotes are computed from the structure of the key that is given, never remembered from another one. Structurally: the scheme instance holds its random generator and nothing else, and no type of the crate has an
    interior-mutable field — no cache, no memo, no static, no thread-local (C19.state-audit)."""
    from . import c19
    c19.state_audit(ctx)
