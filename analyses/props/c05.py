"""C05 — revocation takes effect: pruned and deleted secrets leave refreshed keys."""
import re

from ..engine import prop, rule
from ..facts import op_local, op_place, is_place, backward_slice, switch_on, bool_edges, copy_chain_sources, IDENTITY_CALLS, field_path
from .. import lib, flags
from .c02 import eq_guards, root_descr

prop('C05',
     explanation=(
         'subsequence (E-PROV + E-DOM): in refresh_coordinate_keys every element pushed onto the refreshed chain is '
         'either a clone of an element of the master chain of the same right, or a user secret whose push is dominated '
         'by the equal edge of a comparison with a master-chain element (directly, or through a relay flag that is '
         'set only on that edge) — the user chain stays a sub-sequence of the master chain, so pruned secrets cannot '
         'come back. unknown-rights-dropped: the refreshed chain of a right is built only under the Some edge of the '
         'keyed lookup of that right in the master key. prune-newest: prune truncates each right through '
         'RevisionMap::keep(_, 1) with the literal 1, and keep retains the head (split_off(n) returns the tail).'),
     not_decided='decapsulation outcomes after prune / delete over histories (needs execution)',
     assumptions=['LinkedList::split_off(n) keeps the first n elements', 'derived PartialEq on RightSecretKey compares all fields'])

PUSH = (r'^std::collections::LinkedList::<[^>]*>::push_(back|front)$', r'^std::collections::LinkedList::<[^>]*>::(append|extend)$',
        r'^std::iter::Extend::extend$')


def implied_edges(body, guard):
    """Edges on which the equality `guard` is known to have held: its own equal edge and the
    true edges of switches on relay flags (bool locals set to true only under that edge)."""
    (c, te, fe) = guard
    out = [te]
    defs = body.defs()
    for l, ds in defs.items():
        if body.local_ty(l) != 'bool' or body.is_param(l):
            continue
        consts = []
        ok = True
        for d in ds:
            if d.kind != 'assign' or d.lhs['p'] or d.rv['k'] != 'use' or 'c' not in d.rv['a']:
                ok = False
                break
            consts.append((d.b, bool(d.rv['a']['c'].get('v'))))
        if not ok or not any(v for _, v in consts) or not any(not v for _, v in consts):
            continue
        if all(body.edge_dominates(te, b) for b, v in consts if v):
            for (sb, neg) in switch_on(body, l):
                t_e, f_e = bool_edges(body, sb, neg)
                if t_e is not None:
                    out.append(t_e)
    return out


def from_master_chain(F, body, op):
    calls = lib.deep_calls(F, body, [op])
    return any(flags.chain_iteration_call(c) or (c.is_(r'LinkedList::<[^>]*>::(iter|front|back)$') and flags.PAIR_TY in c.full)
               for c in calls)


@rule('C05', 'subsequence', configs=('default', 'p256'))
def subsequence(ctx):
    F = ctx.F
    fam = F.family('core::primitives::refresh_coordinate_keys')
    n = 0
    for body in fam:
        guards = [g for g in eq_guards(body) if 'RightSecretKey' in (g[0].self_ty or '')]
        for c in body.calls(*PUSH):
            if 'RightSecretKey' not in c.full or flags.PAIR_TY in c.full:
                continue
            n += 1
            val = c.args[1]
            if from_master_chain(F, body, val):
                ctx.ok('core::primitives::refresh_coordinate_keys', 'push(master element)',
                       'clone of an element of the master chain', c.where())
                continue
            # a user secret: must be known to belong to the master chain
            vroots = lib.roots_of(body, val)
            ok = False
            for g in guards:
                (gc, te, fe) = g
                sides = [lib.roots_of(body, a) for a in gc.args]
                # one side is the pushed user secret, the other a master-chain element
                for i in (0, 1):
                    same = bool(sides[i] & vroots) or bool(
                        set(r[1:] for r in copy_chain_sources(body, gc.args[i], through_calls=IDENTITY_CALLS) if r[0] in ('call',)) and False)
                    if not same:
                        # compare by underlying local: &&x vs x
                        la = set(backward_slice(body, [gc.args[i]], follow_mutarg=False).locals)
                        lv = op_local(val)
                        cur, _d = lib.resolve_copy(body, lv)
                        same = cur in la or lv in la
                    if same and from_master_chain(F, body, gc.args[1 - i]):
                        if body.edges_dominate(implied_edges(body, g), c.b):
                            ok = True
            ctx.check(ok, 'core::primitives::refresh_coordinate_keys', 'push(user secret)<=found-in-master-chain',
                      'a secret taken from the user key is pushed onto the refreshed chain (line %d) without being '
                      'known to belong to the master chain: a pruned secret survives the refresh' % c.ln,
                      'dominated by the equal edge of a comparison with a master-chain element', c.where())
    ctx.floor(n, 3, 'pushes onto the refreshed chain')
    # what is handed back for a right is the chain rebuilt by those pushes — never the user's own chain returned as it came
    m = 0
    for body in lib.family_ext(F, 'core::primitives::refresh_coordinate_keys'):
        for b in sorted(body.live_blocks()):
            for st in body.stmts(b):
                rv = st['rv']
                if not (rv['k'] == 'agg' and rv.get('tuple') and len(rv['ops']) == 2 and 'Right' in body.local_ty(st['lhs']['l'])
                        and 'LinkedList<core::RightSecretKey>' in body.local_ty(st['lhs']['l'])):
                    continue
                m += 1
                srcs = copy_chain_sources(body, rv['ops'][1], through_calls=(r'^std::ops::Try::branch$',) + tuple(IDENTITY_CALLS))
                fresh = bool(srcs) and all(s[0] == 'call' and s[1].is_(r'LinkedList::<[^>]*>::new$') for s in srcs)
                ctx.check(fresh, 'core::primitives::refresh_coordinate_keys', 'returned chain = the rebuilt chain',
                          'the chain paired with a right (line %d) is not the list rebuilt from the master chain (%s): the user\'s own '
                          'chain is handed back unchecked — secrets pruned, rotated out or whose flavour changed survive the refresh'
                          % (st['ln'], [(s[0], getattr(s[1], 'name', s[1])) for s in srcs][:2]), 'LinkedList::new() filled by the merge',
                          body.where(st['ln']))
    ctx.floor(m, 1, 'refreshed (right, chain) pairs')


@rule('C05', 'unknown-rights-dropped', configs=('default', 'p256'))
def unknown_rights_dropped(ctx):
    F = ctx.F
    fam = F.family('core::primitives::refresh_coordinate_keys')
    n = 0
    for body in fam:
        for b in sorted(body.live_blocks()):
            for st in body.stmts(b):
                rv = st['rv']
                if not (rv['k'] == 'agg' and rv.get('adt') == 'std::option::Option' and rv['variant'] == 'Some'):
                    continue
                if 'LinkedList<core::RightSecretKey>' not in body.local_ty(st['lhs']['l']):
                    continue
                n += 1
                # the body must run under the Some edge of a keyed lookup in msk.secrets
                ok = False
                cur = body
                for _ in range(4):
                    for (pb, c, idx) in lib.closure_consumers(F, cur):
                        if c.is_(r'^std::option::Option::<T>::(and_then|map)$'):
                            recv = c.args[0]
                            calls = lib.deep_calls(F, pb, [recv])
                            if any(x.is_(r'RevisionMap::<K, V>::(get|get_latest)$') and flags.PAIR_TY in x.full for x in calls):
                                ok = True
                    if ok or cur.parent not in F.bodies:
                        break
                    cur = F.bodies[cur.parent]
                if not ok:
                    # the same decision written with `?` / `match` on the lookup in the body that builds the chain
                    edges = []
                    for x in body.calls(r'RevisionMap::<K, V>::(get|get_latest)$'):
                        if flags.PAIR_TY in x.full:
                            edges += lib.present_edges(body, x)
                    ok = bool(edges) and body.edges_dominate(edges, b)
                ctx.check(ok, 'core::primitives::refresh_coordinate_keys', 'chain-built<=right-in-master-key',
                          'a refreshed chain is produced (line %d) outside the Some edge of the lookup of its right in '
                          'the master key: rights deleted from the master key survive the refresh' % st['ln'],
                          'closure of Option::and_then on msk.secrets.get(right)', body.where(st['ln']))
    ctx.floor(n, 1, 'refreshed chains produced')
    # keep_old = false: secrets only from the head of the master chain of the same right
    rb = F.fn('core::primitives::refresh')
    fam = lib.reach_bodies(F, rb.key)
    heads = []
    for body in fam:
        heads += body.calls(r'RevisionMap::<K, V>::get_latest$', r'MasterSecretKey::get_latest_right_sk$')
    ctx.check(bool(heads), rb.key, 'no-keep-old<=get_latest',
              'refresh without keep-old does not take the newest master secret through get_latest', 'get_latest', rb.where())


@rule('C05', 'prune-newest', configs=('default',))
def prune_newest(ctx):
    F = ctx.F
    pb = F.fn('core::primitives::prune')
    ks = []
    for body in F.family(pb.key):
        ks += body.calls(r'RevisionMap::<K, V>::keep$')
    muts = []
    for body in F.family(pb.key):
        for c in body.calls():
            if c.args and any(r[0] == 'param' and r[2] and r[2][-1] == 'secrets' for r in root_descr(body, c.args[0])):
                muts.append(c)
    ctx.floor(len(ks), 1, 'RevisionMap::keep in prune')
    # every requested right is visited: no adaptor that stops early or skips on the way to keep()
    early = []
    for body in lib.family_ext(F, pb.key):
        early += body.calls(r'^std::iter::Iterator::(map_while|take_while|skip_while|take|skip|step_by|filter|find|find_map|any|all|position|nth|last)$')
        early += [ts.branch for ts in lib.try_sites(body)]
    ctx.check(not early, pb.key, 'prune visits every requested right',
              'prune walks the requested rights through %s (line %d): the walk can stop or skip, and the rights not visited keep '
              'their old secrets' % (early[0].name if early else '', early[0].ln if early else 0), 'plain loop over the rights', pb.where())
    for c in ks:
        v = lib.classify_scalar(c.body, c.args[2])
        ctx.check(v == ('const', 1), pb.key, 'keep(_, 1)',
                  'prune keeps %s secrets per right (line %d); exactly the newest one must remain' % (
                      v[1] if v[0] == 'const' else 'a non-constant number of', c.ln), 'literal 1', c.where())
    other = [c for c in muts if c.name not in ('keep',)]
    ctx.check(not other, pb.key, 'only-keep', 'prune also applies %s to the master secrets' % [c.name for c in other],
              'keep is the only operation', pb.where())
    # keep retains the head: split_off(n) on the chain, result returned (the tail)
    kb = F.fn('data_struct::revision_map::RevisionMap::<K, V>::keep')
    so = kb.calls(r'LinkedList::<[^>]*>::split_off$')
    ctx.check(len(so) == 1, kb.key, 'keep=split_off(n)',
              'RevisionMap::keep no longer truncates with LinkedList::split_off', 'split_off', kb.where())
    for c in so:
        nr = [r for r in root_descr(kb, c.args[1]) if r[0] == 'param']
        ctx.check(any(kb.local_ty(r[1]) == 'usize' for r in nr), kb.key, 'split_off(n)',
                  'split_off is not applied at the requested length n', 'at = n', c.where())
        other_muts = [x for x in kb.calls(r'LinkedList::<[^>]*>::(pop_front|pop_back|clear|push_front|push_back|append|retain)$')]
        ctx.check(not other_muts, kb.key, 'no-other-mutation', 'keep also mutates the chain through %s' % [x.name for x in other_muts],
                  'split_off only', kb.where())
        # the retained part is the receiver (head); the returned part is the split-off tail
        sl = backward_slice(kb, [0], follow_mutarg=False)
        ctx.check(any(x is c for x in sl.calls), kb.key, 'returns-tail',
                  'keep does not return the split-off tail (the head may be what is discarded)', 'returns split_off(n)', c.where())


@rule('C05', 'update-drops', configs=('default', 'p256'))
def update_drops(ctx):
    """Deleted rights leave the master key on update: the retain by membership in the universe runs on every
    successful update, before anything is inserted."""
    from . import c03, c06
    c03.update_reconciles(ctx)
    F = ctx.F
    ub = F.fn('core::primitives::update_msk')
    rt = ub.calls(r'RevisionMap::<K, V>::retain$')
    oks = [b for b in sorted(ub.live_blocks()) for st in ub.stmts(b)
           if st['rv']['k'] == 'agg' and st['rv'].get('adt') == 'std::result::Result' and st['rv']['variant'] == 'Ok' and st['lhs']['l'] == 0]
    ctx.check(len(rt) == 1 and oks and all(ub.block_dominates(rt[0].b, b) for b in oks), ub.key, 'retain on every successful update',
              'update_msk can succeed without dropping the secrets of rights that left the universe (the retain is conditional or '
              'missing): keys refreshed afterwards keep deleted rights', 'retain dominates Ok(())', ub.where())


@rule('C05', 'single-pass-merge', configs=('default', 'p256'))
def single_pass_merge(ctx):
    """The merge of a user chain with the master chain walks the master chain ONCE: the search for the user's newest secret and
    the lock-step comparison of the older ones advance the same iterator (otherwise the second phase restarts at the head, diverges
    at once and drops — or wrongly keeps — secrets)."""
    F = ctx.F
    fam = F.family('core::primitives::refresh_coordinate_keys')
    n = 0
    for fb in fam:
        its = [c for c in fb.calls(r'LinkedList::<[^>]*>::iter$') if flags.PAIR_TY in c.full]
        if not its:
            continue
        n += 1
        ctx.check(len(its) == 1, 'core::primitives::refresh_coordinate_keys', 'master chain iterated once',
                  'the master chain is iterated %d times (lines %s): the two phases of the merge do not share one position in the master '
                  'chain' % (len(its), [c.ln for c in its]), 'one LinkedList::iter() over the master chain', its[0].where())
        nx = [c for c in fb.calls(r'^std::iter::Iterator::next$') if flags.PAIR_TY in (c.self_ty or '')]
        src = set()
        copies = []
        for c in nx:
            l, _d = lib.resolve_copy(fb, op_local(c.args[0])) if is_place(c.args[0]) else (None, None)
            sl = backward_slice(fb, [c.args[0]], follow_mutarg=False)
            src |= set(x.b for x in sl.calls if x.is_(r'LinkedList::<[^>]*>::iter$'))
            # a copy of the iterator is another position in the chain
            copies += [x for x in sl.calls if x.is_(r'^std::clone::Clone::clone$') and 'Iter<' in (x.self_ty or '')]
        ctx.check(not copies, 'core::primitives::refresh_coordinate_keys', 'the position in the master chain is never copied',
                  'a phase of the merge advances a COPY of the iterator over the master chain (clone, line %d): the other phase does not '
                  'see how far it went and restarts at the head of the chain — the older secrets of the key no longer line up and are dropped'
                  % (copies[0].ln if copies else 0), 'by_ref(), not clone()', fb.where(copies[0].ln if copies else None))
        ctx.check(len(nx) >= 2 and len(src) == 1, 'core::primitives::refresh_coordinate_keys', 'both phases advance the same iterator',
                  'the %d next() calls over the master chain draw from %d iterators' % (len(nx), len(src)), 'same iterator', fb.where())
    ctx.floor(n, 1, 'merge bodies')


@rule('C05', 'refresh-always-rebuilds', configs=('default', 'p256'))
def refresh_always_rebuilds(ctx):
    """Any user key refreshed afterwards no longer holds removed secrets: every successful return of refresh is dominated by
    the replacement of usk.secrets with chains rebuilt from the master key — there is no 'already up to date' shortcut."""
    from .c02 import field_writers
    F = ctx.F
    rb = F.fn('core::primitives::refresh')
    ws = [w for w in field_writers(F, 'core::UserSecretKey', 'secrets') if w[0] is rb and w[2] == 'assign']
    oks = [(b, st) for b in sorted(rb.live_blocks()) for st in rb.stmts(b)
           if st['rv']['k'] == 'agg' and st['rv'].get('adt') == 'std::result::Result' and st['rv']['variant'] == 'Ok' and st['lhs']['l'] == 0]
    wblocks = []
    for b in sorted(rb.live_blocks()):
        for st in rb.stmts(b):
            lp = st['lhs']['p']
            if lp and isinstance(lp[-1], dict) and lp[-1].get('n') == 'secrets' and lp[-1].get('o') == 'core::UserSecretKey':
                sl = backward_slice(rb, [st['rv'].get('a')] if st['rv'].get('a') else [], follow_mutarg=False)
                if sl.has_call(r'primitives::refresh_coordinate_keys$') or lib.deep_calls(F, rb, [st['rv']['a']]):
                    wblocks.append(b)
    ctx.check(bool(oks) and bool(wblocks) and all(any(rb.block_dominates(w, b) for w in wblocks) for (b, _s) in oks), rb.key,
              'Ok(()) <= usk.secrets rebuilt', 'refresh can return Ok(()) without having replaced the secrets of the user key by chains '
              'rebuilt from the master key (an early-success path): pruned or deleted secrets survive such a refresh',
              'every Ok(()) dominated by `usk.secrets = <rebuilt chains>`', rb.where())


@rule('C05', 'rights-kept', configs=('default', 'p256'))
def rights_kept(ctx):
    """'... while it keeps everything else': the keep-old merge gives up a right only when the master key has no chain for it or
    the user chain is empty. Structurally: in the body that builds the refreshed chain no `None` is returned explicitly; the only
    `None` exits are `?` on the next() of the user chain / on the lookup of the right in the master key."""
    F = ctx.F
    n = 0
    for body in lib.family_ext(F, 'core::primitives::refresh_coordinate_keys'):
        builds = any(st['rv']['k'] == 'agg' and st['rv'].get('adt') == 'std::option::Option' and st['rv']['variant'] == 'Some'
                     for b in body.live_blocks() for st in body.stmts(b))
        if not builds or not body.locals[0]['ty'].startswith('std::option::Option<'):
            continue
        n += 1
        bad = []
        for (kind, what, ln) in none_sources(body, 0):
            if kind == 'explicit':
                bad.append(ln)
            elif kind == 'call':
                ok = (what.is_(r'^std::iter::Iterator::next$') and flags.PAIR_TY not in (what.self_ty or '')
                      or what.is_(r'RevisionMap::<K, V>::(get|get_latest)$'))
                if not ok:
                    bad.append(ln)
            else:
                bad.append(ln)
        ctx.check(not bad, 'core::primitives::refresh_coordinate_keys', 'a right is given up only when absent / empty',
                  'the keep-old merge returns None (line %s) for a right that is in the master key and non-empty in the user key: a '
                  'refreshed key silently loses a right it should keep (with its newest secret)' % bad[:3],
                  'None only through `?` on the user chain / the master lookup', body.where())
    ctx.floor(n, 1, 'bodies building a refreshed chain')


@rule('C05', 'no-keep-old-latest-only', configs=('default', 'p256'))
def no_keep_old_latest_only(ctx):
    """Without keep-old a refreshed key holds, per right, the newest master secret and nothing of its former chain: the value
    paired with the right in the rebuilt vector derives from get_latest of the master key, never from the user's own chain."""
    F = ctx.F
    rb = F.fn('core::primitives::refresh')
    n = 0

    def user_chain_places(sl, body, env_fields=()):
        out = [pl for pl in sl.places if pl['l'] == 2 and tuple(field_path(pl))[:1] == ('1',)] if body.kind == 'Closure' and not env_fields else []
        for pl in sl.places:
            if pl['l'] == 1 and env_fields:
                idx = [e.get('f') for e in pl['p'] if isinstance(e, dict) and 'f' in e][:1]
                if idx and idx[0] in env_fields:
                    out.append(pl)
        return out
    for outer in lib.family_ext(F, rb.key):
        if outer.kind != 'Closure' or not outer.calls(r'RevisionMap::<K, V>::get_latest$'):
            continue
        cands = [(outer, None)]
        # closures created in it and fed with the result of get_latest (`.map(|(_, key)| (r.clone(), key.clone()))`)
        for (pb, b, st, rv, cl) in [x for cb in F.closures_of(rb.key) if cb.parent == outer.key for x in lib.closure_creation_sites(F, cb)]:
            inner = F.bodies[rv['closure']]
            tainted = set()
            for i, o in enumerate(rv['ops']):
                if is_place(o) and user_chain_places(backward_slice(outer, [o], follow_mutarg=False), outer):
                    tainted.add(i)
            fed = any(c.is_(r'^std::option::Option::<T>::(map|and_then)$') and
                      backward_slice(pb, [c.args[0]], follow_mutarg=False).has_call(r'RevisionMap::<K, V>::get_latest$')
                      for (pb2, c, _i) in lib.closure_consumers(F, inner))
            cands.append((inner, (tainted, fed)))
        for (body, info) in cands:
            for b in sorted(body.live_blocks()):
                for st in body.stmts(b):
                    rv = st['rv']
                    if not (rv['k'] == 'agg' and rv.get('tuple') and len(rv['ops']) == 2):
                        continue
                    if 'Right' not in body.local_ty(st['lhs']['l']):
                        continue
                    n += 1
                    sl = backward_slice(body, [rv['ops'][1]], follow_mutarg=False)
                    if info is None:
                        own = user_chain_places(sl, body)
                        latest = bool(sl.has_call(r'RevisionMap::<K, V>::get_latest$'))
                    else:
                        own = user_chain_places(sl, body, info[0]) if info[0] else []
                        latest = info[1] and 2 in sl.params
                    ctx.check(latest and not own, rb.key, 'secret <- get_latest only',
                              'without keep-old the secrets paired with a right (line %d) %s: the refreshed key keeps secrets that were '
                              'rotated out' % (st['ln'], 'derive from the user key\'s own chain' if own else 'do not come from get_latest'),
                              'value <- msk.secrets.get_latest(right)', body.where(st['ln']))
    # the same pairs built by handing right and secret to the container (`v.create_chain_with_single_value(right, secret)`)
    for body in lib.family_ext(F, rb.key):
        for c in body.calls(r'RevisionVec::<K, T>::create_chain_with_single_value$'):
            if len(c.args) < 3:
                continue
            n += 1
            srcs = copy_chain_sources(body, c.args[2], through_calls=(r'^std::clone::Clone::clone$', r'^std::ops::Try::branch$') + tuple(IDENTITY_CALLS))
            latest = bool(srcs) and all(s[0] == 'call' and s[1].is_(r'RevisionMap::<K, V>::get_latest$') for s in srcs)
            ctx.check(latest, rb.key, 'secret <- get_latest only',
                      'without keep-old the secret paired with a right (line %d) is not the one get_latest returns for it: the refreshed key '
                      'keeps secrets that were rotated out' % c.ln, 'value <- msk.secrets.get_latest(right)', body.where(c.ln))
    ctx.floor(n, 1, 'pairs built by the no-keep-old branch of refresh')


@rule('C05', 'api-wiring')
def api_wiring(ctx):
    """'Once old secrets of a right have been pruned ...': pruning for a policy covers every right a user key for that policy
    holds, not only the right the policy targets (C04.api-wiring)."""
    from . import c04
    c04.api_wiring(ctx)


def none_sources(body, l, seen=None, tsites=None):
    """Why an Option-typed local can be None: [('explicit', None, line) | ('call', Call, line) | ('unknown', None, line)] — the
    explicit `None` aggregates, the calls whose None is forwarded by `?`, followed through moves and through results assembled
    on several paths (an inlined helper's return value)."""
    seen = seen if seen is not None else set()
    if l in seen:
        return []
    seen.add(l)
    if tsites is None:
        tsites = lib.try_sites(body)
    out = []
    for d in body.defs().get(l, []):
        if d.kind == 'mutarg' or (d.lhs is not None and d.lhs['p']):
            out.append(('unknown', None, 0))
            continue
        if d.kind == 'assign':
            rv = d.rv
            ln = body.stmts(d.b)[d.i]['ln'] if d.i is not None else 0
            if rv['k'] == 'agg' and rv.get('adt') == 'std::option::Option':
                if rv['variant'] == 'None':
                    out.append(('explicit', None, ln))
                continue
            if rv['k'] == 'use' and is_place(rv['a']) and not op_place(rv['a'])['p']:
                out += none_sources(body, op_local(rv['a']), seen, tsites)
                continue
            out.append(('unknown', None, ln))
        else:
            c = d.call
            if c.is_(r'^std::ops::FromResidual::from_residual$'):
                ts = [x for x in tsites if x.residual is c]
                if not ts:
                    out.append(('unknown', None, c.ln))
                elif ts[0].src_def is not None and ts[0].src_def.kind == 'call':
                    out.append(('call', ts[0].src_def.call, c.ln))
                elif ts[0].src_local is not None:
                    out += none_sources(body, ts[0].src_local, seen, tsites)
                else:
                    out.append(('unknown', None, c.ln))
            else:
                out.append(('call', c, c.ln))
    return out


@rule('C05', 'no-extra-master-secrets', configs=('default', 'p256'))
def no_extra_master_secrets(ctx):
    """A refreshed key gains only secrets NEWER than its newest one: a clone of a master-chain element is pushed either while
    searching for the user's newest secret (on the not-equal edge of the comparison with that first user secret) or, afterwards,
    on the equal edge of a comparison with the user secret it matches. Pushing master elements that differ from the user's
    older secrets hands the key old secrets it never held."""
    from .c13 import loop_depths
    F = ctx.F
    n = 0
    for body in lib.family_ext(F, 'core::primitives::refresh_coordinate_keys'):
        pushes = [c for c in body.calls(*PUSH) if 'RightSecretKey' in c.full and flags.PAIR_TY not in c.full
                  and from_master_chain(F, body, c.args[1])]
        if not pushes:
            continue
        depth, _dom = loop_depths(body)
        guards = [g for g in eq_guards(body) if 'RightSecretKey' in (g[0].self_ty or '')]
        for c in pushes:
            n += 1
            ok = False
            why = 'no comparison with a user secret decides it'
            def master_next(op):
                return set(x.b for x in backward_slice(body, [op], follow_mutarg=False).calls
                           if x.is_(r'^std::iter::Iterator::next$') and flags.PAIR_TY in (x.self_ty or ''))
            pushed_from = master_next(c.args[1])
            for (gc, te, fe) in guards:
                ms = [i for i in (0, 1) if from_master_chain(F, body, gc.args[i])]
                if len(ms) != 1:
                    continue
                # the comparison must be about the very element that is pushed (same next() of the master chain)
                if pushed_from and not (master_next(gc.args[ms[0]]) & pushed_from):
                    continue
                user = gc.args[1 - ms[0]]
                if body.edges_dominate(implied_edges(body, (gc, te, fe)), c.b):
                    ok = True
                    break
                if fe is not None and body.edge_dominates(fe, c.b):
                    # not-equal edge: legitimate only against the user's NEWEST secret (drawn once, outside any loop)
                    nx = [x for x in backward_slice(body, [user], follow_mutarg=False).calls
                          if x.is_(r'^std::iter::Iterator::next$') and flags.PAIR_TY not in (x.self_ty or '')]
                    if nx and all(depth.get(x.b, 0) == 0 for x in nx):
                        ok = True
                        break
                    why = 'it is pushed when it DIFFERS from one of the user\'s older secrets (comparison at line %d)' % gc.ln
            ctx.check(ok, 'core::primitives::refresh_coordinate_keys', 'push(master element) only newer-than-newest or matched',
                      'a master secret is pushed onto the refreshed chain (line %d) although %s: the refreshed key receives secrets it '
                      'never held' % (c.ln, why), 'before the newest user secret is found, or equal to a user secret', c.where())
    ctx.floor(n, 2, 'pushes of master-chain elements')


@rule('C05', 'instance-is-stateless')
def instance_is_stateless(ctx):
    """'pruned and deleted secrets leave refreshed keys' for every history of edits: the universe of rights handed to update_msk is recomputed from the access structure as it is now — nothing memoised inside the structure or the instance can outlive a deletion. Structurally: the scheme instance holds its random generator and nothing else, and no type of the crate has an
    interior-mutable field — no cache, no memo, no static, no thread-local (C19.state-audit)."""
    from . import c19
    c19.state_audit(ctx)
