"""C05 — revocation takes effect: pruned and deleted secrets leave refreshed keys."""
import re

from ..engine import prop, rule
from ..facts import op_local, op_place, is_place, backward_slice, switch_on, bool_edges, copy_chain_sources, IDENTITY_CALLS
from .. import lib, flags
from .c02 import eq_guards, root_descr

prop('C05',
     explanation=(
         'subsequence (E-PROV + E-DOM): in refresh_coordinate_keys every element pushed onto the refreshed chain is '
         'either a clone of an element of the master chain of the same right, or a user secret whose push is dominated '
         'by the equal edge of a comparison with a master-chain element (directly, or through a relay flag that is '
         'set only on that edge) — the user chain stays a sub-sequence of the master chain, so pruned secrets cannot '
         'come back. unknown-rights-dropped: the refreshed chain of a right is built only under the Some edge of the '
         'keyed lookup of that right in the master key. prune-newest: prune truncates each right through '
         'RevisionMap::keep(_, 1) with the literal 1, and keep retains the head (split_off(n) returns the tail).'),
     not_decided='decapsulation outcomes after prune / delete over histories (needs execution)',
     assumptions=['LinkedList::split_off(n) keeps the first n elements', 'derived PartialEq on RightSecretKey compares all fields'])

PUSH = (r'^std::collections::LinkedList::<[^>]*>::push_(back|front)$', r'^std::collections::LinkedList::<[^>]*>::(append|extend)$',
        r'^std::iter::Extend::extend$')


def implied_edges(body, guard):
    """Edges on which the equality `guard` is known to have held: its own equal edge and the
    true edges of switches on relay flags (bool locals set to true only under that edge)."""
    (c, te, fe) = guard
    out = [te]
    defs = body.defs()
    for l, ds in defs.items():
        if body.local_ty(l) != 'bool' or body.is_param(l):
            continue
        consts = []
        ok = True
        for d in ds:
            if d.kind != 'assign' or d.lhs['p'] or d.rv['k'] != 'use' or 'c' not in d.rv['a']:
                ok = False
                break
            consts.append((d.b, bool(d.rv['a']['c'].get('v'))))
        if not ok or not any(v for _, v in consts) or not any(not v for _, v in consts):
            continue
        if all(body.edge_dominates(te, b) for b, v in consts if v):
            for (sb, neg) in switch_on(body, l):
                t_e, f_e = bool_edges(body, sb, neg)
                if t_e is not None:
                    out.append(t_e)
    return out


def from_master_chain(F, body, op):
    calls = lib.deep_calls(F, body, [op])
    return any(flags.chain_iteration_call(c) or (c.is_(r'LinkedList::<[^>]*>::(iter|front|back)$') and flags.PAIR_TY in c.full)
               for c in calls)


@rule('C05', 'subsequence', configs=('default', 'p256'))
def subsequence(ctx):
    F = ctx.F
    fam = F.family('core::primitives::refresh_coordinate_keys')
    n = 0
    for body in fam:
        guards = [g for g in eq_guards(body) if 'RightSecretKey' in (g[0].self_ty or '')]
        for c in body.calls(*PUSH):
            if 'RightSecretKey' not in c.full or flags.PAIR_TY in c.full:
                continue
            n += 1
            val = c.args[1]
            if from_master_chain(F, body, val):
                ctx.ok('core::primitives::refresh_coordinate_keys', 'push(master element)',
                       'clone of an element of the master chain', c.where())
                continue
            # a user secret: must be known to belong to the master chain
            vroots = lib.roots_of(body, val)
            ok = False
            for g in guards:
                (gc, te, fe) = g
                sides = [lib.roots_of(body, a) for a in gc.args]
                # one side is the pushed user secret, the other a master-chain element
                for i in (0, 1):
                    same = bool(sides[i] & vroots) or bool(
                        set(r[1:] for r in copy_chain_sources(body, gc.args[i], through_calls=IDENTITY_CALLS) if r[0] in ('call',)) and False)
                    if not same:
                        # compare by underlying local: &&x vs x
                        la = set(backward_slice(body, [gc.args[i]], follow_mutarg=False).locals)
                        lv = op_local(val)
                        cur, _d = lib.resolve_copy(body, lv)
                        same = cur in la or lv in la
                    if same and from_master_chain(F, body, gc.args[1 - i]):
                        if body.edges_dominate(implied_edges(body, g), c.b):
                            ok = True
            ctx.check(ok, 'core::primitives::refresh_coordinate_keys', 'push(user secret)<=found-in-master-chain',
                      'a secret taken from the user key is pushed onto the refreshed chain (line %d) without being '
                      'known to belong to the master chain: a pruned secret survives the refresh' % c.ln,
                      'dominated by the equal edge of a comparison with a master-chain element', c.where())
    ctx.floor(n, 3, 'pushes onto the refreshed chain')


@rule('C05', 'unknown-rights-dropped', configs=('default', 'p256'))
def unknown_rights_dropped(ctx):
    F = ctx.F
    fam = F.family('core::primitives::refresh_coordinate_keys')
    n = 0
    for body in fam:
        for b in sorted(body.live_blocks()):
            for st in body.stmts(b):
                rv = st['rv']
                if not (rv['k'] == 'agg' and rv.get('adt') == 'std::option::Option' and rv['variant'] == 'Some'):
                    continue
                if 'LinkedList<core::RightSecretKey>' not in body.local_ty(st['lhs']['l']):
                    continue
                n += 1
                # the body must run under the Some edge of a keyed lookup in msk.secrets
                ok = False
                cur = body
                for _ in range(4):
                    for (pb, c, idx) in lib.closure_consumers(F, cur):
                        if c.is_(r'^std::option::Option::<T>::(and_then|map)$'):
                            recv = c.args[0]
                            calls = lib.deep_calls(F, pb, [recv])
                            if any(x.is_(r'RevisionMap::<K, V>::(get|get_latest)$') and flags.PAIR_TY in x.full for x in calls):
                                ok = True
                    if ok or cur.parent not in F.bodies:
                        break
                    cur = F.bodies[cur.parent]
                if not ok:
                    # the same decision written with `?` / `match` on the lookup in the body that builds the chain
                    edges = []
                    for x in body.calls(r'RevisionMap::<K, V>::(get|get_latest)$'):
                        if flags.PAIR_TY in x.full:
                            edges += lib.present_edges(body, x)
                    ok = bool(edges) and body.edges_dominate(edges, b)
                ctx.check(ok, 'core::primitives::refresh_coordinate_keys', 'chain-built<=right-in-master-key',
                          'a refreshed chain is produced (line %d) outside the Some edge of the lookup of its right in '
                          'the master key: rights deleted from the master key survive the refresh' % st['ln'],
                          'closure of Option::and_then on msk.secrets.get(right)', body.where(st['ln']))
    ctx.floor(n, 1, 'refreshed chains produced')
    # keep_old = false: secrets only from the head of the master chain of the same right
    rb = F.fn('core::primitives::refresh')
    fam = lib.reach_bodies(F, rb.key)
    heads = []
    for body in fam:
        heads += body.calls(r'RevisionMap::<K, V>::get_latest$', r'MasterSecretKey::get_latest_right_sk$')
    ctx.check(bool(heads), rb.key, 'no-keep-old<=get_latest',
              'refresh without keep-old does not take the newest master secret through get_latest', 'get_latest', rb.where())


@rule('C05', 'prune-newest', configs=('default',))
def prune_newest(ctx):
    F = ctx.F
    pb = F.fn('core::primitives::prune')
    ks = []
    for body in F.family(pb.key):
        ks += body.calls(r'RevisionMap::<K, V>::keep$')
    muts = []
    for body in F.family(pb.key):
        for c in body.calls():
            if c.args and any(r[0] == 'param' and r[2] and r[2][-1] == 'secrets' for r in root_descr(body, c.args[0])):
                muts.append(c)
    ctx.floor(len(ks), 1, 'RevisionMap::keep in prune')
    for c in ks:
        v = lib.classify_scalar(c.body, c.args[2])
        ctx.check(v == ('const', 1), pb.key, 'keep(_, 1)',
                  'prune keeps %s secrets per right (line %d); exactly the newest one must remain' % (
                      v[1] if v[0] == 'const' else 'a non-constant number of', c.ln), 'literal 1', c.where())
    other = [c for c in muts if c.name not in ('keep',)]
    ctx.check(not other, pb.key, 'only-keep', 'prune also applies %s to the master secrets' % [c.name for c in other],
              'keep is the only operation', pb.where())
    # keep retains the head: split_off(n) on the chain, result returned (the tail)
    kb = F.fn('data_struct::revision_map::RevisionMap::<K, V>::keep')
    so = kb.calls(r'LinkedList::<[^>]*>::split_off$')
    ctx.check(len(so) == 1, kb.key, 'keep=split_off(n)',
              'RevisionMap::keep no longer truncates with LinkedList::split_off', 'split_off', kb.where())
    for c in so:
        nr = [r for r in root_descr(kb, c.args[1]) if r[0] == 'param']
        ctx.check(any(kb.local_ty(r[1]) == 'usize' for r in nr), kb.key, 'split_off(n)',
                  'split_off is not applied at the requested length n', 'at = n', c.where())
        other_muts = [x for x in kb.calls(r'LinkedList::<[^>]*>::(pop_front|pop_back|clear|push_front|push_back|append|retain)$')]
        ctx.check(not other_muts, kb.key, 'no-other-mutation', 'keep also mutates the chain through %s' % [x.name for x in other_muts],
                  'split_off only', kb.where())
        # the retained part is the receiver (head); the returned part is the split-off tail
        sl = backward_slice(kb, [0], follow_mutarg=False)
        ctx.check(any(x is c for x in sl.calls), kb.key, 'returns-tail',
                  'keep does not return the split-off tail (the head may be what is discarded)', 'returns split_off(n)', c.where())


@rule('C05', 'update-drops', configs=('default', 'p256'))
def update_drops(ctx):
    """Deleted rights leave the master key on update: the retain by membership in the universe runs on every
    successful update, before anything is inserted."""
    from . import c03, c06
    c03.update_reconciles(ctx)
    F = ctx.F
    ub = F.fn('core::primitives::update_msk')
    rt = ub.calls(r'RevisionMap::<K, V>::retain$')
    oks = [b for b in sorted(ub.live_blocks()) for st in ub.stmts(b)
           if st['rv']['k'] == 'agg' and st['rv'].get('adt') == 'std::result::Result' and st['rv']['variant'] == 'Ok' and st['lhs']['l'] == 0]
    ctx.check(len(rt) == 1 and oks and all(ub.block_dominates(rt[0].b, b) for b in oks), ub.key, 'retain on every successful update',
              'update_msk can succeed without dropping the secrets of rights that left the universe (the retain is conditional or '
              'missing): keys refreshed afterwards keep deleted rights', 'retain dominates Ok(())', ub.where())


@rule('C05', 'single-pass-merge', configs=('default', 'p256'))
def single_pass_merge(ctx):
    """The merge of a user chain with the master chain walks the master chain ONCE: the search for the user's newest secret and
    the lock-step comparison of the older ones advance the same iterator (otherwise the second phase restarts at the head, diverges
    at once and drops — or wrongly keeps — secrets)."""
    F = ctx.F
    fam = F.family('core::primitives::refresh_coordinate_keys')
    n = 0
    for fb in fam:
        its = [c for c in fb.calls(r'LinkedList::<[^>]*>::iter$') if flags.PAIR_TY in c.full]
        if not its:
            continue
        n += 1
        ctx.check(len(its) == 1, 'core::primitives::refresh_coordinate_keys', 'master chain iterated once',
                  'the master chain is iterated %d times (lines %s): the two phases of the merge do not share one position in the master '
                  'chain' % (len(its), [c.ln for c in its]), 'one LinkedList::iter() over the master chain', its[0].where())
        nx = [c for c in fb.calls(r'^std::iter::Iterator::next$') if flags.PAIR_TY in (c.self_ty or '')]
        src = set()
        for c in nx:
            l, _d = lib.resolve_copy(fb, op_local(c.args[0])) if is_place(c.args[0]) else (None, None)
            sl = backward_slice(fb, [c.args[0]], follow_mutarg=False)
            src |= set(x.b for x in sl.calls if x.is_(r'LinkedList::<[^>]*>::iter$'))
        ctx.check(len(nx) >= 2 and len(src) == 1, 'core::primitives::refresh_coordinate_keys', 'both phases advance the same iterator',
                  'the %d next() calls over the master chain draw from %d iterators' % (len(nx), len(src)), 'same iterator', fb.where())
    ctx.floor(n, 1, 'merge bodies')


@rule('C05', 'refresh-always-rebuilds', configs=('default', 'p256'))
def refresh_always_rebuilds(ctx):
    """Any user key refreshed afterwards no longer holds removed secrets: every successful return of refresh is dominated by
    the replacement of usk.secrets with chains rebuilt from the master key — there is no 'already up to date' shortcut."""
    from .c02 import field_writers
    F = ctx.F
    rb = F.fn('core::primitives::refresh')
    ws = [w for w in field_writers(F, 'core::UserSecretKey', 'secrets') if w[0] is rb and w[2] == 'assign']
    oks = [(b, st) for b in sorted(rb.live_blocks()) for st in rb.stmts(b)
           if st['rv']['k'] == 'agg' and st['rv'].get('adt') == 'std::result::Result' and st['rv']['variant'] == 'Ok' and st['lhs']['l'] == 0]
    wblocks = []
    for b in sorted(rb.live_blocks()):
        for st in rb.stmts(b):
            lp = st['lhs']['p']
            if lp and isinstance(lp[-1], dict) and lp[-1].get('n') == 'secrets' and lp[-1].get('o') == 'core::UserSecretKey':
                sl = backward_slice(rb, [st['rv'].get('a')] if st['rv'].get('a') else [], follow_mutarg=False)
                if sl.has_call(r'primitives::refresh_coordinate_keys$') or lib.deep_calls(F, rb, [st['rv']['a']]):
                    wblocks.append(b)
    ctx.check(bool(oks) and bool(wblocks) and all(any(rb.block_dominates(w, b) for w in wblocks) for (b, _s) in oks), rb.key,
              'Ok(()) <= usk.secrets rebuilt', 'refresh can return Ok(()) without having replaced the secrets of the user key by chains '
              'rebuilt from the master key (an early-success path): pruned or deleted secrets survive such a refresh',
              'every Ok(()) dominated by `usk.secrets = <rebuilt chains>`', rb.where())
