"""C07 — encapsulations and ciphertexts are non-malleable (E-TRANS coverage, strict tags, AEAD wiring)."""
import re

from ..engine import prop, rule
from ..facts import (op_local, op_place, is_place, backward_slice, copy_chain_sources, IDENTITY_CALLS, field_path)
from .. import lib, trans
from .c02 import root_descr
from . import c13

prop('C07',
     explanation=(
         'binding (E-TRANS, required coverage): in every encapsulating and opening function the four digests are '
         'computed over the transcript the scheme defines — T = H(traps [|| ML-KEM ciphertexts]), U = H(T || masked '
         'seeds), H = H(K1 [|| K2] || T), (tag, key) = J(S, U) — so every component of an XEnc influences acceptance; '
         'the same table is required of all sides, so dropping an input consistently everywhere (which keeps the '
         'test-suite green) is reported. The digests are wired: H_hash receives the T output, J_hash the U output, '
         'K2 is Some(ML-KEM secret) exactly in the hybridized functions. strict-flags: every flavour tag read from '
         'the wire has exactly the accepted values 0/1 and any other value reaches Err. aead: AE::decrypt and '
         'EncryptedHeader::decrypt return data only as the output of Dem::decrypt on (nonce = first NONCE_LENGTH '
         'bytes, body = rest) and pass their authentication_data parameter as associated data; generate passes the '
         'same parameter on the encrypting side.'),
     not_decided='byte-level malleability of encodings (non-minimal LEB128, point decoding canonicity) and AES-GCM '
                 'authenticity live in dependencies',
     assumptions=['SHA3 collision resistance', 'AES-256-GCM authenticity', 'Hasher::update absorbs its whole argument'])

POINT = r'(R25519Point|P256Point|PublicKey)$'
ENCAP = r'kem::mlkem::Encapsulation\d+$'
TRAPS_ORIGINS = (r'^param:c$', r'^param:encapsulation\.c$')
ENCS_ORIGINS = (r'^param:encs$', r'^param:encapsulation\.encapsulations\.@(H|C)Encs\.0$', r'^local:')


def base_origin(u):
    """`elem(param:encs).0` (a for-loop variable) and `param:encs` (the receiver of an iterator chain) name the same source."""
    o = re.sub(r'~(rev|partial)', '', u.origin)
    m = re.match(r'^(?:elem\()+([^()]*)\)+(?:\.[^.]+)*$', o)
    return m.group(1) if m else o


def traps_like(u):
    """The iterated points are the traps of the encapsulation: a parameter that is a slice / Vec of points, or
    the `c` field of an XEnc parameter."""
    rt, rp = getattr(u, 'root_ty', ''), tuple(x for x in getattr(u, 'root_path', ()) if not str(x).startswith('@'))
    if re.search(r'core::XEnc$', trans.strip_ref(rt)) and rp[-1:] == ('c',):
        return True
    bo = base_origin(u)
    if bo.startswith('param:') and '.' not in bo and re.search(r'(\[|Vec<).*(Point|PublicKey)', rt):
        return True
    return any(re.search(p, bo) for p in TRAPS_ORIGINS)


def encs_like(u):
    rt, rp = getattr(u, 'root_ty', ''), tuple(getattr(u, 'root_path', ()))
    if re.search(r'core::XEnc$', trans.strip_ref(rt)) and 'encapsulations' in rp:
        return True
    if u.origin.startswith('local:'):
        return True
    bo = base_origin(u)
    if bo.startswith('local:'):
        return True
    if bo.startswith('param:') and '.' not in bo and re.search(r'(\[|Vec<)', rt) and not re.search(r'(Point|PublicKey)', rt):
        return True
    return any(re.search(p, bo) for p in ENCS_ORIGINS)


def role(u):
    """Scheme-level role of a transcript input (marked when the source is not absorbed entirely / in its own order)."""
    r = role_(u)
    m = re.findall(r'~(rev|partial)', u.origin)
    return r + ''.join('~' + x for x in sorted(set(m)))


def role_(u):
    if u.origin.startswith('hash-output#'):
        return 'digest' + u.origin[-1]
    if u.kind == 'iter' and re.search(POINT, u.dtype):
        return 'traps' if traps_like(u) else 'points-from(%s)' % u.origin
    if u.kind == 'iter' and re.search(ENCAP, u.dtype):
        return 'E' if encs_like(u) else 'E-from(%s)' % u.origin
    if u.kind == 'iter' and re.match(r'^\[u8; \d+\]$', u.dtype):
        return 'F' if encs_like(u) else 'F-from(%s)' % u.origin
    return '%s:%s:%s' % (u.kind, u.origin, u.dtype.split('::')[-1])


def flavour_events(h, flavour):
    out = []
    for u in h.events:
        if '@HEncs' in u.origin and flavour != 'hybrid':
            continue
        if '@CEncs' in u.origin and flavour != 'classic':
            continue
        out.append(u)
    return out


REQUIRED = {
    'classic': (['traps'], ['digest1', 'F']),
    'hybrid': (['traps', 'E'], ['digest1', 'F']),
}
SIDES = [
    ('core::primitives::c_encaps', ['classic']),
    ('core::primitives::h_encaps', ['hybrid']),
    ('core::primitives::c_decaps', ['classic']),
    ('core::primitives::h_decaps', ['hybrid']),
    ('core::primitives::full_decaps', ['classic', 'hybrid']),
]


def tu_roles(F, key):
    body = F.fn(key)
    hs = [h for h in trans.transcripts(F, body) if 'Sha3' in h.algo]
    return body, hs


@rule('C07', 'binding', configs=('default', 'p256'))
def binding(ctx):
    F = ctx.F
    n_h = 0
    n_u = 0
    for (key, flavours) in SIDES:
        body, hs = tu_roles(F, key)
        n_h += len(hs)
        n_u += sum(len(h.events) for h in hs)
        if len(hs) != 2:
            ctx.bad(key, 'two digests T,U', '%s computes %d SHA3 digests, expected T and U' % (key, len(hs)), body.where())
            continue
        for fl in flavours:
            reqT, reqU = REQUIRED[fl]
            gotT = [role(u) for u in flavour_events(hs[0], fl)]
            gotU = [role(u) for u in flavour_events(hs[1], fl)]
            ctx.check(gotT == reqT, key, 'T(%s) = H(%s)' % (fl, ' || '.join(reqT)),
                      'the digest T of %s (%s flavour) absorbs [%s], the scheme requires [%s]: a component of the '
                      'encapsulation no longer influences the tag' % (key, fl, ', '.join(gotT), ', '.join(reqT)),
                      'T absorbs ' + ', '.join(gotT), body.where(hs[0].ctor.ln))
            ctx.check(gotU == reqU, key, 'U(%s) = H(%s)' % (fl, ' || '.join(reqU)),
                      'the digest U of %s (%s flavour) absorbs [%s], the scheme requires [%s]' % (
                          key, fl, ', '.join(gotU), ', '.join(reqU)),
                      'U absorbs ' + ', '.join(gotU), body.where(hs[1].ctor.ln))
        # wiring of H_hash / J_hash
        outT, outU = hs[0].out_local, hs[1].out_local
        fam = F.family(key)
        nH = nJ = 0
        for fb in fam:
            for c in fb.calls(r'primitives::H_hash$'):
                nH += 1
                rb, l = root_local(F, fb, c.args[2])
                ctx.check(rb is body and l == outT, key, 'H_hash(.., T)',
                          'H_hash (line %d) is not given the digest T computed over the encapsulation (got %s)' % (
                              c.ln, rb.var_name(l) if rb else None), 'third argument = T', c.where())
                # K2: Some(ML-KEM secret) in hybrid code, None in classic code
                k2 = k2_kind(F, fb, c.args[1])
                want = expected_k2(key, fb, c)
                ctx.check(k2 in want, key, 'H_hash(K1, %s, T)' % '/'.join(want),
                          'H_hash (line %d) receives K2 = %s where %s is required: the ML-KEM shared secret %s bound into '
                          'the masked seed' % (c.ln, k2, ' or '.join(want), 'is not' if 'Some' in want[0] else 'must not be'),
                          'K2 = %s' % k2, c.where())
            for c in fb.calls(r'primitives::J_hash$'):
                nJ += 1
                rb, l = root_local(F, fb, c.args[1])
                ctx.check(rb is body and l == outU, key, 'J_hash(S, U)',
                          'J_hash (line %d) is not given the digest U computed over T and the masked seeds' % c.ln,
                          'second argument = U', c.where())
        ctx.check(nH >= 1 and nJ >= 1, key, 'uses H_hash and J_hash', '%s no longer derives the masked seed / tag through '
                  'H_hash and J_hash' % key, '%d H_hash, %d J_hash call(s)' % (nH, nJ), body.where())
    ctx.floor(n_h, 10, 'SHA3 hasher instances in the five encapsulating / opening functions')
    ctx.floor(n_u, 18, 'update sites')
    # H_hash and J_hash themselves
    hb = F.fn('core::primitives::H_hash')
    hh = trans.transcripts(F, hb)
    got = [(u.origin.split('.')[0], u.via) for h in hh for u in h.events]
    ctx.check(len(hh) == 1 and [g[0] for g in got] == ['param:K1', 'param:K2', 'param:T'], hb.key, 'H = H(K1 || K2? || T)',
              'H_hash absorbs %s, the scheme requires K1, K2 (when present), T in this order' % got, str(got), hb.where())
    jb = F.fn('core::primitives::J_hash')
    jh = trans.transcripts(F, jb)
    gotj = [u.origin for h in jh for u in h.events]
    ctx.check(len(jh) == 1 and gotj == ['param:S', 'param:U'] and 'v384' in jh[0].algo, jb.key, 'J = SHA3-384(S || U)',
              'J_hash absorbs %s with %s, the scheme requires S, U under SHA3-384' % (gotj, jh[0].algo if jh else '?'),
              str(gotj), jb.where())
    # the tag and the key are disjoint parts of J's output covering it
    rngs = [(k, n) for (k, n, _c) in lib.const_splits(jb)]
    taglen = (F.consts.get('core::TAG_LENGTH') or {}).get('v', 16)
    ctx.check(sorted(rngs) == sorted([('RangeTo', (taglen,)), ('RangeFrom', (taglen,))]), jb.key, 'tag = J[..TAG], key = J[TAG..]',
              'J_hash splits its output at %s; tag and key must be the disjoint parts [..%d] and [%d..]' % (rngs, taglen, taglen),
              'split at TAG_LENGTH', jb.where())


def root_local(F, body, op, depth=0):
    """(root body, local) an operand refers to, following captured variables."""
    l, path, _s, _d = trans.base_of(body, op)
    if l is None:
        return None, None
    if body.kind == 'Closure' and l == 1 and depth < 5:
        sl = backward_slice(body, [op], follow_mutarg=False)
        for pl in sl.places:
            f = lib.env_field_of(pl)
            if f is not None:
                pb, cop = lib.upvar_operand(F, body, f)
                if pb is not None and cop is not None and is_place(cop):
                    return root_local(F, pb, cop, depth + 1)
        return None, None
    return body, l


def k2_kind(F, body, op):
    """'Some(kem)' | 'None' | 'param' | other"""
    if 'c' in op:
        return 'const'
    l = op_local(op)
    cur, d = lib.resolve_copy(body, l)
    if d is None:
        return 'unknown'
    if d.kind == 'assign' and d.rv['k'] == 'agg' and d.rv.get('adt') == 'std::option::Option':
        if d.rv['variant'] == 'None':
            return 'None'
        calls = lib.deep_calls(F, body, d.rv['ops'])
        if any(c.is_(r'traits::Kem::(dec|enc)$') for c in calls):
            return 'Some(kem)'
        # the shares may sit in a Vec filled by push() in a first loop and read back in a second one
        calls = lib.deep_calls(F, body, d.rv['ops'], follow_mutarg=True)
        if any(c.is_(r'traits::Kem::(dec|enc)$') for c in calls):
            return 'Some(kem)'
        return 'Some(other)'
    if d.kind == 'call' and d.call.is_(r'^std::option::Option::<T>::as_ref$'):
        rl, rp, _s, _d = trans.base_of(body, d.call.args[0])
        if body.is_param(rl):
            return 'param'
        if rl is not None and not rp:
            # the parameter of an opening function that was inlined: what the call site passed
            return k2_kind(F, body, {'cp': {'l': rl, 'p': []}})
    return 'unknown'


def encs_arm(body, b):
    """'HEncs' / 'CEncs' when block b is only reached through that arm of a match on an Encapsulations value."""
    for sb in sorted(body.live_blocks()):
        t = body.term(sb)
        if t['k'] != 'switch' or not is_place(t['d']):
            continue
        _, d = lib.resolve_copy(body, op_local(t['d']))
        if d is None or d.kind != 'assign' or d.rv['k'] != 'discr':
            continue
        pl = d.rv['pl']
        ty = body.local_ty(pl['l'])
        names = field_path(pl)
        if not (ty.endswith('core::Encapsulations') or (names and names[-1] == 'encapsulations')):
            continue
        for v, tgt in t['cases']:
            if body.edge_dominates((sb, tgt), b):
                return {0: 'HEncs', 1: 'CEncs'}.get(v)
    return None


def expected_k2(key, fb, c):
    if key.endswith('full_decaps'):
        if fb.kind == 'Closure':
            return ['param']
        arm = encs_arm(fb, c.b)
        return ['Some(kem)'] if arm == 'HEncs' else (['None'] if arm == 'CEncs' else ['(no Encapsulations arm)'])
    if '::h_' in key:
        return ['Some(kem)']
    return ['None']


@rule('C07', 'binding-full_decaps-callers', configs=('default', 'p256'))
def full_decaps_callers(ctx):
    """In full_decaps the opening closure takes K2 as a parameter: its call under the HEncs arm
    must pass Some(ML-KEM secret), the one under the CEncs arm None."""
    F = ctx.F
    body = F.fn('core::primitives::full_decaps')
    n = 0
    for c in body.calls(r'^std::ops::Fn(Mut|Once)?::call(_mut|_once)?$'):
        cl = lib.closure_args(F, c)
        if not cl or not any(cb.calls(r'primitives::H_hash$') for (_i, cb, _rv) in cl):
            continue
        n += 1
        # arguments are packed in a tuple: (right, K1, K2, F)
        tl = op_local(c.args[1])
        _, d = lib.resolve_copy(body, tl)
        if d is None or d.kind != 'assign' or d.rv['k'] != 'agg':
            ctx.bad(body.key, 'try_decaps(K2)', 'cannot decode the arguments of the opening closure call at line %d' % c.ln, c.where())
            continue
        ops = d.rv['ops']
        # K2 is the Option<Secret> argument, wherever it stands in the parameter list
        def _is_opt(o):
            ty = body.local_ty(op_local(o)) if is_place(o) else (o.get('c') or {}).get('ty', '')
            return ty.startswith('std::option::Option<')
        k2ops = [o for o in ops if _is_opt(o)]
        k2 = k2_kind(F, body, k2ops[0]) if len(k2ops) == 1 else 'unknown'
        sl = backward_slice(body, [ops[-1]], follow_mutarg=False)
        hyb = any('@HEncs' in '.'.join(map(str, field_path(p))) for p in sl.places)
        want = 'Some(kem)' if hyb else 'None'
        ctx.check(k2 == want, body.key, 'try_decaps(K2=%s) under %s' % (want, 'HEncs' if hyb else 'CEncs'),
                  'the opening closure is called (line %d) with K2 = %s under the %s arm; %s is required' % (
                      c.ln, k2, 'HEncs' if hyb else 'CEncs', want), 'K2 = %s' % k2, c.where())
    # an opening function inlined at its call sites is decided by the binding rule, arm by arm
    n += len([c for c in body.calls(r'primitives::H_hash$')])
    ctx.floor(n, 2, 'calls of the opening closure in full_decaps')


@rule('C07', 'strict-flags', configs=('default', 'p256'))
def strict_flags(ctx):
    F = ctx.F
    n = 0
    for (name, r, vals, lst) in c13.strict_tag_reads(ctx, F):
        if name.endswith('AccessStructure'):
            continue   # version check: single accepted value, handled below
        n += 1
        ctx.check(vals == [0, 1], name, 'tag values {0,1}',
                  'the flavour / kind tag of %s is compared with %s on read; exactly 0 and 1 are valid' % (name, vals),
                  'accepts exactly 0 and 1', r.where())
        # every Ok(..) is dominated by the equal edge of one of the comparisons
        edges = [c['te'] if c['op'] == 'Eq' else c['fe'] for (_v, c) in lst]
        oks = []
        for fb in [r]:
            for b in sorted(fb.live_blocks()):
                for st in fb.stmts(b):
                    rv = st['rv']
                    if rv['k'] == 'agg' and rv.get('adt') == 'std::result::Result' and rv['variant'] == 'Ok' and st['lhs']['l'] == 0:
                        oks.append((b, st['ln']))
            for c in fb.calls():
                if c.dest['l'] == 0 and not c.is_(r'FromResidual'):
                    oks.append((c.b, c.ln))
        bad = [ln for (b, ln) in oks if not r.edges_dominate(edges, b)]
        ctx.check(not bad and oks, name, 'other tag values -> Err',
                  'read of %s can return a value (line %s) without the tag being one of the accepted values: a tampered '
                  'flavour byte is accepted' % (name, bad[:2]), 'every success is under tag==0 or tag==1', r.where())
    ctx.floor(n, 4, 'tag-dispatching read implementations')


DEM_DEC = r'cosmian_crypto_core::Dem::decrypt$'
DEM_ENC = r'cosmian_crypto_core::Dem::encrypt$'


def param_named(body, name):
    for v in body.vars:
        if v['name'] == name and v['arg'] is not None and not v['pl']['p']:
            return v['pl']['l']
    return None


def identity_to_param(F, body, op, name, depth=0):
    """Identity-form provenance: is the operand (through copies, reborrows and captured
    variables only) the parameter `name` of the enclosing function?"""
    if depth > 5:
        return False
    srcs = copy_chain_sources(body, op)
    if not srcs:
        return False
    for s in srcs:
        if s[0] != 'param':
            return False
        p, path = s[1], s[2]
        if body.kind == 'Closure' and p == 1:
            # captured variable
            f = None
            sl = backward_slice(body, [op], follow_mutarg=False)
            for pl in sl.places:
                f = lib.env_field_of(pl)
                if f is not None:
                    break
            if f is None:
                return False
            pb, cop = lib.upvar_operand(F, body, f)
            if pb is None or cop is None or not identity_to_param(F, pb, cop, name, depth + 1):
                return False
        else:
            same = body.var_name(p) == name
            if not same and name == 'authentication_data':
                opts = lib.params_by_type(body, r'^std::option::Option<&\[u8\]>$')
                same = bool(opts) and p == opts[-1]
            if not same or [x for x in path if x != '*']:
                return False
    return True


@rule('C07', 'aead', configs=('default',))
def aead(ctx):
    F = ctx.F
    # --- AE::decrypt for Aes256Gcm
    aes = [b for b in F.fns() if b.name == 'decrypt' and b.impl_trait and b.impl_trait.endswith('traits::AE')]
    ctx.floor(len(aes), 1, 'AE::decrypt implementations')
    for body in aes:
        ds = body.calls(DEM_DEC)
        ctx.check(len(ds) == 1, body.key, 'one Dem::decrypt', 'AE::decrypt must call Dem::decrypt exactly once (found %d)' % len(ds),
                  '', body.where())
        if len(ds) != 1:
            continue
        d = ds[0]
        # the returned plaintext comes from that call
        sl = backward_slice(body, [0], follow_mutarg=False)
        okret = any(x is d for x in sl.calls)
        oks = [st for b in sorted(body.live_blocks()) for st in body.stmts(b)
               if st['rv']['k'] == 'agg' and st['rv'].get('adt') == 'std::result::Result' and st['rv']['variant'] == 'Ok'
               and st['lhs']['l'] == 0]
        oks = [st for st in oks if not any(x is d for x in backward_slice(body, st['rv']['ops'], follow_mutarg=False).calls)]
        ctx.check(okret and not oks, body.key, 'plaintext <- Dem::decrypt',
                  'AE::decrypt can return data that is not the output of Dem::decrypt', 'return value derives from Dem::decrypt',
                  body.where())
        check_split(ctx, F, body, d, 'ctx')
    # --- EncryptedHeader::decrypt
    hb = F.fn('encrypted_header::EncryptedHeader::decrypt')
    found = 0
    hfam = lib.reach_bodies(F, hb.key, stop=[b.key for b in F.fns() if b.name in ('decaps', 'encaps') or 'primitives' in b.key])
    for fb in hfam:
        for d in fb.calls(DEM_DEC):
            found += 1
            ctx.check(identity_to_param(F, fb, d.args[3], 'authentication_data'), hb.key, 'decrypt(aad <- authentication_data)',
                      'the associated data given to Dem::decrypt (line %d) is not the caller\'s authentication_data' % d.ln,
                      'aad is the parameter itself', d.where())
            check_split(ctx, F, fb, d, None)
            # key = derive(seed, [0]) with seed the decapsulated secret
            ks = backward_slice(fb, [d.args[0]], follow_mutarg=False).has_call(r'SymmetricKey::<[^>]*>::derive$')
            ctx.check(bool(ks), hb.key, 'metadata key <- derive(seed, label)',
                      'the metadata decryption key is not derived from the decapsulated seed', 'SymmetricKey::derive', d.where())
    ctx.check(found == 1, hb.key, 'one Dem::decrypt', 'EncryptedHeader::decrypt must decrypt the metadata with Dem::decrypt '
              'exactly once (found %d): metadata must not be returned unauthenticated' % found, '', hb.where())
    # metadata handed out only from that decryption
    for fb in hfam:
        for b in sorted(fb.live_blocks()):
            for st in fb.stmts(b):
                rv = st['rv']
                if rv['k'] == 'agg' and rv.get('adt') == 'encrypted_header::CleartextHeader':
                    mop = rv['ops'][rv['fields'].index('metadata')]
                    calls = lib.deep_calls(F, fb, [mop])
                    lz = False
                    for c in calls:
                        for (_i, cb, _rv) in lib.closure_args(F, c):
                            if cb.calls(DEM_DEC):
                                lz = True
                        cal = lib.local_callee(F, c)
                        if cal is not None and any(x.calls(DEM_DEC) for x in lib.reach_bodies(F, cal.key)):
                            lz = True
                    ctx.check(lz or any(c.is_(DEM_DEC) for c in calls), hb.key, 'metadata <- Dem::decrypt',
                              'the metadata of the cleartext header (line %d) is not the output of Dem::decrypt' % st['ln'],
                              'metadata derives from Dem::decrypt', fb.where(st['ln']))
    # --- EncryptedHeader::generate
    gb = F.fn('encrypted_header::EncryptedHeader::generate')
    found = 0
    for fb in F.family(gb.key):
        for e in fb.calls(DEM_ENC):
            found += 1
            ctx.check(identity_to_param(F, fb, e.args[3], 'authentication_data'), gb.key, 'encrypt(aad <- authentication_data)',
                      'the associated data given to Dem::encrypt (line %d) is not the caller\'s authentication_data' % e.ln,
                      'aad is the parameter itself', e.where())
    ctx.check(found == 1, gb.key, 'one Dem::encrypt', 'EncryptedHeader::generate must encrypt the metadata exactly once', '', gb.where())


def check_split(ctx, F, body, d, what):
    """nonce = input[..N], body = input[N..] with the same constant N and the same input."""
    nonce_sl = backward_slice(body, [d.args[1]], follow_mutarg=False)
    body_sl = backward_slice(body, [d.args[2]], follow_mutarg=False)
    CUT = (r'^std::ops::Index::index$', r'core::slice::<impl \[T\]>::get$')
    ni = [c for c in nonce_sl.calls if c.is_(*CUT) and len(c.args) == 2 and lib.range_arg(body, c.args[1])]
    bi = [c for c in body_sl.calls if c.is_(*CUT) and len(c.args) == 2 and lib.range_arg(body, c.args[1])]
    root = body.root or body.key
    sa_n = [c for c in nonce_sl.calls if c.is_(r'core::slice::<impl \[T\]>::split_at$')]
    sa_b = [c for c in body_sl.calls if c.is_(r'core::slice::<impl \[T\]>::split_at$')]
    if not ni and not bi and len(sa_n) == 1 and sa_b == sa_n:
        n_ = lib.classify_scalar(body, sa_n[0].args[1])
        # nonce = .0, body = .1 of the same split
        pn = set(tuple(x for x in field_path(p) if x in ('0', '1')) for p in nonce_sl.places if p['l'] == sa_n[0].dest['l'])
        pb_ = set(tuple(x for x in field_path(p) if x in ('0', '1')) for p in body_sl.places if p['l'] == sa_n[0].dest['l'])
        ok = n_[0] == 'const' and pn == {('0',)} and pb_ == {('1',)}
        ctx.check(ok, root, 'nonce = in[..N], body = in[N..]',
                  'the ciphertext is not split into nonce = first N bytes and body = the rest (split_at at line %d: %s / %s)' % (sa_n[0].ln, pn, pb_),
                  'split_at(N = %s)' % (n_[1],), d.where())
        return
    if len(ni) != 1 or len(bi) != 1:
        ctx.bad(root, 'nonce||body split', 'cannot find the nonce / body split of the ciphertext before Dem::decrypt (line %d)' % d.ln,
                d.where())
        return
    rn, rb_ = lib.range_arg(body, ni[0].args[1]), lib.range_arg(body, bi[0].args[1])
    same_in = bool(lib.roots_of(body, ni[0].args[0]) & lib.roots_of(body, bi[0].args[0]))
    ok = (rn is not None and rb_ is not None and rn[0] == 'RangeTo' and rb_[0] == 'RangeFrom'
          and rn[2][0][0] == 'const' and rn[2][0] == rb_[2][0] and same_in)
    ctx.check(ok, root, 'nonce = in[..N], body = in[N..]',
              'the ciphertext is not split into nonce = first N bytes and body = the rest with one constant N (line %d): %s / %s'
              % (d.ln, rn and (rn[0], rn[2]), rb_ and (rb_[0], rb_[2])), 'split at N = %s' % (rn[2][0][1] if rn else '?'), d.where())


@rule('C07', 'witness-private', tier='thorough')
def witness_private(ctx):
    from .. import witness
    witness.check(ctx, ['EncapsulationRepresentationIsPrivate'])


@rule('C07', 'rejection-guards', configs=('default', 'p256'))
def rejection_guards(ctx):
    """Binding every component into the tag only rejects modifications if the recomputed tag and traps are actually compared,
    on their full width, before a secret is handed out (C02.guard for user keys, C18.guard for the master key)."""
    from . import c02, c18
    c02.guard(ctx)
    c18.guard(ctx)


@rule('C07', 'errors-propagated')
def errors_propagated(ctx):
    """'Any modification of encrypted header metadata / PKE ciphertext is rejected': a failing AEAD decryption surfaces as an
    error — no Result is turned into None / a default on the decrypting paths."""
    from . import c09, c12
    F = ctx.F
    bodies = []
    roots = [b.key for b in F.fns() if b.name == 'decrypt' and b.impl_trait and (b.impl_trait.endswith('traits::AE') or 'traits::PkeAc' in b.impl_trait)]
    roots.append('encrypted_header::EncryptedHeader::decrypt')
    for r in roots:
        if r in F.bodies:
            bodies += c12.layer_bodies(F, r)
    c09.no_swallow(ctx, only=bodies)


@rule('C07', 'strict-counts', configs=('default', 'p256'))
def strict_counts(ctx):
    """'Any modification of any byte of a serialized encapsulation ... is rejected': the element counts are not absorbed by any
    transcript, so they are protected by strict parsing only — a reader that clamps or adjusts an announced count accepts a
    modified count byte (C13.announced-count-exact on the encapsulation and header readers)."""
    c13.restricted(ctx, r'(core::Encapsulations|core::XEnc|encrypted_header::EncryptedHeader)$', [c13.announced_count_exact, c13.read_keeps_every_element])


@rule('C07', 'instance-is-stateless')
def instance_is_stateless(ctx):
    """'any modification ... is rejected': an encapsulation is opened by checking ITS components against the key, never by recognising part of it (its tag, say) from an earlier call. Structurally: the scheme instance holds its random generator and nothing else — no cache, no memo, no static, no
    thread-local (C19.state-audit)."""
    from . import c19
    c19.state_audit(ctx)


@rule('C07', 'every-trap-reaches-the-transcript', configs=('default', 'p256'))
def every_trap_reaches_the_transcript(ctx):
    """'Any modification ... is rejected' for an APPENDED trap: `decaps` hands the encapsulation's own trap vector — whole, not a
    zipped, truncated or filtered copy of it — to c_decaps / h_decaps, which absorb it into T and re-derive every trap
    (C02.dispatch: argument provenance of the two calls)."""
    from . import c02
    c02.dispatch(ctx)
