"""C08 — only user keys issued by the master key are accepted for refresh."""
import re

from ..engine import prop, rule
from ..facts import (op_local, op_place, is_place, backward_slice, copy_chain_sources, IDENTITY_CALLS, switch_on, bool_edges)
from .. import lib, trans
from .c02 import root_descr, eq_guards

prop('C08',
     explanation=(
         'verify-first (E-DOM + E-ATOM): in refresh the call verify(msk, usk) and the propagation of its error dominate '
         'every other call and every write to *usk / *msk; verify recomputes the MAC with sign over the key\'s own id and '
         'secrets and compares the whole Option<[u8; 32]> with the stored signature (no prefix, no skip-when-absent path: '
         'Ok(()) is dominated by the equal edge). mac-covers (E-TRANS coverage): the KMAC transcript of sign contains the '
         'identifier markers, every right and every secret of every chain in key order, for both flavours (ML-KEM key '
         'included). mac-framing (E-TRANS injectivity): the transcript must be an injective encoding of '
         '(id, [(right, [secret])]): every iterated group is preceded by its count, every variable-length datum by its '
         'length, every enum by its variant tag. representation-private: the fields of UserSecretKey and the signing key '
         'are not visible outside the crate, so the forms that reach refresh are those read can parse.'),
     not_decided='unforgeability of KMAC; rejection of keys of another master key (keyed-MAC security); enumeration of '
                 'byte-level tamperings of the serialized key (needs execution)',
     assumptions=['KMAC256 unforgeability', 'PartialEq on Option<[u8; 32]> compares presence and all bytes'])


@rule('C08', 'verify-first', configs=('default', 'p256'))
def verify_first(ctx):
    F = ctx.F
    rb = F.fn('core::primitives::refresh')
    vs = rb.calls(r'primitives::verify$')
    ctx.check(len(vs) == 1, rb.key, 'calls verify', 'refresh calls verify %d times' % len(vs), '', rb.where())
    if len(vs) != 1:
        return
    v = vs[0]
    names = {'msk': lib.param_by_type(rb, r'core::MasterSecretKey$'), 'usk': lib.param_by_type(rb, r'core::UserSecretKey$')}
    ok = any(r[0] == 'param' and r[1] == names.get('msk') and not r[2] for r in root_descr(rb, v.args[0])) and \
        any(r[0] == 'param' and r[1] == names.get('usk') and not r[2] for r in root_descr(rb, v.args[1]))
    ctx.check(ok, rb.key, 'verify(msk, usk)', 'verify is not applied to the caller\'s master key and user key', 'verify(msk, usk)', v.where())
    # its error is propagated
    ts = [t for t in lib.try_sites(rb) if t.src_def is not None and t.src_def.kind == 'call' and t.src_def.call is v]
    okp = len(ts) == 1 and ts[0].residual is not None and not ts[0].residual.dest['p'] and \
        (ts[0].residual.dest['l'] == 0 or lib.flows_to(rb, ts[0].residual.dest['l']))
    ctx.check(okp, rb.key, 'verify(..)?', 'the result of verify is not propagated with `?`: a forged key is refreshed anyway',
              'error returned', v.where())
    if not okp:
        return
    cont = ts[0].cont
    sw = ts[0].sw_block
    # everything else happens after the success edge
    n = 0
    for c in rb.calls():
        if c is v or c is ts[0].branch or c is ts[0].residual:
            continue
        if c.b in (v.b,) or rb.block_dominates(c.b, v.b):
            # before verify: only pure borrows are acceptable
            ctx.bad(rb.key, 'call before verify(%s)' % c.name, '%s (line %d) runs before the integrity check' % (c.full[:60], c.ln), c.where())
            continue
        n += 1
        if c.is_(r'FromResidual::from_residual$', r'^std::ops::Try::branch$'):
            continue      # `?` plumbing (also the one that relays verify's own error out of an inlined helper): pure
        ctx.check(rb.edge_dominates((sw, cont), c.b), rb.key, '%s <= verified' % c.name,
                  '%s (line %d) can run although verify failed or was skipped' % (c.full[:70], c.ln), 'after the Ok edge of verify', c.where())
    MA = lib.MutAnalysis(F)
    for pn in ('usk', 'msk'):
        if pn not in names:
            continue
        ws, _D = MA.writes(rb, {names[pn]})
        for w in ws:
            n += 1
            ctx.check(rb.edge_dominates((sw, cont), w.b), rb.key, 'write(%s) <= verified' % pn,
                      '*%s is written (%s, line %d) on a path where the key was not verified' % (pn, w.desc[:60], w.ln),
                      'after the Ok edge of verify', rb.where(w.ln))
    ctx.floor(n, 5, 'calls / writes of refresh ordered after verify')
    # verify itself
    vb = F.fn('core::primitives::verify')
    sg = vb.calls(r'primitives::sign$')
    ctx.check(len(sg) == 1, vb.key, 'recomputes sign', 'verify does not recompute the signature with sign', '', vb.where())
    if len(sg) == 1:
        s = sg[0]
        # whatever the parameter order: one argument is the key's id, one its secrets
        roots = [r for a in s.args for r in root_descr(vb, a) if r[0] == 'param']
        a1 = a2 = roots
        ctx.check(any(r[2][-1:] == ('id',) for r in a1) and any(r[2][-1:] == ('secrets',) for r in a2), vb.key, 'sign(msk, usk.id, usk.secrets)',
                  'the recomputed MAC does not cover the key\'s own id and secrets', 'sign(msk, &usk.id, &usk.secrets)', s.where())
        gs = [g for g in eq_guards(vb) if 'Option<[u8; ' in (g[0].self_ty or '')]
        ctx.check(len(gs) == 1, vb.key, 'full-width comparison', 'verify does not compare the whole Option<[u8; 32]> signatures '
                  '(found %s)' % [g[0].self_ty for g in eq_guards(vb)], 'Option<[u8; 32]> == Option<[u8; 32]>', vb.where())
        if len(gs) == 1:
            (g, te, fe) = gs[0]
            sides = [backward_slice(vb, [a], follow_mutarg=False) for a in g.args]
            has_fresh = any(any(x is s for x in sl.calls) for sl in sides)
            has_stored = any(any(r[0] == 'param' and r[2][-1:] == ('signature',) for r in root_descr(vb, a)) for a in g.args)
            ctx.check(has_fresh and has_stored, vb.key, 'fresh vs stored', 'verify does not compare the recomputed signature with the one '
                      'stored in the key', 'sign(..) vs usk.signature', g.where())
            oks = [(b, st) for b in sorted(vb.live_blocks()) for st in vb.stmts(b)
                   if st['rv']['k'] == 'agg' and st['rv'].get('adt') == 'std::result::Result' and st['rv']['variant'] == 'Ok'
                   and not st['lhs']['p'] and (st['lhs']['l'] == 0 or lib.flows_to(vb, st['lhs']['l']))]
            for (b, st) in oks:
                ctx.check(vb.edge_dominates(te, b), vb.key, 'Ok(()) <= signatures equal',
                          'verify can accept (line %d) without the signatures being equal (e.g. when the key carries no signature)' % st['ln'],
                          'dominated by the equal edge', vb.where(st['ln']))
            ctx.check(bool(oks), vb.key, 'has Ok return', 'verify has no Ok(()) construction', '', vb.where())


FIXED_DEPENDENCY_TYPES = re.compile(r'^cosmian_crypto_core::(R25519PrivateKey|R25519PublicKey|R25519CurvePoint|Curve25519Secret|'
                                    r'SymmetricKey<\d+>|Secret<\d+>)$')


def canon(body, origin):
    """Name-free rendering of a transcript origin: parameters are named by the head of their type
    (`param:UserId`, `param:RevisionVec`), so that renaming a parameter does not change violation keys."""
    def rep(m):
        nm = m.group(1)
        for v in body.vars:
            if v['name'] == nm and v['arg'] is not None and not v['pl']['p']:
                ty = trans.strip_ref(body.local_ty(v['pl']['l']))
                head = ty.split('<')[0].split('::')[-1]
                return 'param:' + head
        return m.group(0)
    return re.sub(r'param:([A-Za-z_][A-Za-z_0-9]*)', rep, origin)


def is_fixed_len(F, ty, depth=0):
    """Serializable::length of this crate type is a constant: it does not read self, or only forwards to
    the length of a fixed-size dependency type (table: FixedSizeCBytes key types of cosmian_crypto_core)."""
    if FIXED_DEPENDENCY_TYPES.match(ty):
        return True
    for i in F.impls:
        if depth < 3 and i.get('trait', '').endswith('bytes_ser_de::Serializable') and i['self'].lstrip('&') == ty:
            ln = F.impl_method(i, 'length')
            if ln is not None:
                cs = ln.calls()
                if cs and all(c.is_(r'bytes_ser_de::Serializable::length$') and is_fixed_len(F, (c.self_ty or '').lstrip('&'), depth + 1) for c in cs):
                    return True
    for i in F.impls:
        if i.get('trait', '').endswith('bytes_ser_de::Serializable') and i['self'].lstrip('&') == ty:
            ln = F.impl_method(i, 'length')
            if ln is None:
                return False
            reads_self = False
            for b in sorted(ln.live_blocks()):
                for st in ln.stmts(b):
                    rv = st['rv']
                    pls = []
                    if rv['k'] == 'use' and is_place(rv['a']):
                        pls.append(op_place(rv['a']))
                    elif rv['k'] in ('ref', 'discr'):
                        pls.append(rv['pl'])
                    if any(p['l'] == 1 for p in pls):
                        reads_self = True
                if ln.term(b)['k'] == 'call':
                    reads_self = reads_self or any(is_place(a) and op_local(a) == 1 for a in ln.term(b)['args'])
            return not reads_self
    return False


@rule('C08', 'mac-covers', configs=('default', 'p256'))
def mac_covers(ctx):
    F = ctx.F
    sb = F.fn('core::primitives::sign')
    hs = [h for h in trans.transcripts(F, sb) if 'Kmac' in h.algo]
    ctx.check(len(hs) == 1, sb.key, 'one KMAC', 'sign uses %d KMAC instances' % len(hs), '', sb.where())
    if len(hs) != 1:
        return
    h = hs[0]
    got = set()
    for u in h.events:
      for o in canon(sb, u.origin).split('|'):
        if re.match(r'^elem\(param:UserId\)$', o):
            got.add('marker')
        elif re.match(r'^elem\(param:RevisionVec\)\.0$', o):
            got.add('right')
        # a secret is an element of the chain of an element of the key: EVERY revision of every right, not the head of a chain
        elif re.search(r'^elem\(elem\(param:RevisionVec\)\.1\)\.@Classic\.sk$', o):
            got.add('classic.sk')
        elif re.search(r'^elem\(elem\(param:RevisionVec\)\.1\)\.@Hybridized\.sk$', o):
            got.add('hybridized.sk')
        elif re.search(r'^elem\(elem\(param:RevisionVec\)\.1\)\.@Hybridized\.dk(\.@Some\.0)?$', o):
            got.add('hybridized.dk')
    for need in ('marker', 'right', 'classic.sk', 'hybridized.sk', 'hybridized.dk'):
        ctx.check(need in got, sb.key, 'MAC covers %s' % need,
                  'the KMAC transcript of sign does not absorb the %s of the key: that part can be changed without invalidating '
                  'the signature (transcript: %s)' % (need, h.events), 'absorbed', sb.where())
    # keyed with the master signing key, and the result is what is returned
    key_roots = [r for r in root_descr(sb, h.ctor.args[0]) if r[0] == 'param']
    keyed = any('signing_key' in r[2] for r in key_roots)
    if not keyed and key_roots and all('SymmetricKey' in sb.local_ty(r[1]) for r in key_roots):
        # the key is handed in by the callers: each of them must pass the signing key of the master key
        sites = [c for fb in F.fns() for c in fb.calls(r'primitives::sign$') if lib.local_callee(F, c) is sb]
        keyed = bool(sites)
        for c in sites:
            for r in key_roots:
                a = c.args[r[1] - 1] if r[1] - 1 < len(c.args) else None
                rs = [x for x in root_descr(c.body, a)] if a is not None else []
                if not any(x[0] == 'param' and 'signing_key' in x[2] and 'MasterSecretKey' in c.body.local_ty(x[1]) for x in rs):
                    keyed = False
    ctx.check(keyed, sb.key, 'keyed by msk.signing_key',
              'the KMAC is not keyed with the master signing key', 'Kmac::v256(signing_key, ..)', h.ctor.where())
    odd = [u.origin for u in h.events if '~' in u.origin]
    ctx.check(not odd, sb.key, 'MAC walks its inputs in their own order, entirely',
              'the KMAC transcript of sign absorbs %s reversed / partially: signatures issued by the pinned release no longer verify '
              '(and what is skipped is not authenticated)' % odd[:2], 'no rev / skip / take / filter on the way', sb.where())
    ctx.floor(len(h.events), 3, 'KMAC update sites')
    # order: markers, then per right: right, then its secrets (key order)
    roles = []
    for u in h.events:
        roles.append('marker' if 'param:UserId' in canon(sb, u.origin) else ('right' if u.origin.endswith(').0') else 'secret'))
    first_secret = roles.index('secret') if 'secret' in roles else len(roles)
    ctx.check(roles and roles[0] == 'marker' and 'right' in roles and roles.index('right') < first_secret, sb.key, 'order: id, right, secrets',
              'the MAC inputs are not absorbed in the order id, right, secrets (%s)' % roles, ' '.join(roles), sb.where())


DROPPING = r'^std::iter::Iterator::(filter|filter_map|skip|take|take_while|skip_while|step_by|nth|last|find|map_while|flatten|flat_map)$'


@rule('C08', 'mac-covers-every-element', configs=('default', 'p256'))
def mac_covers_every_element(ctx):
    """'... any modification — rights added, removed ...': the MAC walks EVERY right and EVERY secret of the key. Neither sign
    nor the crate-local iterators it walks the key with (RevisionVec::iter, UserId::iter, ...) drop elements: no filter / skip /
    take / step_by style adaptor on the way (a right the walk skips can be added to a key without invalidating its signature)."""
    F = ctx.F
    sb = F.fn('core::primitives::sign')
    bodies = lib.reach_bodies(F, sb.key, precise=True)
    n = 0
    for fb in bodies:
        root = fb.root or fb.key
        if not (root == sb.key or root.startswith('data_struct::') or root.startswith('core::UserId')):
            continue
        n += 1
        bad = fb.calls(DROPPING)
        ctx.check(not bad, root, 'walks every element',
                  '%s, which the signature walks the key with, drops elements (%s, line %d): what it skips is not covered by the MAC'
                  % (fb.key, bad[0].name if bad else '', bad[0].ln if bad else 0), 'no element-dropping adaptor', fb.where())
    ctx.floor(n, 3, 'bodies the signature walks the key with')


@rule('C08', 'mac-framing', configs=('default',))
def mac_framing(ctx):
    F = ctx.F
    sb = F.fn('core::primitives::sign')
    hs = [h for h in trans.transcripts(F, sb) if 'Kmac' in h.algo]
    if len(hs) != 1:
        ctx.bad(sb.key, 'one KMAC', 'sign uses %d KMAC instances' % len(hs), sb.where())
        return
    h = hs[0]
    # what is absorbed that could serve as framing: lengths / counts / tags
    framing = []
    for u in h.events:
        sl = backward_slice(u.body, [u.call.args[1]], follow_mutarg=False)
        if sl.has_call(*lib.LEN_CALLS) or sl.has_call(r'::(len|count)$') or any(d.rv and d.rv['k'] == 'discr' for d in sl.rvs if d.kind == 'assign'):
            framing.append(u)
    # groups = distinct iteration sources; data = variable-length types; enums = variant-dependent shapes
    for u in h.events:
        u.origin = canon(sb, u.origin)
    groups = []
    for u in h.events:
        m = re.match(r'^(elem\(.*\))', u.origin)
        if not m:
            continue
        src = u.origin
        # peel one elem( .. ) level per nesting
        depth = 0
        o = u.origin
        while o.startswith('elem('):
            depth += 1
            inner = o[5:]
            # find matching paren
            bal = 1
            j = 0
            for j, ch in enumerate(inner):
                if ch == '(':
                    bal += 1
                elif ch == ')':
                    bal -= 1
                    if bal == 0:
                        break
            coll = inner[:j]
            if coll not in groups:
                groups.append(coll)
            o = coll
    n = 0
    for g in groups:
        n += 1
        framed = any(g in (fu.origin or '') and 'len' in str(fu) for fu in framing)
        ctx.check(framed, sb.key, 'unframed:count(%s)' % g,
                  'the number of elements of %s is not absorbed before its elements: the MAC input is not an injective encoding, two '
                  'different arrangements of rights and secrets hash the same bytes' % g, 'count absorbed', sb.where())
    seen_t = set()
    for u in h.events:
        t = u.dtype
        if t in seen_t:
            continue
        seen_t.add(t)
        fixed = is_fixed_len(F, t) or re.match(r'^\[u8; \d+\]$', t)
        if not fixed:
            n += 1
            ctx.check(False if not framing else any(t in str(fu) for fu in framing), sb.key, 'unframed:len(%s)' % t.split('::')[-1],
                      'the variable-length datum %s is absorbed without its length: bytes can be shifted between it and its neighbours'
                      % t, 'length absorbed', sb.where())
        else:
            n += 1
            ctx.ok(sb.key, 'fixed-length(%s)' % t.split('::')[-1], 'Serializable::length is a constant', sb.where())
    variants = set()
    for u in h.events:
        for m in re.finditer(r'@(\w+)\.', u.origin):
            variants.add(m.group(1))
    if len(variants) > 1:
        n += 1
        shapes = {}
        for u in h.events:
            for m in re.finditer(r'@(\w+)\.', u.origin):
                shapes.setdefault(m.group(1), []).append(u.dtype.split('::')[-1])
        tagged = any(d.rv and d.rv['k'] == 'discr' for fu in framing for d in backward_slice(fu.body, [fu.call.args[1]]).rvs if d.kind == 'assign')
        ctx.check(tagged, sb.key, 'unframed:variant(RightSecretKey)',
                  'the flavour of a secret (%s) is not absorbed: a hybridized secret and a classic secret followed by other bytes '
                  'can hash identically' % shapes, 'variant tag absorbed', sb.where())
    ctx.floor(n, 5, 'framing obligations')


@rule('C08', 'representation-private', configs=('default',))
def representation_private(ctx):
    F = ctx.F
    for adt, fields in (('core::UserSecretKey', ('id', 'ps', 'secrets', 'signature')),
                        ('core::MasterSecretKey', ('tsk', 'secrets', 'signing_key')),
                        ('core::TracingSecretKey', ('s', 'tracers', 'users'))):
        a = F.adts.get(adt)
        if a is None:
            ctx.bad(adt, 'anchor-missing', 'type %s is gone' % adt)
            continue
        fs = {f['name']: f for v in a['variants'] for f in v['fields']}
        for f in fields:
            ctx.check(f in fs and not fs[f]['pub'], adt, 'field %s is private' % f,
                      'field `%s` of %s is visible outside the crate: a key can be assembled without going through read / the '
                      'issuing functions' % (f, adt), fs.get(f, {}).get('vis', '?')[:40], a['span'])


@rule('C08', 'witness-private', tier='thorough')
def witness_private(ctx):
    from .. import witness
    witness.check(ctx, ['UserKeyRepresentationIsPrivate', 'MasterKeyRepresentationIsPrivate'])


@rule('C08', 'rejection-leaves-keys-untouched', configs=('default', 'p256'))
def rejection_leaves_keys_untouched(ctx):
    """'... refuses it with an error and modifies nothing': in refresh no write to the user key or the master key can be
    followed by an error exit (C10.atomic restricted to refresh and what it calls on the tracing key)."""
    from . import c10
    c10.atomic(ctx, only=r'primitives::refresh$|TracingSecretKey::refresh_id$|primitives::usk_keygen$|api::Covercrypt::refresh_usk$')


@rule('C08', 'expected-signature-not-disclosed', configs=('default', 'p256'))
def expected_signature_not_disclosed(ctx):
    """'anything else is rejected': the signature the master key WOULD put on the submitted key is computed by `verify` for the
    comparison only. It is the very value a forger needs, so nothing else may be done with it: the value returned by `sign`
    inside `verify` flows to the equality test and nowhere else — not into the error message, not back to the caller, not into
    the key (a rejection that prints the expected signature turns refresh into a signing oracle: copy it into the key, retry)."""
    F = ctx.F
    vb = F.fn('core::primitives::verify')
    n = 0
    for fb in lib.family_ext(F, vb.key):
        for c in fb.calls(r'primitives::sign$'):
            n += 1
            S, sinks = lib.forward_uses(fb, c.dest['l'])
            bad = []
            cmp_seen = False
            for (kind, det, ln) in sinks:
                if kind == 'call':
                    cc, _i = det
                    if cc.is_(r'^std::cmp::PartialEq::(eq|ne)$'):
                        cmp_seen = True
                        continue
                    if cc.is_(r'^std::ops::FromResidual::from_residual$', r'^std::option::Option::<T>::(as_ref|as_deref|is_some|is_none)$',
                              r'^std::ops::Deref::deref$', r'^std::convert::AsRef::as_ref$', r'^subtle::ConstantTimeEq::ct_eq$',
                              r'^std::mem::drop$', r'^zeroize::Zeroize::zeroize$'):
                        continue
                    bad.append('%s (line %d)' % (cc.name, ln))
                else:
                    bad.append('%s (line %d)' % (kind, ln))
            ctx.check(not bad and cmp_seen, vb.key, 'expected signature used for the comparison only',
                      'verify does something else with the signature it computes for the submitted key than comparing it: %s — '
                      'whoever sees that value can put it into the forged key and have it accepted' % (bad[:2] or 'no comparison'),
                      'sign(..) -> == / != only', fb.where(c.ln))
    ctx.floor(n, 1, 'sign call in verify')
