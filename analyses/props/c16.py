"""C16 — every secret, nonce and identifier is fresh (provenance from the instance CSPRNG on every call)."""
import re

from ..engine import prop, rule
from ..facts import op_local, op_place, is_place, backward_slice, copy_chain_sources, IDENTITY_CALLS
from .. import lib, flags
from . import c07, c12

prop('C16',
     explanation=(
         'Freshness decided as provenance from the instance CSPRNG on every call (a necessary condition; uniqueness '
         'itself rests on the CSPRNG). nonce: at every Dem::encrypt the nonce derives from a Nonce::new(rng) executed in '
         'the same invocation whose rng is the function\'s RNG parameter or a guard of Covercrypt.rng; constants, fields '
         'and parameters as nonce sources are violations. seed: in encaps the seed is Secret::random(rng), the ElGamal '
         'scalar is G_hash(seed), the traps come from that scalar, ML-KEM encapsulations from MlKem::enc(ek, rng). '
         'ids-and-secrets: generate_user_id draws its free markers from SecretKey::random(rng); RightSecretKey::random '
         'draws from SecretKey::random(rng) and MlKem::keygen(rng); every secret stored in the master key comes from '
         'RightSecretKey::random or the wire. rng-threading: every function taking an RNG passes that same reference to '
         'its RNG-consuming callees; the only constructor of Covercrypt seeds from entropy; no from_seed / seed_from_u64 '
         'in the crate. labels: the metadata key label differs from the returned-secret label.'),
     not_decided='statistical uniqueness over long runs; quality of the entropy source',
     assumptions=['CsRng (ChaCha) is a CSPRNG seeded from OS entropy'])

RNG_TY = re.compile(r'CryptoRngCore|RngCore|rand_chacha|CsRng')
NONCE_NEW = r'Nonce<\w+> as cosmian_crypto_core::RandomFixedSizeCBytes<\w+>>::new|RandomFixedSizeCBytes::new$'
RANDOM = (r'traits::Sampling::random$', r'Secret::<[^>]*>::random$', r'RandomFixedSizeCBytes::new$', r'traits::Kem::(keygen|enc)$',
          r'traits::Nike::keygen$', r'RightSecretKey::random$', r'SymmetricKey::<[^>]*>::new$')


def rng_param(body):
    for p in range(1, body.argc + 1):
        if RNG_TY.search(body.local_ty(p)) and body.local_ty(p).startswith('&mut'):
            return p
    return None


def rng_source_ok(F, body, op, depth=0):
    """The RNG operand is (a reborrow of) the function's RNG parameter, or a guard of Covercrypt.rng."""
    srcs = copy_chain_sources(body, op, through_calls=(r'^std::ops::DerefMut::deref_mut$', r'^std::ops::Deref::deref$'))
    if not srcs:
        return False, 'no source'
    for s in srcs:
        if s[0] == 'param':
            p = s[1]
            if body.kind == 'Closure' and p == 1 and depth < 4:
                sl = backward_slice(body, [op], follow_mutarg=False)
                f = None
                for pl in sl.places:
                    f = lib.env_field_of(pl)
                    if f is not None:
                        break
                pb, cop = lib.upvar_operand(F, body, f) if f is not None else (None, None)
                if pb is None or cop is None:
                    return False, 'captured value of unknown origin'
                ok, why = rng_source_ok(F, pb, cop, depth + 1)
                if not ok:
                    return False, why
                continue
            if RNG_TY.search(body.local_ty(p)):
                continue
            return False, 'parameter %s is not an RNG' % (body.var_name(p) or p)
        elif s[0] == 'call':
            c = s[1]
            if c.is_(r'Result::<T, E>::(expect|unwrap)$'):
                sl = backward_slice(body, [c.args[0]], follow_mutarg=False)
                if sl.has_call(r'^std::sync::Mutex::<T>::lock$'):
                    continue
            if c.is_(r'api::Covercrypt::rng$'):
                continue
            cal = lib.local_callee(F, c)
            if cal is not None and cal.key in lib.guard_accessors(F):
                continue
            return False, 'RNG obtained from %s' % c.name
        else:
            return False, 'RNG is %s' % (s[0],)
    return True, 'instance / parameter RNG'


@rule('C16', 'nonce')
def nonce(ctx):
    F = ctx.F
    n = 0
    for body in F.fns():
        for e in body.calls(c07.DEM_ENC):
            n += 1
            root = body.root or body.key
            roots = copy_chain_sources(body, e.args[1], through_calls=IDENTITY_CALLS)
            news = [r[1] for r in roots if r[0] == 'call' and r[1].is_(r'::new$') and 'Nonce<' in r[1].full]
            ok = bool(roots) and len(news) == len(roots)
            why = 'nonce <- Nonce::new(rng)'
            if not ok:
                why = 'the nonce comes from %s' % [(r[0], getattr(r[1], 'name', r[1]) if r[0] == 'call' else r[1:2]) for r in roots]
            else:
                for nw in news:
                    k, w = rng_source_ok(F, body, nw.args[0])
                    if not k:
                        ok, why = False, 'Nonce::new is fed by something other than the instance RNG: %s' % w
            if ok:
                # nothing writes the nonce between Nonce::new and Dem::encrypt
                for nw in news:
                    nl = nw.dest['l']
                    holders = {nl}
                    for bb in sorted(body.live_blocks()):
                        for st in body.stmts(bb):
                            rv = st['rv']
                            if rv['k'] == 'use' and is_place(rv['a']) and op_local(rv['a']) in holders and not st['lhs']['p'] \
                                    and not op_place(rv['a'])['p']:
                                holders.add(st['lhs']['l'])
                    for hl in holders:
                        for d in body.defs().get(hl, []):
                            if d.kind == 'mutarg' or (d.kind == 'assign' and (d.via is not None or d.lhs['p'])):
                                ok, why = False, 'the nonce is overwritten after being drawn (%s, line %s)' % (
                                    d.call.name if d.call else 'assignment', d.call.ln if d.call else body.stmts(d.b)[d.i]['ln'])
            ctx.check(ok, root, 'Dem::encrypt(nonce <- Nonce::new(instance rng))',
                      'the AEAD nonce at line %d is not freshly drawn from the instance RNG in this invocation (%s): two '
                      'ciphertexts under one key may share a nonce' % (e.ln, why), why, e.where())
    ctx.floor(n, 2, 'Dem::encrypt call sites')


@rule('C16', 'seed', configs=('default', 'p256'))
def seed(ctx):
    F = ctx.F
    eb = F.fn('core::primitives::encaps')
    rp = rng_param(eb)
    rnd = [c for c in eb.calls(r'Secret::<[^>]*>::random$')]
    ctx.check(len(rnd) == 1 and rp is not None and rng_source_ok(F, eb, rnd[0].args[0])[0], eb.key, 'S <- Secret::random(rng)',
              'the encapsulated seed is not drawn with Secret::random from the RNG parameter', 'Secret::random(rng)', eb.where())
    gs = eb.calls(r'primitives::G_hash$')
    okg = len(gs) == 1 and len(rnd) == 1 and bool(lib.roots_of(eb, gs[0].args[0]) & {('call', rnd[0].b)})
    ctx.check(okg, eb.key, 'r <- G_hash(S)', 'the ElGamal scalar is not G_hash of the fresh seed', 'G_hash(&S)', eb.where())
    st = eb.calls(r'MasterPublicKey::set_traps$')
    okt = len(st) == 1 and len(gs) == 1 and any(x is gs[0] for x in backward_slice(eb, [st[0].args[1]], follow_mutarg=False).calls)
    ctx.check(okt, eb.key, 'c <- set_traps(r)', 'the traps are not derived from the fresh scalar', 'set_traps(&r)', eb.where())
    # the seed / scalar / traps handed to the flavour functions are those
    for c in eb.calls(r'primitives::(h|c)_encaps$'):
        a = c.args
        ok = len(rnd) == 1 and any(x is rnd[0] for x in backward_slice(eb, [a[0]], follow_mutarg=False).calls) \
            and any(x is st[0] for x in backward_slice(eb, [a[1]], follow_mutarg=False).calls if st) \
            and any(x is gs[0] for x in backward_slice(eb, [a[2]], follow_mutarg=False).calls if gs)
        ctx.check(ok, eb.key, '%s(S, c, r)' % c.name, '%s is not given the fresh seed, its traps and its scalar' % c.name,
                  '(S, c, r) fresh', c.where())
    hb = F.fn('core::primitives::h_encaps')
    n = 0
    for fb in F.family(hb.key):
        for c in fb.calls(r'traits::Kem::enc$'):
            n += 1
            k, w = rng_source_ok(F, fb, c.args[1])
            ctx.check(k, hb.key, 'MlKem::enc(ek, rng)', 'ML-KEM encapsulation randomness does not come from the RNG parameter: %s' % w,
                      w, c.where())
    ctx.floor(n, 1, 'MlKem::enc call sites')
    # no secret default / zero seed
    bad = eb.calls(r'Secret::<[^>]*>::(new|default)$', r'std::default::Default::default$')
    ctx.check(not [b for b in bad if 'Secret' in b.full], eb.key, 'no default seed',
              'encaps builds a Secret with new()/default(): an all-zero seed is not fresh', 'none', eb.where())


@rule('C16', 'ids-and-secrets', configs=('default', 'p256'))
def ids_and_secrets(ctx):
    F = ctx.F
    gu = F.fn('core::TracingSecretKey::generate_user_id')
    n = 0
    for fb in F.family(gu.key):
        for c in fb.calls(r'traits::Sampling::random$'):
            n += 1
            k, w = rng_source_ok(F, fb, c.args[0])
            ctx.check(k, gu.key, 'marker <- SecretKey::random(rng)', 'a user-id marker is not drawn from the RNG parameter: %s' % w, w, c.where())
    ctx.floor(n, 1, 'random markers in generate_user_id')
    # the markers of the id come from that draw (all but the last, which is solved)
    ids = [st for b in sorted(gu.live_blocks()) for st in gu.stmts(b)
           if st['rv']['k'] == 'agg' and st['rv'].get('adt') == 'core::UserId']
    ctx.check(len(ids) == 1, gu.key, 'one UserId built', 'generate_user_id builds %d ids' % len(ids), '', gu.where())
    for st in ids:
        calls = lib.deep_calls(F, gu, st['rv']['ops'], follow_mutarg=True)
        ctx.check(any(c.is_(r'traits::Sampling::random$') for c in calls), gu.key, 'id <- random markers',
                  'the identifier is not built from freshly drawn markers', 'markers from SecretKey::random', gu.where(st['ln']))
    rb = F.fn('core::RightSecretKey::random')
    sr = rb.calls(r'traits::Sampling::random$')
    kg = rb.calls(r'traits::Kem::keygen$')
    ok = len(sr) == 1 and len(kg) == 1 and rng_source_ok(F, rb, sr[0].args[0])[0] and rng_source_ok(F, rb, kg[0].args[0])[0]
    ctx.check(ok, rb.key, 'sk <- random(rng), dk <- keygen(rng)', 'RightSecretKey::random does not draw both keys from its RNG parameter',
              'both from rng', rb.where())
    for st in [s for b in sorted(rb.live_blocks()) for s in rb.stmts(b)
               if s['rv']['k'] == 'agg' and s['rv'].get('adt') == 'core::RightSecretKey']:
        sl = backward_slice(rb, st['rv']['ops'], follow_mutarg=False)
        ctx.check(any(c in sl.calls for c in sr), rb.key, 'secret(%s) <- fresh sk' % st['rv']['variant'],
                  'the %s secret built by random() does not contain the freshly drawn scalar' % st['rv']['variant'], 'sk fresh', rb.where(st['ln']))
    # every secret stored in the master key is fresh or read from the wire
    m = 0
    for (body, b, ln, flag_op, lhs_l) in flags.pair_constructions(F):
        root = body.root or body.key
        for st in body.stmts(b):
            if st['lhs']['l'] == lhs_l and st['rv']['k'] == 'agg':
                sec = st['rv']['ops'][1]
                calls = lib.deep_calls(F, body, [sec], follow_mutarg=True)
                m += 1
                ok = any(c.is_(r'RightSecretKey::random$') or c.is_(*flags.DESER) for c in calls)
                ctx.check(ok, root, 'stored secret <- RightSecretKey::random | wire',
                          'a secret stored in the master key (line %d) is neither freshly generated nor read from the wire' % ln,
                          'fresh or deserialised', body.where(ln))
    ctx.floor(m, 3, 'secrets stored in the master key')


@rule('C16', 'rng-threading', configs=('default', 'p256'))
def rng_threading(ctx):
    F = ctx.F
    n = 0
    for body in F.fns():
        for c in body.calls():
            if c.is_(r'RngCore::|rand_core::|^std::ops::|^std::sync::|::lock$'):
                continue
            for i, a in enumerate(c.args):
                l = op_local(a)
                if l is None:
                    continue
                ty = body.local_ty(l)
                if not (ty.startswith('&mut') and RNG_TY.search(ty)) or 'MutexGuard' in ty or 'Mutex<' in ty:
                    continue
                n += 1
                k, w = rng_source_ok(F, body, a)
                ctx.check(k, body.root or body.key, 'rng passed to %s' % c.name,
                          '%s (line %d) receives an RNG that is not the caller\'s own: %s' % (c.name, c.ln, w), w, c.where())
    ctx.floor(n, 20, 'RNG hand-offs')
    # the generator state is never duplicated: a copy replays the stream of the original
    dup = []
    for body in F.fns():
        for c in body.calls(r'^std::clone::Clone::clone$'):
            if RNG_TY.search(c.self_ty or '') and 'Mutex' not in (c.self_ty or ''):
                dup.append((body, c))
    ctx.check(not dup, '-', 'RNG state never cloned', 'the RNG is cloned (%s): the copy and the original produce the same stream, so nonces / '
              'secrets drawn from the copy are handed out again by the instance' % [(b.key, c.ln) for b, c in dup[:2]], 'no Clone of the RNG', '')
    # seeding
    seeds = []
    for body in F.fns():
        for c in body.calls(r'SeedableRng::(from_seed|seed_from_u64|from_rng)$'):
            seeds.append((body, c))
    ctx.check(not seeds, '-', 'no deterministic seeding', 'the crate seeds an RNG deterministically: %s' % [
        (b.key, c.name, c.ln) for b, c in seeds], 'no from_seed / seed_from_u64', '')
    ctors = []
    for body in F.fns():
        for b in sorted(body.live_blocks()):
            for st in body.stmts(b):
                rv = st['rv']
                if rv['k'] == 'agg' and rv.get('adt') == 'api::Covercrypt':
                    ctors.append((body, st))
    ctx.floor(len(ctors), 1, 'constructors of Covercrypt')
    for (body, st) in ctors:
        calls = backward_slice(body, st['rv']['ops'], follow_mutarg=False).calls
        ctx.check(any(c.is_(r'SeedableRng::from_entropy$') for c in calls), body.key, 'Covercrypt.rng <- from_entropy',
                  'a Covercrypt instance is built (line %d) with an RNG that is not seeded from entropy' % st['ln'], 'from_entropy', body.where(st['ln']))


@rule('C16', 'labels')
def labels(ctx):
    F = ctx.F
    g = 'encrypted_header::EncryptedHeader::generate'
    lg = [l for (_c, l) in c12.derive_labels(F, g)]
    kg = [labs for (_h, labs, _e) in c12.kdf_labels(F, g)]
    ok = len(lg) == 1 and len(kg) == 1 and lg[0] is not None and kg[0] and lg[0] not in kg[0]
    ctx.check(ok, g, 'metadata label != secret label',
              'the metadata key (label %s) and the secret handed to the caller (label %s) are not derived under different labels'
              % (lg, kg), '%s vs %s' % (lg, kg), F.fn(g).where())
    # the caller's secret is derived, never the raw seed
    gb = F.fn(g)
    for b in sorted(gb.live_blocks()):
        for st in gb.stmts(b):
            rv = st['rv']
            if rv['k'] == 'agg' and rv.get('tuple') and len(rv['ops']) == 2 and 'EncryptedHeader' in gb.local_ty(st['lhs']['l']):
                roots = copy_chain_sources(gb, rv['ops'][0], through_calls=IDENTITY_CALLS + (r'^std::ops::Try::branch$',))
                raw = any(r[0] == 'call' and r[1].is_(r'::encaps$') for r in roots)
                ctx.check(not raw, g, 'returned secret is derived', 'generate returns the raw encapsulated seed (which also keys '
                          'the metadata) instead of a derived secret', 'kdf output', gb.where(st['ln']))


SECRET_CTORS = {
    'core::RightSecretKey::random': 'fresh scalar and fresh ML-KEM key pair',
    'core::RightSecretKey::drop_hybridization': 'downgrade of an existing secret (same scalar, by design)',
    'core::serialization::<impl cosmian_crypto_core::bytes_ser_de::Serializable for core::RightSecretKey>::read': 'deserialisation',
    '<core::RightSecretKey as std::clone::Clone>::clone': 'derive(Clone)',
}


@rule('C16', 'secret-constructors', configs=('default', 'p256'))
def secret_constructors(ctx):
    """Every rekey publishes values never published before: a right secret is only ever assembled by
    RightSecretKey::random (all components fresh), by the downgrade of an existing secret, by read or by Clone —
    nowhere else can fresh and recycled key material be mixed."""
    F = ctx.F
    n = 0
    for body in F.fns():
        for b in sorted(body.live_blocks()):
            for st in body.stmts(b):
                rv = st['rv']
                if rv['k'] == 'agg' and rv.get('adt') == 'core::RightSecretKey':
                    n += 1
                    root = body.root or body.key
                    ctx.check(root in SECRET_CTORS, root, 'constructs RightSecretKey::%s' % rv['variant'],
                              '%s assembles a RightSecretKey::%s itself (line %d): outside RightSecretKey::random nothing guarantees that '
                              'every component (DH scalar, ML-KEM key pair) is freshly drawn — a rekey could republish old key material'
                              % (body.key, rv['variant'], st['ln']), SECRET_CTORS.get(root, ''), body.where(st['ln']))
    ctx.floor(n, 4, 'constructions of RightSecretKey')
    rb = F.fn('core::RightSecretKey::random')
    kg = rb.calls(r'traits::Kem::keygen$')
    for st in [s for b in sorted(rb.live_blocks()) for s in rb.stmts(b)
               if s['rv']['k'] == 'agg' and s['rv'].get('adt') == 'core::RightSecretKey' and s['rv']['variant'] == 'Hybridized']:
        dk = st['rv']['ops'][st['rv']['fields'].index('dk')]
        sl = backward_slice(rb, [dk], follow_mutarg=False)
        ctx.check(any(c in sl.calls for c in kg), rb.key, 'dk <- fresh keygen', 'the ML-KEM decapsulation key of a new hybridized secret is not '
                  'the one freshly generated by MlKem::keygen', 'dk from keygen(rng)', rb.where(st['ln']))


@rule('C16', 'publish-newest', configs=('default', 'p256'))
def publish_newest(ctx):
    """'Every rekey publishes a public value never published before': what mpk() publishes for a right is derived from the
    secret at the FRONT of its chain — the one rekey has just drawn — never from an older revision found by walking the chain
    (C06.publish-guard, C04.orientation)."""
    from . import c06, c04
    c06.publish_guard(ctx)
    c04.orientation(ctx)


@rule('C16', 'rekey-and-recaps-always-draw', configs=('default', 'p256'))
def rekey_and_recaps_always_draw(ctx):
    """'Every rekey publishes a public value never published before' / 'no two encapsulations share a secret': rekey prepends a
    freshly drawn secret for every requested right whatever its activation flag (the flag is only copied: C06.flag-provenance),
    and recaps returns what encaps produced — never its input (C18.wiring)."""
    from . import c06, c18
    c06.flag_provenance(ctx)
    c18.wiring(ctx)


@rule('C16', 'identifiers-have-a-random-marker')
def identifiers_have_a_random_marker(ctx):
    """'every ... identifier is fresh': an identifier has one random marker per tracer but the last, so the tracing level never
    drops to the point where no marker is drawn (C17.tracing-level-floor)."""
    from . import c17
    c17.tracing_level_floor(ctx)
