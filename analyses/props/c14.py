"""C14 — untrusted bytes never crash, hang or over-allocate (E-TAINT, E-PANIC)."""
import re

from ..engine import prop, rule
from ..facts import op_local, op_place, is_place, backward_slice, opstr, pstr, switch_on, bool_edges, field_path, proj_names
from .. import lib
from .. import libtable as T

prop('C14',
     explanation=(
         'E-TAINT + E-PANIC over every function reachable from the deserialisation entry points '
         '(all crate impls of Serializable::read), decapsulation, PKE / header decryption and the public '
         'accessors. alloc: no integer read from the input (Deserializer::read_leb128_u64, through casts, '
         'try_from, arithmetic, crate-local helpers) reaches an allocation size (with_capacity, reserve, '
         'vec![_; n], crate wrappers of those) unless bounded by min(_, remaining input); every call to '
         'Deserializer::read_vec (allocates the announced length before checking it) is dominated by a '
         'comparison of the peeked length with the remaining input; collections are not pre-sized from an '
         'input-derived range. loops: every loop / iterator chain whose trip count is input-derived consumes '
         'input fallibly in every iteration and stops at the first error. iter-progress: the revision iterator '
         'yields None when no chain produced an element and does not short-circuit on the shortest chain. '
         'panic: every reachable crate-local panic site (overflow/bounds/div asserts, unwrap/expect, indexing, '
         'copy_from_slice, split_off ...) is discharged by a recognised dominating guard, by constant '
         'reasoning on array lengths, or by a frozen exception naming function and site with its reason.'),
     not_decided='measured time/memory proportionality; panics and allocation inside ml-kem / aes-gcm / curve '
                 'arithmetic on well-sized malformed inputs; stack depth',
     assumptions=['additions of in-memory lengths / byte counts cannot overflow usize (class discharge)',
                  'libtable.ALLOC_SINKS lists the allocation entry points used by the crate',
                  'Deserializer::read_vec allocates before checking (read from its source; table entry in quick tier)'])

SRC = r'^cosmian_crypto_core::bytes_ser_de::Deserializer::<?.*read_leb128_u64$'
VALUE = r'^cosmian_crypto_core::bytes_ser_de::Deserializer::<?.*value$'
READ_VEC = r'^cosmian_crypto_core::bytes_ser_de::Deserializer::<?.*read_vec$'
MIN = (r'^std::cmp::Ord::min$', r'^std::cmp::min$')


def short(s):
    s = re.sub(r'<[^<>]*>', '', s or '?')
    s = re.sub(r'<[^<>]*>', '', s)
    s = re.sub(r'<[^<>]*>', '', s)
    parts = [p for p in s.split('::') if p]
    return '::'.join(parts[-2:])


def entry_points(F):
    roots = [b.key for b in F.fns() if b.impl_trait and b.impl_trait.endswith('bytes_ser_de::Serializable')
             and b.name == 'read']
    n_read = len(roots)
    for b in F.fns():
        if b.impl_trait and re.search(r'traits::(PkeAc|KemAc|AE)', b.impl_trait) and b.name in ('decrypt', 'decaps'):
            roots.append(b.key)
    for k in ('core::primitives::decaps', 'encrypted_header::EncryptedHeader::decrypt'):
        if k in F.bodies:
            roots.append(k)
    for b in F.fns():
        if b.name in ('tracing_level', 'count') and b.is_pub and b.kind == 'AssocFn':
            roots.append(b.key)
    return roots, n_read


class Taint:
    def __init__(self, F):
        self.F = F
        self.ret_tainted = set()
        self.sink_params = {}     # key -> {param index (0-based arg): sink description}
        self._summaries()

    def is_sanitiser(self, c):
        if not c.is_(*MIN):
            return False
        for a in c.args:
            sl = backward_slice(c.body, [a], follow_mutarg=False)
            if sl.has_call(VALUE):
                return True
        return False

    def sources(self, body, ops):
        """Input-derived integer sources reaching the operands (sanitised paths cut)."""
        sl = backward_slice(body, ops, stop_call=self.is_sanitiser, follow_mutarg=False)
        out = []
        for c in sl.calls:
            if c.is_(SRC):
                out.append(c)
            else:
                cal = lib.local_callee(self.F, c)
                if cal is not None and cal.key in self.ret_tainted:
                    out.append(c)
        return out, sl

    def sinks_in(self, body):
        """(call, size operand, description) for allocation sinks in a body."""
        out = []
        for c in body.calls():
            done = False
            for pat, idx in T.ALLOC_SINKS:
                if c.is_(pat) and idx < len(c.args) and lib.local_callee(self.F, c) is None:
                    out.append((c, c.args[idx], short(c.defp)))
                    done = True
                    break
            if done:
                continue
            cal = lib.local_callee(self.F, c)
            if cal is not None and cal.key in self.sink_params:
                for pi, desc in self.sink_params[cal.key].items():
                    if pi < len(c.args):
                        out.append((c, c.args[pi], '%s->%s' % (short(c.defp), desc)))
        return out

    def _summaries(self):
        F = self.F
        for _ in range(4):
            changed = False
            for body in F.fns():
                # returns an input-derived integer?
                if body.key not in self.ret_tainted and re.match(r'^(std::result::Result<|std::option::Option<)?(usize|u64|u32|u16|u8)\b', body.locals[0]['ty']):
                    srcs, _sl = self.sources(body, [0])
                    if srcs:
                        self.ret_tainted.add(body.key)
                        changed = True
                # parameter flows into an allocation size?
                for (c, op, desc) in self.sinks_in(body):
                    sl = backward_slice(body, [op], stop_call=self.is_sanitiser, follow_mutarg=False)
                    for p in sl.params:
                        cur = self.sink_params.setdefault(body.key, {})
                        if (p - 1) not in cur:
                            cur[p - 1] = desc.split('->')[-1]
                            changed = True
            if not changed:
                break


@rule('C14', 'alloc', configs=('default', 'p256'))
def alloc(ctx):
    F = ctx.F
    TA = Taint(F)
    n_sinks = 0
    n_tainted_sinks = 0
    for body in F.fns():
        for (c, op, desc) in TA.sinks_in(body):
            n_sinks += 1
            srcs, sl = TA.sources(body, [op])
            sh = sl.has_call(r'^std::iter::Iterator::size_hint$')
            upper = sh and any(any(isinstance(e, dict) and e.get('f') == 1 for e in pl['p']) and pl['l'] in [x.dest['l'] for x in sh]
                               for pl in sl.places)
            if upper:
                ctx.bad(body.key, 'sink(%s)<-size_hint-upper' % desc,
                        'allocation size of %s (line %d) is taken from the UPPER bound of an iterator\'s size_hint: for an iterator '
                        'driven by a count read from untrusted input (a Result-collected `(0..n).map(..)`) the upper bound is the '
                        'attacker-chosen count' % (c.full[:80], c.ln), c.where())
                continue
            if srcs:
                n_tainted_sinks += 1
                ctx.bad(body.key, 'sink(%s)<-input' % desc,
                        'allocation size of %s (line %d) derives from an integer read from untrusted input '
                        '(%s, line %d) without being bounded by the remaining input length' % (
                            c.full[:80], c.ln, short(srcs[0].defp), srcs[0].ln), c.where(),
                        path={'sink': c.full, 'sources': [(s.full, s.ln) for s in srcs]})
            else:
                sanit = [x for x in sl.calls if TA.is_sanitiser(x)]
                ctx.ok(body.key, 'sink(%s)' % desc,
                       'size not input-derived' if not sanit else 'input count bounded by min(_, remaining input)',
                       c.where())
    # read_vec call sites: peek-then-read
    n_rv = 0
    for body in F.fns():
        for c in body.calls(READ_VEC):
            n_rv += 1
            ok, why = read_vec_guarded(body, c, F)
            ctx.check(ok, body.key, 'read_vec-bounded',
                      'Deserializer::read_vec (line %d) allocates the announced length before checking it and is not '
                      'dominated by a comparison of the peeked length with the remaining input: %s' % (c.ln, why),
                      detail_ok=why, where=c.where())
    ctx.floor(n_sinks, 8, 'allocation sinks examined')
    ctx.floor(n_rv, 1, 'Deserializer::read_vec call sites')
    ctx.note('%d sinks, %d read_vec sites, ret-tainted helpers: %s, derived sinks: %s' % (
        n_sinks, n_rv, sorted(TA.ret_tainted), {k: v for k, v in TA.sink_params.items()}))


def peek_guards(body, is_remaining):
    """(safe edge, line) of every comparison `remaining.len() <> announced` where the announced length is peeked from the
    same remaining input; the safe edge is the one on which announced <= remaining.  is_remaining(slice) tells whether a
    backward slice derives from the remaining input (and from nothing else that is input)."""
    out = []
    for cmp_ in lib.comparisons(body):
        if cmp_['op'] not in ('Lt', 'Le', 'Gt', 'Ge'):
            continue
        sa = backward_slice(body, [cmp_['a']], follow_mutarg=False)
        sb = backward_slice(body, [cmp_['b']], follow_mutarg=False)
        a_ann = bool(sa.has_call(SRC))
        b_ann = bool(sb.has_call(SRC))
        a_rem = is_remaining(sa) and bool(sa.has_call(*lib.LEN_CALLS)) and not a_ann
        b_rem = is_remaining(sb) and bool(sb.has_call(*lib.LEN_CALLS)) and not b_ann
        if a_rem and b_ann:
            rem_first = True
            ann_slice = sb
        elif b_rem and a_ann:
            rem_first = False
            ann_slice = sa
        else:
            continue
        # the announced length must be peeked from the same remaining input
        if not is_remaining(ann_slice):
            continue
        op = cmp_['op']
        if rem_first:
            safe = cmp_['fe'] if op in ('Lt', 'Le') else cmp_['te']
        else:
            safe = cmp_['te'] if op in ('Lt', 'Le') else cmp_['fe']
        out.append((safe, cmp_['ln']))
    return out


def read_vec_guarded(body, c, F=None):
    de_roots = lib.roots_of(body, c.args[0])

    def from_de(sl):
        vals = sl.has_call(VALUE)
        return bool(vals) and all(lib.roots_of(body, v.args[0]) & de_roots for v in vals)
    for safe, ln in peek_guards(body, from_de):
        if body.edge_dominates(safe, c.b):
            return True, 'dominated by the announced<=remaining edge of the comparison at line %d' % ln
    # the same test in a private helper: `check(de.value())?; de.read_vec()`
    if F is not None:
        for ts in lib.try_sites(body):
            d = ts.src_def
            if d is None or d.kind != 'call' or ts.cont is None or ts.sw_block is None:
                continue
            h = d.call
            g = lib.local_callee(F, h)
            if g is None or g.kind == 'Closure' or not lib.returns_result(g):
                continue
            if not body.edge_dominates((ts.sw_block, ts.cont), c.b):
                continue
            for i, a in enumerate(h.args):
                if not from_de(backward_slice(body, [a], follow_mutarg=False)):
                    continue
                pi = i + 1
                guards = peek_guards(g, lambda sl: pi in sl.params and not sl.has_call(VALUE))
                oks = ok_return_blocks(g)
                for safe, ln in guards:
                    if oks and all(g.edge_dominates(safe, b) for b in oks):
                        return True, 'helper %s returns Ok only on the announced<=remaining edge (line %d); its `?` dominates the read' % (g.key, ln)
    return False, 'no dominating peeked-length comparison found'


def ok_return_blocks(g):
    """Blocks where an `Ok(..)` is built in a Result-returning function."""
    out = []
    for b in sorted(g.live_blocks()):
        for st in g.stmts(b):
            rv = st['rv']
            if rv['k'] == 'agg' and rv.get('adt') == 'std::result::Result' and rv.get('variant') == 'Ok':
                out.append(b)
    return out


# ---------------------------------------------------------------- loops
SHORT_CIRCUIT = (r'^std::iter::Iterator::(try_for_each|try_fold)$',)
ADAPTORS = (r'^std::iter::Iterator::(map|filter|filter_map|enumerate|inspect|peekable|skip|take|zip|chain|rev|by_ref)$',
            r'^std::iter::IntoIterator::into_iter$')
PRESIZING = re.compile(r'^(std::vec::Vec<|std::collections::(HashMap|HashSet|VecDeque)<|std::string::String|'
                       r'data_struct::)')


def consumes_input(F, c):
    """Call that advances a Deserializer (takes `&mut Deserializer`)."""
    if c.is_(VALUE):
        return False
    for a in c.args:
        l = op_local(a)
        if l is not None and 'bytes_ser_de::Deserializer' in c.body.local_ty(l) and '&mut' in c.body.local_ty(l):
            return True
    # closures capturing the deserializer are handled by the caller
    return False


def result_checked(body, c):
    """The Result of call c is propagated: feeds a `?`, is the tail value, or is returned."""
    dl = c.dest['l']
    if dl == 0 or lib.flows_to(body, dl):
        return True
    for ts in lib.try_sites(body):
        if ts.src_def is not None and ts.src_def.kind == 'call' and ts.src_def.call is c:
            return True
    # handed to map_err/map/and_then ... then `?`
    for ts in lib.try_sites(body):
        d = ts.src_def
        hops = 0
        while d is not None and d.kind == 'call' and hops < 5:
            if d.call is c:
                return True
            if not d.call.args or not is_place(d.call.args[0]):
                break
            _, d = lib.resolve_copy(body, op_local(d.call.args[0]))
            hops += 1
    for e in lib.error_exits(body):
        if e.kind == 'tail':
            d = e.src_call
            hops = 0
            while d is not None and hops < 5:
                if d is c:
                    return True
                if not d.args or not is_place(d.args[0]):
                    break
                _, dd = lib.resolve_copy(body, op_local(d.args[0]))
                d = dd.call if (dd is not None and dd.kind == 'call') else None
                hops += 1
    return False


def must_consume(F, body, start, stops, avoid_entry=False):
    """Every path from `start` to any block in `stops` passes through a block whose
    terminator consumes input with a checked result."""
    cons = set()
    for c in body.calls():
        if consumes_input(F, c) and result_checked(body, c):
            cons.add(c.b)
    r = body.reach(body.succs[start] if avoid_entry else [start], avoid_blocks=cons)
    return not (set(stops) & r), cons


@rule('C14', 'loops', configs=('default', 'p256'))
def loops(ctx):
    F = ctx.F
    TA = Taint(F)
    CG = lib.CallGraph(F)
    roots, n_read = entry_points(F)
    reach = CG.reachable(roots)
    n = 0
    for key in sorted(reach):
        body = F.bodies[key]
        # (1) for-loops over an input-derived range
        for c in body.calls(r'^std::iter::Iterator::next$'):
            if 'std::ops::Range' not in (c.self_ty or ''):
                continue
            srcs, _ = TA.sources(body, [c.args[0]])
            if not srcs:
                continue
            n += 1
            ok, cons = must_consume(F, body, c.b, [c.b], avoid_entry=True)
            ctx.check(ok, body.key, 'loop(range<-input)',
                      'loop at line %d iterates an input-derived number of times but some path through its body '
                      'does not consume input with a propagated error: iterations are not bounded by the input length'
                      % c.ln, detail_ok='every iteration performs a checked Deserializer read (%d sites)' % len(cons),
                      where=c.where())
        # (2) iterator chains over an input-derived range
        for c in body.calls(r'^std::iter::Iterator::map$'):
            if 'std::ops::Range' not in (c.self_ty or ''):
                continue
            srcs, _ = TA.sources(body, [c.args[0]])
            if not srcs:
                continue
            n += 1
            cl = lib.closure_args(F, c)
            okc = bool(cl)
            for (_i, cb, _rv) in cl:
                rets = cb.return_blocks()
                ok1, cons = must_consume(F, cb, 0, rets)
                # a path that returns without consuming must be an explicit error
                okc = okc and ok1
            ctx.check(okc, body.key, 'chain(range<-input):closure-consumes',
                      'iterator chain at line %d runs an input-derived number of times but its closure can complete '
                      'without a checked read of the input' % c.ln,
                      detail_ok='closure performs a checked Deserializer read on every path', where=c.where())
            cons_ok, why = chain_short_circuits(F, body, c)
            ctx.check(cons_ok, body.key, 'chain(range<-input):short-circuit',
                      'iterator chain at line %d over an input-derived range is consumed by %s, which neither stops at '
                      'the first error nor avoids pre-sizing from the range' % (c.ln, why),
                      detail_ok='consumed by ' + why, where=c.where())
        # (3) any other adaptor applied directly to an input-derived range neither stops at the first failed read nor is
        #     examined above: `(0..n).flat_map(|_| de.read())` flattens every Err away and spins n times on a truncated input
        for c in body.calls(r'^std::iter::Iterator::'):
            if c.name in ('try_for_each', 'try_fold') and re.match(r"^(&('\w+ )?(mut )?)?std::ops::Range(Inclusive)?<", c.self_ty or ''):
                # stops at the first Err by construction; its closure must consume input fallibly on every path
                srcs, _ = TA.sources(body, [c.args[0]]) if c.args else ([], None)
                if not srcs:
                    continue
                n += 1
                cl = lib.closure_args(F, c)
                okc = bool(cl)
                for (_i, cb, _rv) in cl:
                    ok1, _cons = must_consume(F, cb, 0, cb.return_blocks())
                    okc = okc and ok1
                ctx.check(okc, body.key, 'chain(range<-input):closure-consumes',
                          '%s at line %d runs an input-derived number of times but its closure can complete without a checked read of '
                          'the input' % (c.name, c.ln), detail_ok='closure performs a checked Deserializer read on every path', where=c.where())
                continue
            if c.name in ('map', 'next') or not re.match(r"^(&('\w+ )?(mut )?)?std::ops::Range(Inclusive)?<", c.self_ty or ''):
                continue
            srcs, _ = TA.sources(body, [c.args[0]]) if c.args else ([], None)
            if not srcs:
                continue
            n += 1
            ctx.bad(body.key, 'chain(range<-input):%s' % c.name,
                    'an input-derived range is consumed through Iterator::%s (line %d), which does not stop at the first failed read: '
                    'a short input announcing a huge count keeps the reader busy for that many iterations' % (c.name, c.ln), c.where())
    ctx.floor(n, 10, 'input-bounded loops and chains')


def chain_short_circuits(F, body, c):
    """Follow the iterator value forward to its consumer(s)."""
    frontier = [c.dest['l']]
    seen = set()
    verdicts = []
    while frontier:
        l = frontier.pop()
        if l in seen:
            continue
        seen.add(l)
        # moves
        for b in range(body.n):
            if body.cleanup[b]:
                continue
            for st in body.stmts(b):
                rv = st['rv']
                if rv['k'] == 'use' and is_place(rv['a']) and op_local(rv['a']) == l and not st['lhs']['p']:
                    frontier.append(st['lhs']['l'])
                elif rv['k'] == 'ref' and rv['pl']['l'] == l and not st['lhs']['p']:
                    frontier.append(st['lhs']['l'])
        for cc in body.calls():
            if not cc.args or op_local(cc.args[0]) != l:
                continue
            if cc.is_(*ADAPTORS):
                frontier.append(cc.dest['l'])
            elif cc.is_(*SHORT_CIRCUIT):
                verdicts.append((True, short(cc.defp)))
            elif cc.is_(r'^std::iter::Iterator::(collect|sum|product)$', r'^std::iter::FromIterator::from_iter$'):
                tgt = cc.fn['gargs'][-1] if cc.fn.get('gargs') else ''
                if tgt.startswith('std::result::Result<') or tgt.startswith('std::option::Option<'):
                    verdicts.append((True, 'collect::<%s>' % tgt[:40]))
                else:
                    verdicts.append((False, 'collect::<%s>' % tgt[:60]))
            elif cc.is_(r'^std::iter::Iterator::'):
                verdicts.append((False, short(cc.defp)))
    if not verdicts:
        return False, 'an unrecognised consumer'
    bad = [w for ok, w in verdicts if not ok]
    if bad:
        return False, bad[0]
    return True, ', '.join(sorted(set(w for _, w in verdicts)))


# -------------------------------------------------------- iter-progress
@rule('C14', 'iter-progress')
def iter_progress(ctx):
    check_revision_iterator(ctx)


def check_revision_iterator(ctx):
    F = ctx.F
    its = [b for b in F.fns() if b.name == 'next' and b.impl_trait == 'std::iter::Iterator'
           and 'RevisionIterator' in (b.impl_self or '')]
    ctx.floor(len(its), 1, 'RevisionIterator::next')
    for body in its:
        fam = F.family(body.key)
        # (i) no short-circuiting combination of the per-chain items
        sc = []
        for fb in fam:
            for c in fb.calls(r'^std::iter::Iterator::collect$', r'^std::iter::FromIterator::from_iter$',
                              r'^std::iter::Iterator::(all|try_for_each|try_fold|take_while|map_while|scan)$'):
                if c.is_(r'collect$|from_iter$'):
                    tgt = c.fn['gargs'][-1] if c.fn.get('gargs') else ''
                    if tgt.startswith('std::option::Option<') or tgt.startswith('std::result::Result<'):
                        sc.append((c, 'collect::<%s>' % tgt[:50]))
                else:
                    sc.append((c, short(c.defp)))
        ctx.check(not sc, body.key, 'no-short-circuit',
                  'the per-chain items are combined by %s, which stops at the first exhausted chain: older '
                  'secrets of longer chains are never yielded' % (sc[0][1] if sc else ''),
                  detail_ok='per-chain items are not combined by a short-circuiting collector',
                  where=sc[0][0].where() if sc else body.where())
        # (ii) `Some(v)` is returned only when v is known to be non-empty
        somes = []
        for b in sorted(body.live_blocks()):
            for st in body.stmts(b):
                rv = st['rv']
                if rv['k'] == 'agg' and rv.get('adt') == 'std::option::Option' and rv['variant'] == 'Some' \
                        and (st['lhs']['l'] == 0 or lib.flows_to(body, st['lhs']['l'])):
                    somes.append((b, st))
        tails = [c for c in body.calls() if c.dest['l'] == 0 and not c.dest['p']]
        then_ok = False
        for c in tails:
            if c.is_(r'bool>::then(_some)?$') and c.args:
                # the condition is `!v.is_empty()` (or len comparison) of the vector handed out
                cur, d = lib.resolve_copy(body, op_local(c.args[0])) if is_place(c.args[0]) else (None, None)
                neg = False
                if d is not None and d.kind == 'assign' and d.rv['k'] == 'un' and d.rv['op'] == 'Not' and is_place(d.rv['a']):
                    neg = True
                    cur, d = lib.resolve_copy(body, op_local(d.rv['a']))
                if d is not None and d.kind == 'call' and d.call.is_(r'::is_empty$') and neg:
                    then_ok = True
                    ctx.ok(body.key, 'none-when-exhausted', 'returned through (!v.is_empty()).%s(v)' % c.name, c.where())
        if then_ok:
            somes = []
            tails = []
        if not somes and not then_ok:
            ctx.bad(body.key, 'none-when-exhausted',
                    'next() returns the combined value without any emptiness test (%s): a vector with zero chains '
                    'or with all chains exhausted must yield None, otherwise decapsulation never terminates'
                    % (tails[0].full[:80] if tails else 'no Some(..) construction found'), body.where())
        for (b, st) in somes:
            ok = False
            why = ''
            for c in body.calls(r'::is_empty$', *lib.LEN_CALLS):
                for (sb, neg) in switch_on(body, c.dest['l']):
                    te, fe = bool_edges(body, sb, neg)
                    if te is None:
                        continue
                    if c.is_(r'::is_empty$') and body.edge_dominates(fe, b):
                        ok, why = True, 'dominated by the false edge of %s' % short(c.defp)
            for cmp_ in lib.comparisons(body):
                ca, cb = lib.classify_scalar(body, cmp_['a']), lib.classify_scalar(body, cmp_['b'])
                if ca[0] == 'len' and cb == ('const', 0):
                    edge = {'Gt': cmp_['te'], 'Ne': cmp_['te'], 'Eq': cmp_['fe'], 'Le': cmp_['fe']}.get(cmp_['op'])
                    if edge and body.edge_dominates(edge, b):
                        ok, why = True, 'dominated by len > 0'
            ctx.check(ok, body.key, 'none-when-exhausted',
                      'Some(..) at line %d is returned without a dominating non-emptiness test: a vector with zero '
                      'chains (or all chains exhausted) yields Some(vec![]) forever and decapsulation never '
                      'terminates' % st['ln'], detail_ok=why, where=body.where(st['ln']))


# ----------------------------------------------------------------- panic
# Frozen exceptions: (function regex, site kind, detail regex, max count, reason)
PANIC_EXCEPTIONS = [
    (r'^<api::Covercrypt as traits::(KemAc|PkeAc)<.*>>::(decaps|decrypt|encaps|encrypt)$|^api::Covercrypt::',
     'unwrap', r'^expect$', 1,
     'Mutex::lock().expect: fails only when the mutex is poisoned, i.e. after an earlier panic in another thread'),
    (r'^core::primitives::J_hash$', 'index', r'^index<\[u8; 48\]>$', 2,
     'constant ranges ..TAG_LENGTH / TAG_LENGTH.. of a [u8; 384/8] array'),
    (r'^core::primitives::J_hash$', 'slice-op', r'^copy_from_slice$', 2,
     'constant lengths: TAG_LENGTH + SHARED_SECRET_LENGTH = 384/8'),
    (r'P256Scalar as traits::Sampling>::hash$', 'overflow', r'^Add:u32$', 1,
     'rejection-sampling counter of hash-to-scalar: an iteration repeats only when a SHA3-256 output is not below the P-256 group '
     'order (probability about 2^-32 per iteration, independent of the input bytes); 2^32 consecutive repeats do not happen'),
    (r'^abe_policy::rights::Right::from_point$', 'overflow', r'^Mul$', 1,
     'capacity hint 4 * number of identifiers of an in-memory vector'),
    (r'^abe_policy::access_policy::AccessPolicy::to_dnf$', 'overflow', r'^Mul$', 1,
     'capacity hint: product of two in-memory vector lengths'),
    (r'^data_struct::dictionary::Dict::<K, V>::insert$', 'index', r'^index_mut<std::vec::Vec<\(K, V\)>>$', 1,
     'index read from the dictionary\'s own index map (structural invariant of Dict; all writers keep it)'),
    (r'^data_struct::dictionary::Dict::<K, V>::update_key$', 'index', r'^index_mut<std::vec::Vec<\(K, V\)>>$', 1,
     'index read from the dictionary\'s own index map'),
]


_TAINT = {}


def tainted_arith(F, body, ps):
    """An operand of the checked arithmetic derives from an integer read from untrusted input (E-TAINT), unsanitised."""
    if id(F) not in _TAINT:
        _TAINT.clear()
        _TAINT[id(F)] = Taint(F)
    TA = _TAINT[id(F)]
    cond = ps.term['cond']
    l = op_place(cond)['l'] if is_place(cond) else None
    for d in ([d for d in body.defs().get(l, []) if d.kind == 'assign'] if l is not None else []):
        if d.rv['k'] == 'bin' and d.rv['op'].endswith('WithOverflow'):
            for o in (d.rv['a'], d.rv['b']):
                if is_place(o):
                    srcs, _sl = TA.sources(body, [o])
                    if srcs:
                        return True
    return False


def unsized_array_len(body, op):
    """N when the slice operand is a plain (re)borrow / unsizing of a whole `[T; N]` value, else None."""
    l = op_local(op)
    for _ in range(10):
        if l is None:
            return None
        m = re.match(r'^&(mut )?\[[^;\[\]]+; (\d+)\]$', body.local_ty(l))
        if m:
            return int(m.group(2))
        d = lib.single_def(body, l)
        if d is None or d.kind != 'assign':
            return None
        rv = d.rv
        if rv['k'] in ('use', 'cast') and is_place(rv['a']) and not field_path(op_place(rv['a'])):
            l = op_local(rv['a'])
        elif rv['k'] == 'ref' and all(x == '*' for x in proj_names(rv['pl'])):
            if re.match(r'^\[[^;\[\]]+; (\d+)\]$', body.local_ty(rv['pl']['l'])) and not rv['pl']['p']:
                return lib.array_len_of_ty(body.local_ty(rv['pl']['l']))
            l = rv['pl']['l']
        else:
            return None
    return None


def discharge(ctx, F, ps):
    """Returns a reason string when the panic site is discharged, else None."""
    body = ps.body
    if ps.kind == 'ptrcheck':
        return 'compiler-inserted reference validity check (debug assertions), not a source-level panic'
    if ps.kind == 'overflow' and ps.detail in ('Add', 'Mul', 'Sub') and ps.term is not None and tainted_arith(F, body, ps):
        return None       # arithmetic on an integer read from the input, not yet bounded by the remaining input
    if ps.kind == 'overflow' and ps.detail == 'Add':
        # pointer-sized or wider (narrower integers carry their type in the detail, see lib.panic_sites): a sum of in-memory
        # lengths / byte counts / loop counters cannot exceed the address space
        return 'class: addition of in-memory lengths / byte counts'
    if ps.kind == 'overflow' and ps.detail == 'Mul' and ps.term is not None:
        # product of in-memory collection lengths / constants (capacity hints of a cartesian product): each factor is bounded
        # by the size of an allocation that already exists; the property's untrusted quantities are integers READ from
        # input, which are neither
        cond = ps.term['cond']
        l = op_place(cond)['l'] if is_place(cond) else None
        for d in ([d for d in body.defs().get(l, []) if d.kind == 'assign'] if l is not None else []):
            if d.rv['k'] == 'bin' and d.rv['op'] == 'MulWithOverflow':
                ka, kb = lib.classify_scalar(body, d.rv['a']), lib.classify_scalar(body, d.rv['b'])
                if ka[0] in ('len', 'const') and kb[0] in ('len', 'const') and (ka[0], kb[0]) != ('const', 'const'):
                    return 'class: product of in-memory lengths / constants'
        return None
    if ps.kind == 'index' and ps.call is not None and len(ps.call.args) == 2:
        c = ps.call
        if 'RangeFull' in (c.full or '') and 'str' not in (c.self_ty or ''):
            return 'x[..]: the full range of a slice / Vec cannot be out of bounds'
        ra = lib.range_arg(body, c.args[1])
        if ra is not None and ra[0] == 'RangeFrom':
            # x[k..] needs len >= k
            vals0 = [v[1] for v in ra[2] if v[0] == 'const' and v[1] is not None]
            if len(vals0) == 1:
                roots0 = lib.roots_of(body, c.args[0])
                edges0 = lib.len_at_least_edges(body, roots0, vals0[0])
                if edges0 and body.edges_dominate(edges0, ps.b):
                    return 'dominated by a length check len >= %d' % vals0[0]
        if ra is not None:
            kind, fields, vals, ops = ra
            consts = [v[1] for v in vals if v[0] == 'const' and v[1] is not None]
            if len(consts) == len(vals) and consts:
                need = max(consts)
                if kind == 'Range' and len(consts) == 2 and consts[0] > consts[1]:
                    return None
                # constant array length?
                base_l = op_local(c.args[0])
                tys = [body.local_ty(base_l)] if base_l is not None else []
                for s in lib.copy_chain_sources(body, c.args[0], through_calls=lib.IDENTITY_CALLS):
                    if s[0] == 'param':
                        tys.append(body.local_ty(s[1]))
                alen = None
                st = c.fn.get('self_ty') or ''
                alen = lib.array_len_of_ty(st)
                if alen is not None and need <= alen:
                    return 'constant range within array of length %d' % alen
                roots = lib.roots_of(body, c.args[0])
                edges = lib.len_at_least_edges(body, roots, need)
                if edges and body.edges_dominate(edges, ps.b):
                    return 'dominated by a length check len >= %d' % need
                # closure: guard may live in the same closure only (params are fresh per call)
        return None
    if ps.kind in ('slice-op', 'str-op') and ps.detail in ('split_at', 'split_at_mut') and ps.call is not None and len(ps.call.args) == 2 \
            and 'str' not in (ps.call.full.split('::split_at')[0][-12:]):
        c = ps.call
        n_ = lib.classify_scalar(body, c.args[1])
        if n_[0] == 'const' and n_[1] is not None:
            roots = lib.roots_of(body, c.args[0])
            edges = lib.len_at_least_edges(body, roots, n_[1])
            if edges and body.edges_dominate(edges, ps.b):
                return 'split_at(%d) dominated by a length check len >= %d' % (n_[1], n_[1])
            # the split slice is (an unsizing of) a local array of constant length >= n
            alen = unsized_array_len(body, c.args[0])
            if alen is not None and n_[1] <= alen:
                return 'split_at(%d) of an array of constant length %d' % (n_[1], alen)
        return None
    if ps.kind in ('rem0', 'div0') and ps.term is not None:
        # `x % s.len()` inside `for i in 0..s.len()`: the body runs only when len > 0
        why = loop_over_same_len(body, ps) or closure_rem_by_range_len(F, body, ps)
        if why:
            return why
        return None
    if ps.kind == 'slice-op' and ps.detail == 'swap' and ps.call is not None and len(ps.call.args) == 3:
        c = ps.call
        sroots = lib.roots_of(body, c.args[0])
        oks = 0
        for a in c.args[1:]:
            k = index_in_bounds(body, a, sroots)
            if k:
                oks += 1
        if oks == 2:
            return 'both indices are within 0..len of the swapped slice (loop variable over 0..len / remainder by len)'
        if all(closure_index_in_bounds(F, body, a, c.args[0]) for a in c.args[1:]):
            return 'both indices are within 0..len of the captured slice (closure run over 0..len; element / remainder by len)'
        return None
    if ps.kind == 'bounds' and ps.term is not None:
        why = bounds_by_range(body, ps) or bounds_by_from_fn(F, body, ps)
        if why:
            return why
        # constant index into a slice whose length was checked: x[0] under !x.is_empty()
        cond = ps.term['cond']
        _, d = lib.resolve_copy(body, op_local(cond)) if is_place(cond) else (None, None)
        if d is not None and d.kind == 'assign' and d.rv['k'] == 'bin' and d.rv['op'] == 'Lt':
            ci = lib.classify_scalar(body, d.rv['a'])
            lr = len_roots(body, d.rv['b'])
            if ci[0] == 'const' and ci[1] is not None and lr:
                edges = lib.len_at_least_edges(body, lr, ci[1] + 1)
                if edges and body.edges_dominate(edges, ps.b):
                    return 'constant index %d dominated by a length check len >= %d' % (ci[1], ci[1] + 1)
        return None
    if ps.kind == 'overflow' and ps.detail == 'Sub' and ps.term is not None:
        # `x.len() - 1` where x is known to be non-empty (Some edge of back()/front()/first()/last(), or !is_empty())
        cond = ps.term['cond']
        l = op_place(cond)['l'] if is_place(cond) else None
        ds = [d for d in body.defs().get(l, []) if d.kind == 'assign'] if l is not None else []
        for d in ds:
            if d.rv['k'] == 'bin' and d.rv['op'] == 'SubWithOverflow' and d.rv['b'].get('c', {}).get('v') == 1:
                lr = len_roots(body, d.rv['a'])
                if not lr:
                    continue
                edges = list(lib.len_at_least_edges(body, lr, 1))
                for c in body.calls(r'::(back|front|first|last|back_mut|front_mut)$'):
                    if c.args and lib.roots_of(body, c.args[0]) & lr:
                        # switch on the discriminant of the returned Option: the Some edge
                        for b2 in sorted(body.live_blocks()):
                            t2 = body.term(b2)
                            if t2['k'] != 'switch' or not is_place(t2['d']):
                                continue
                            _, dd = lib.resolve_copy(body, op_local(t2['d']))
                            if dd is not None and dd.kind == 'assign' and dd.rv['k'] == 'discr':
                                src, _x = lib.resolve_copy(body, dd.rv['pl']['l'])
                                if dd.rv['pl']['l'] == c.dest['l'] or src == c.dest['l']:
                                    for v, bb in t2['cases']:
                                        if v == 1:
                                            edges.append((b2, bb))
                if edges and body.edges_dominate(edges, ps.b):
                    return 'len() - 1 of a collection known to be non-empty on this path'
        return None
    if ps.kind == 'list-split' or (ps.kind == 'vec-op' and ps.detail == 'split_off'):
        c = ps.call
        # split_off(n) guarded by n <= len
        for cmp_ in lib.comparisons(body):
            ca, cb = lib.classify_scalar(body, cmp_['a']), lib.classify_scalar(body, cmp_['b'])
            n_roots = lib.roots_of(body, c.args[1])
            if cb[0] == 'len' and lib.roots_of(body, cmp_['a']) & n_roots and cb[1] & lib.roots_of(body, c.args[0]):
                edge = {'Le': cmp_['te'], 'Lt': cmp_['te'], 'Gt': cmp_['fe'], 'Ge': None}.get(cmp_['op'])
                if edge and body.edge_dominates(edge, ps.b):
                    return 'dominated by n <= len'
        return None
    return None


def range_loop_var(body, op):
    """If the operand is the loop variable of `for v in a..b`: returns (start operand, end operand) of the range."""
    l = op_local(op)
    if l is None:
        return None
    for _ in range(6):
        ds = [d for d in body.defs().get(l, []) if d.kind == 'assign' and not d.lhs['p']]
        if len(ds) != 1:
            return None
        rv = ds[0].rv
        if rv['k'] == 'use' and is_place(rv['a']):
            pl = op_place(rv['a'])
            if not pl['p']:
                l = pl['l']
                continue
            # _x = (_n as Some).0 where _n = Range::next(..)
            nd = [d for d in body.defs().get(pl['l'], []) if d.kind == 'call']
            if nd and nd[0].call.is_(r'^std::iter::Iterator::next$') and 'std::ops::Range<' in (nd[0].call.self_ty or ''):
                sl = backward_slice(body, [nd[0].call.args[0]], follow_mutarg=False)
                rg = [a for a in sl.aggs if a.get('adt') == 'std::ops::Range']
                if len(rg) == 1:
                    return rg[0]['ops'][0], rg[0]['ops'][1]
            return None
        return None
    return None


def len_roots(body, op):
    c = lib.classify_scalar(body, op)
    return c[1] if c[0] == 'len' else None


def captured_operand(F, cb, op):
    """For an operand of a closure body that is (a copy / reborrow / deref of) a captured variable: the
    creator body and the operand it captured.  None otherwise."""
    if cb.kind != 'Closure':
        return None
    sl = backward_slice(cb, [op], follow_mutarg=False)
    if sl.calls or any(p >= 2 for p in sl.params):
        return None
    for pl in sl.places:
        f = lib.env_field_of(pl)
        if f is not None:
            pb, cop = lib.upvar_operand(F, cb, f)
            if pb is not None and cop is not None:
                return pb, cop
    return None


def closure_range(F, cb):
    """If closure cb is run by an Iterator method over `a..b`: (parent body, start operand, end operand)."""
    for (pb, c, idx) in lib.closure_consumers(F, cb):
        if c.is_(r'^std::iter::Iterator::(for_each|map|try_for_each|fold|try_fold|filter|any|all)$') and 'std::ops::Range<' in (c.self_ty or ''):
            sl = backward_slice(pb, [c.args[0]], follow_mutarg=False)
            rg = [a for a in sl.aggs if a.get('adt') == 'std::ops::Range']
            if len(rg) == 1:
                return pb, rg[0]['ops'][0], rg[0]['ops'][1]
    return None


def len_roots_x(F, body, op):
    """len-roots of an operand, looking through a captured variable into the creator."""
    r = len_roots(body, op)
    if r:
        return ('here', r)
    cap = captured_operand(F, body, op)
    if cap is not None:
        pb, cop = cap
        # captured by reference: `&len`
        r = len_roots(pb, cop)
        if not r and is_place(cop):
            for (pl, m) in pb.refs().get(op_local(cop), []):
                r = len_roots(pb, {'cp': pl})
                if r:
                    break
        if r:
            return ('parent', r)
    return None


def closure_rem_by_range_len(F, body, ps):
    """rem0 inside a closure run over `0..len(x)` whose divisor is that same (captured) len."""
    cr = closure_range(F, body)
    if cr is None:
        return None
    pb, start, end = cr
    cond = ps.term['cond']
    _, d = lib.resolve_copy(body, op_local(cond)) if is_place(cond) else (None, None)
    if d is None or d.kind != 'assign' or d.rv['k'] != 'bin' or d.rv['op'] != 'Eq':
        return None
    div = d.rv['a'] if d.rv['b'].get('c', {}).get('v') == 0 else d.rv['b']
    dr = len_roots_x(F, body, div)
    er = len_roots(pb, end)
    if dr and dr[0] == 'parent' and er and (dr[1] & er) and lib.classify_scalar(pb, start) == ('const', 0):
        return 'divisor is the (captured) len(x) and the closure runs over `0..len(x)`: it is only called when len > 0'
    return None


def closure_index_in_bounds(F, body, op, slice_op):
    """Index used in a closure run over 0..len(x): the range element itself, or a remainder by len(x), for the
    captured slice x."""
    cr = closure_range(F, body)
    if cr is None:
        return False
    pb, start, end = cr
    er = len_roots(pb, end)
    cap = captured_operand(F, body, slice_op)
    if not er or cap is None or lib.classify_scalar(pb, start) != ('const', 0):
        return False
    sroots = lib.roots_of(cap[0], cap[1])
    for (pl, m) in cap[0].refs().get(op_local(cap[1]), []) if is_place(cap[1]) else []:
        sroots |= lib.roots_of(cap[0], {'cp': pl})
    if not (er & sroots):
        return False
    l = op_local(op)
    cur, d = lib.resolve_copy(body, l)
    if body.is_param(cur) and cur >= 2:
        return True
    if d is not None and d.kind == 'assign' and d.rv['k'] == 'bin' and d.rv['op'] == 'Rem':
        dr = len_roots_x(F, body, d.rv['b'])
        return bool(dr and (dr[1] & er))
    return False


def loop_over_same_len(body, ps):
    """rem0 / div0 assert whose divisor is len(x), inside a loop `for _ in 0..len(x)`."""
    cond = ps.term['cond']
    _, d = lib.resolve_copy(body, op_local(cond)) if is_place(cond) else (None, None)
    if d is None or d.kind != 'assign' or d.rv['k'] != 'bin' or d.rv['op'] != 'Eq':
        return None
    div = d.rv['a'] if d.rv['b'].get('c', {}).get('v') == 0 else d.rv['b']
    dr = len_roots(body, div)
    if not dr:
        return None
    for c in body.calls(r'^std::iter::Iterator::next$'):
        if 'std::ops::Range<' not in (c.self_ty or ''):
            continue
        sl = backward_slice(body, [c.args[0]], follow_mutarg=False)
        rg = [a for a in sl.aggs if a.get('adt') == 'std::ops::Range']
        if len(rg) != 1:
            continue
        er = len_roots(body, rg[0]['ops'][1])
        start = lib.classify_scalar(body, rg[0]['ops'][0])
        if er and (er & dr) and start == ('const', 0):
            t = body.term(c.target) if c.target is not None else None
            if t and t['k'] == 'switch':
                some = [bb for v, bb in t['cases'] if v == 1]
                if some and body.edge_dominates((c.target, some[0]), ps.b):
                    return 'divisor is len(x) and the site is inside `for _ in 0..len(x)`: the body runs only when len > 0'
    return None


def index_in_bounds(body, op, sroots):
    """Index operand is a loop variable over 0..len(slice) or a remainder by len(slice)."""
    r = range_loop_var(body, op)
    if r is not None:
        er = len_roots(body, r[1])
        if er and (er & sroots) and lib.classify_scalar(body, r[0]) == ('const', 0):
            return True
    l = op_local(op)
    if l is None:
        return False
    cur, d = lib.resolve_copy(body, l)
    if d is not None and d.kind == 'assign' and d.rv['k'] == 'bin' and d.rv['op'] == 'Rem':
        er = len_roots(body, d.rv['b'])
        if er and (er & sroots):
            return True
    return False


def bounds_by_range(body, ps):
    """BoundsCheck `idx < N` where idx is the loop variable of `for idx in 0..N` with the same N."""
    cond = ps.term['cond']
    if not is_place(cond):
        return None
    _, d = lib.resolve_copy(body, op_local(cond))
    if d is None or d.kind != 'assign' or d.rv['k'] != 'bin' or d.rv['op'] != 'Lt':
        return None
    idx, ln = d.rv['a'], d.rv['b']
    r = range_loop_var(body, idx)
    if r is None:
        return None
    if lib.classify_scalar(body, r[0]) != ('const', 0):
        return None
    def cs(o):
        if 'c' in o:
            return o['c'].get('s')
        _, dd = lib.resolve_copy(body, op_local(o))
        if dd is not None and dd.kind == 'assign' and dd.rv['k'] == 'use' and 'c' in dd.rv['a']:
            return dd.rv['a']['c'].get('s')
        return None
    if cs(ln) is not None and cs(ln) == cs(r[1]):
        return 'index is the loop variable of `0..N` and the array has the same length N (%s)' % cs(ln)
    er, lr = len_roots(body, r[1]), len_roots(body, ln)
    if er and lr and (er & lr):
        return 'index is the loop variable of `0..len(x)` of the indexed slice'
    return None


def bounds_by_from_fn(F, body, ps):
    """BoundsCheck `i < N` in the closure of `std::array::from_fn::<_, N, _>`, i being the closure's argument: from_fn calls it
    with 0..N only, and the indexed array has the same const length N."""
    if body.kind != 'Closure':
        return None
    cond = ps.term['cond']
    if not is_place(cond):
        return None
    _, d = lib.resolve_copy(body, op_local(cond))
    if d is None or d.kind != 'assign' or d.rv['k'] != 'bin' or d.rv['op'] != 'Lt':
        return None
    idx, ln = d.rv['a'], d.rv['b']
    if not is_place(idx) or 'c' not in ln:
        return None
    srcs = lib.copy_chain_sources(body, idx)
    if not (srcs and all(s[0] == 'param' and s[1] == 2 and not s[2] for s in srcs)):
        return None
    n_txt = ln['c'].get('s')
    for (pb, c, _i) in lib.closure_consumers(F, body):
        if c.is_(r'^std::array::from_fn$'):
            ga = (c.fn or {}).get('gargs') or []
            full = c.full or ''
            m = re.search(r'from_fn::<[^,]+, ([^,]+),', full)
            if m and n_txt is not None and m.group(1).strip() == str(n_txt).replace('const ', '').strip():
                return 'index is the argument of array::from_fn::<_, %s, _> and the array has the same length' % m.group(1).strip()
    return None


def audit_panics(ctx, F, reach, label):
    used = {}
    n_sites = 0
    for key in sorted(reach):
        body = F.bodies[key]
        for ps in lib.panic_sites(body):
            if ps.kind == 'ptrcheck':
                continue
            n_sites += 1
            why = discharge(ctx, F, ps)
            if why is None:
                for idx, (fpat, kind, dpat, mx, reason) in enumerate(PANIC_EXCEPTIONS):
                    if kind == ps.kind and re.search(fpat, body.key) and re.search(dpat, ps.detail):
                        k = (idx, body.key)
                        if used.get(k, 0) < mx:
                            used[k] = used.get(k, 0) + 1
                            why = 'exception: ' + reason
                            break
            what = 'panic-site(%s %s)' % (ps.kind, ps.detail)
            if why is not None:
                if not (ps.kind == 'overflow' and ps.detail == 'Add'):
                    ctx.ok(body.key, what, why, body.where(ps.ln))
                else:
                    ctx.instances['panic'] = ctx.instances.get('panic', 0)
            else:
                ctx.bad(body.key, what,
                        'panic site reachable from %s is not discharged by a dominating guard nor by a frozen '
                        'exception: %s %s at line %d%s' % (label, ps.kind, ps.detail, ps.ln,
                                                          ' (%s)' % ps.call.full[:80] if ps.call else ''),
                        body.where(ps.ln))
    return n_sites


@rule('C14', 'panic', configs=('default', 'p256'))
def panic(ctx):
    F = ctx.F
    CG = lib.CallGraph(F)
    roots, n_read = entry_points(F)
    ctx.floor(n_read, 20, 'Serializable::read implementations')
    reach = CG.reachable(roots)
    n = audit_panics(ctx, F, reach, 'deserialisation / decapsulation / accessors')
    ctx.floor(len(reach), 150, 'functions reachable from the untrusted-input entry points')
    ctx.floor(n, 40, 'panic sites enumerated')
    ctx.note('%d functions reachable from %d entry points; %d panic sites' % (len(reach), len(roots), n))


LINEAR = (r'^std::iter::Iterator::(any|all|find|find_map|position|rposition|count|fold|try_fold|for_each|try_for_each|max|min|max_by|'
          r'min_by|max_by_key|min_by_key|sum|product|last|nth|collect|eq|cmp)$',
          r'^core::slice::<impl \[T\]>::(contains|iter|binary_search|sort|sort_unstable|sort_by|sort_by_key|starts_with|ends_with)$',
          r'^std::vec::Vec::<[^>]*>::(retain|dedup|dedup_by|dedup_by_key|remove|insert|drain)$',
          r'^std::collections::LinkedList::<[^>]*>::(contains|iter)$')


@rule('C14', 'per-element-work-constant', configs=('default', 'p256'))
def per_element_work_constant(ctx):
    """'... in time proportional to the input': the container operations a deserializer performs once per element read
    (RevisionVec::insert_new_chain, RevisionMap::insert, Dict::insert, ...) do a constant amount of work — no loop, no linear
    scan of the container being filled. A scan per insertion makes reading n elements cost n^2: 1.5 MB of input keeps a core
    busy for seconds."""
    from .c13 import serializable_impls, loop_depths
    F = ctx.F
    callees = {}
    for (i, w, r, ln) in serializable_impls(F):
        if r is None:
            continue
        for fb in lib.family_ext(F, r.key):
            for c in fb.calls():
                g = lib.local_callee(F, c)
                if g is not None and g.key.startswith('data_struct::') and g.kind != 'Closure':
                    callees.setdefault(g.key, fb.key)
    n = 0
    for gk in sorted(callees):
        n += 1
        bad = []
        for fb in lib.reach_bodies(F, gk, precise=True):
            if not (fb.root or fb.key).startswith('data_struct::'):
                continue
            depth, _dom = loop_depths(fb)
            if any(d > 0 for d in depth.values()):
                bad.append('a loop in %s' % fb.key)
            for c in fb.calls(*LINEAR):
                bad.append('%s (line %d)' % (c.name, c.ln))
        ctx.check(not bad, gk, 'constant work per element',
                  '%s, called once per element by a deserializer (%s), does work proportional to the container (%s): reading is '
                  'quadratic in the input size' % (gk, callees[gk], '; '.join(bad[:3])), 'no loop, no linear scan', F.bodies[gk].where())
    ctx.floor(n, 2, 'container operations called by deserializers')


@rule('C14', 'hash-covers-every-field', configs=('default', 'p256'))
def hash_covers_every_field(ctx):
    """'... within time proportional to the input': the deserializers fill hash sets / maps keyed by values read from the input
    (user identifiers, rights, attribute names). Insertion is constant-time only while distinct keys hash differently, i.e. while
    `Hash` looks at everything `Eq` looks at: every `Hash` impl of the crate feeds EVERY field of the value, whole, to the hasher
    (what `derive(Hash)` does). An impl that hashes part of the value (the first marker of an identifier, say) lets an input
    put all its keys into one bucket: reading n of them costs n^2."""
    F = ctx.F
    n = 0
    for i in F.impls:
        if i.get('trait') != 'std::hash::Hash':
            continue
        adt = (i.get('self_head') or {}).get('adt')
        a = F.adts.get(adt) if adt else None
        ms = [m for m in i['items'] if m['name'] == 'hash']
        if a is None or not ms or ms[0]['key'] not in F:
            continue
        hb = F.fn(ms[0]['key'])
        if len(a['variants']) != 1:
            # enums: the discriminant and the fields of each variant; derived impls only (left to the compiler)
            continue
        n += 1
        fields = [f['name'] for f in a['variants'][0]['fields']]
        covered = set()
        for c in hb.calls(r'^std::hash::Hash::hash$', r'^std::hash::Hash::hash_slice$'):
            if not c.args:
                continue
            for s in lib.copy_chain_sources(hb, c.args[0], through_calls=tuple(lib.IDENTITY_CALLS)):
                if s[0] == 'param' and s[1] == 1:
                    path = [x for x in s[2] if x != '*']
                    if len(path) == 1:
                        covered.add(str(path[0]))
        # ... or feeds the hasher a whole-value encoding of the field (`state.write(&self.0.to_bytes())`)
        for c in hb.calls(r'^std::hash::Hasher::write(_u8|_u16|_u32|_u64|_usize|_i64)?$'):
            if len(c.args) < 2:
                continue
            sl = backward_slice(hb, [c.args[1]], follow_mutarg=False)
            for e in sl.calls:
                if e.is_(r'::(to_bytes|to_repr|as_bytes|to_be_bytes|to_le_bytes|serialize|to_vec|as_slice|to_encoded_point)$') and e.args:
                    for s in lib.copy_chain_sources(hb, e.args[0], through_calls=tuple(lib.IDENTITY_CALLS)):
                        if s[0] == 'param' and s[1] == 1:
                            path = [x for x in s[2] if x != '*']
                            if len(path) == 1:
                                covered.add(str(path[0]))
        missing = [f for f in fields if f not in covered]
        ctx.check(not missing, adt, 'Hash feeds every field to the hasher',
                  'the Hash impl of %s does not hash field(s) %s whole: values that differ only there collide, and a hash set of such '
                  'values read from untrusted bytes degrades to a list (quadratic deserialization)' % (adt, missing),
                  'hash(&self.f) for every field', hb.where())
    ctx.floor(n, 4, 'Hash impls of the crate')
