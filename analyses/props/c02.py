"""C02 — unauthorized keys never recover a secret (E-DOM guards, dispatch, grant)."""
import re

from ..engine import prop, rule
from ..facts import (op_local, op_place, is_place, backward_slice, copy_chain_sources, IDENTITY_CALLS,
                     switch_on, bool_edges, proj_names, field_path, pstr)
from .. import lib

prop('C02',
     explanation=(
         'E-DOM + E-PROV. guard: in c_decaps / h_decaps every `Ok(Some(secret))` is dominated by the true edge '
         'of (1) a full-width equality between the encapsulation tag and the tag half of the SAME J_hash call '
         'whose key half is the returned secret, and (2) a whole-vector equality between the encapsulation traps '
         'and set_traps(G_hash(S)) for the same candidate seed S fed to that J_hash (Fujisaki-Okamoto). dispatch: '
         '`decaps` hands tag / traps / matching encapsulation vector of the XEnc parameter to the flavour-specific '
         'function (HEncs -> h_decaps, CEncs -> c_decaps). grant: UserSecretKey.secrets is written only by '
         'usk_keygen, refresh and read; in the first two every read of the master secrets is a keyed lookup '
         '(get / get_latest / contains_key) whose key comes from the requested right set / the key\'s own rights.'),
     not_decided='that the complementary space is not over-broad (direction of Dimension::restrict); the '
                 'cryptographic claim that a key without the secret cannot pass the tag check',
     assumptions=['SHA3 collision resistance', 'PartialEq::eq on arrays / slices / Vec compares every element'])

EQ = (r'^std::cmp::PartialEq::(eq|ne)$',)


def eq_guards(body):
    """Equality tests that are branched on: [(call, eq_edge, ne_edge)]."""
    out = []
    for c in body.calls(*EQ):
        for (sb, neg) in switch_on(body, c.dest['l']):
            te, fe = bool_edges(body, sb, neg)
            if te is None:
                continue
            if c.name == 'ne':
                te, fe = fe, te
            out.append((c, te, fe))
    return out


def root_descr(body, op):
    """Identity roots of an operand, each as (kind, param, path) or ('call', Call)."""
    return copy_chain_sources(body, op, through_calls=IDENTITY_CALLS)


def is_tag_root(body, r, taglen):
    if r[0] != 'param':
        return False
    p, path = r[1], r[2]
    ty = body.local_ty(p)
    if not path and re.search(r'\[u8; %d\]' % taglen, ty):
        return True
    return bool(path) and path[-1] == 'tag'


def is_traps_root(body, r):
    if r[0] != 'param':
        return False
    p, path = r[1], r[2]
    ty = body.local_ty(p)
    if not path and re.search(r'&\[.*(Point|PublicKey)\]', ty):
        return True
    return bool(path) and path[-1] == 'c'


def slice_calls(body, op, pat):
    return backward_slice(body, [op], follow_mutarg=False).has_call(pat)


def success_targets(F, body):
    """Blocks where a secret is handed out: Some(..) flowing to the return value, Some(..)
    stored through a captured reference, or an insertion into a captured set."""
    out = []
    for b in sorted(body.live_blocks()):
        for i, st in enumerate(body.stmts(b)):
            rv = st['rv']
            if rv['k'] == 'agg' and rv.get('adt') == 'std::option::Option' and rv['variant'] == 'Some' \
                    and not st['lhs']['p'] and hands_out(body, st['lhs']['l']):
                out.append((b, 'Some(secret)', rv['ops'][0], st['ln']))
        t = body.term(b)
        if t['k'] == 'call':
            c = body.call_at(b)
            if c.is_(r'^std::collections::HashSet::<[^>]*>::insert$') and 'Right' in c.full:
                out.append((b, 'rights.insert', None, c.ln))
    return out


def hands_out(body, l):
    """Does local l (an Option) leave the function: wrapped in Ok(..) / moved to the return
    place, or stored through a reference (captured `&mut Option<_>`)?"""
    S = {l}
    for _ in range(6):
        grew = False
        for b in sorted(body.live_blocks()):
            for st in body.stmts(b):
                rv = st['rv']
                srcs = []
                if rv['k'] == 'use' and is_place(rv['a']):
                    srcs = [rv['a']]
                elif rv['k'] == 'agg' and rv.get('adt') == 'std::result::Result' and rv['variant'] == 'Ok':
                    srcs = rv['ops']
                if any(is_place(o) and op_local(o) in S and not op_place(o)['p'] for o in srcs):
                    lhs = st['lhs']
                    if '*' in proj_names(lhs):
                        return True
                    if lhs['l'] == 0:
                        return True
                    if lhs['l'] not in S and not lhs['p']:
                        S.add(lhs['l'])
                        grew = True
        if not grew:
            break
    return 0 in S


def check_fo_guards(ctx, F, body, label):
    """Shared by C02.guard and C18.guard."""
    taglen = (F.consts.get('core::TAG_LENGTH') or {}).get('v', 16)
    guards = eq_guards(body)
    targets = success_targets(F, body)
    n = 0
    for (tb, what, payload, ln) in targets:
        # --- (1) tag guard
        g1 = None
        why1 = 'no equality between the encapsulation tag and a J_hash output dominates it'
        for (c, te, fe) in guards:
            ra, rb = root_descr(body, c.args[0]), root_descr(body, c.args[1])
            for (x, xo, yo) in ((ra, c.args[0], c.args[1]), (rb, c.args[1], c.args[0])):
                if not any(is_tag_root(body, r, taglen) for r in x):
                    continue
                js = slice_calls(body, yo, r'primitives::J_hash$')
                if not js:
                    why1 = 'the tag is compared (line %d) with a value that does not come from J_hash' % c.ln
                    continue
                full = re.search(r'\[u8; %d\]' % taglen, c.self_ty or '')
                if not full:
                    why1 = 'the tag comparison at line %d is not on the full %d-byte tag (%s)' % (c.ln, taglen, c.self_ty)
                    continue
                if not body.edge_dominates(te, tb):
                    why1 = 'the tag comparison at line %d does not dominate it on its equal edge' % c.ln
                    continue
                g1 = (c, js)
        n += 1
        ok1 = g1 is not None
        if ok1 and payload is not None:
            pj = slice_calls(body, payload, r'primitives::J_hash$')
            same = [j for j in pj if any(j is x for x in g1[1])]
            if not same:
                ok1 = False
                why1 = 'the returned secret does not come from the J_hash call whose tag half was compared'
        ctx.check(ok1, body.key, '%s<=tag-guard' % what,
                  '%s at line %d: %s' % (what, ln, why1),
                  detail_ok='dominated by the equal edge of tag == J_hash(S, U).0 (line %d)' % (g1[0].ln if g1 else 0),
                  where=body.where(ln))
        # --- (2) trap guard (Fujisaki-Okamoto)
        g2 = None
        why2 = 'no equality between the encapsulation traps and re-derived traps dominates it'
        for (c, te, fe) in guards:
            ra, rb = root_descr(body, c.args[0]), root_descr(body, c.args[1])
            for (x, yo) in ((ra, c.args[1]), (rb, c.args[0])):
                if not any(is_traps_root(body, r) for r in x):
                    continue
                sts = slice_calls(body, yo, r'::set_traps$')
                yroots = root_descr(body, yo)
                direct = [r for r in yroots if r[0] == 'call' and r[1].is_(r'::set_traps$')]
                if not sts or not direct:
                    why2 = ('the traps are compared (line %d) with something other than the whole re-derived trap '
                            'vector (set_traps output)' % c.ln)
                    continue
                st = direct[0][1]
                gh = slice_calls(body, st.args[-1], r'primitives::G_hash$')
                if not gh:
                    why2 = 'the re-derived traps (line %d) do not use G_hash of the candidate seed' % st.ln
                    continue
                if g1 is not None:
                    seeds_j = set()
                    for j in g1[1]:
                        seeds_j |= lib.roots_of(body, j.args[0])
                    seeds_g = set()
                    for g in gh:
                        seeds_g |= lib.roots_of(body, g.args[0])
                    if not (seeds_j & seeds_g):
                        why2 = 'G_hash (line %d) is not applied to the candidate seed that was fed to J_hash' % gh[0].ln
                        continue
                if not body.edge_dominates(te, tb):
                    why2 = 'the trap comparison at line %d does not dominate it on its equal edge' % c.ln
                    continue
                g2 = c
        n += 1
        ctx.check(g2 is not None, body.key, '%s<=trap-guard' % what, '%s at line %d: %s' % (what, ln, why2),
                  detail_ok='dominated by the equal edge of c == set_traps(G_hash(S)) (line %d)' % (g2.ln if g2 else 0),
                  where=body.where(ln))
    return len(targets)


@rule('C02', 'guard', configs=('default', 'p256'))
def guard(ctx):
    F = ctx.F
    tot = 0
    for k in ('core::primitives::c_decaps', 'core::primitives::h_decaps'):
        body = F.fn(k)
        nt = check_fo_guards(ctx, F, body, k)
        if nt == 0:
            ctx.bad(k, 'no-success-return', 'no `Some(secret)` return found: cannot locate what the guards protect')
        tot += nt
        # the only other normal return is Ok(None)
    ctx.floor(tot, 2, 'guarded success returns')


@rule('C02', 'dispatch', configs=('default', 'p256'))
def dispatch(ctx):
    F = ctx.F
    body = F.fn('core::primitives::decaps')
    want = {'core::primitives::h_decaps': '@HEncs', 'core::primitives::c_decaps': '@CEncs'}
    n = 0
    for c in body.calls():
        cal = lib.local_callee(F, c)
        if cal is None or cal.key not in want:
            continue
        n += 1
        variant = want[cal.key]
        # argument provenance by parameter name of the callee
        names = {}
        taglen = (F.consts.get('core::TAG_LENGTH') or {}).get('v', 16)
        for pi in range(1, cal.argc + 1):
            ty = cal.local_ty(pi)
            if re.search(r'^&\[u8; %d\]$' % taglen, ty):
                names[pi - 1] = 'tag'
            elif re.search(r'^&core::UserSecretKey$', ty):
                names[pi - 1] = 'usk'
            elif re.search(r'^&\[.*(Point|PublicKey)\]$', ty):
                names[pi - 1] = 'c'
            elif re.search(r'^&(\[|std::vec::Vec<)', ty):
                names[pi - 1] = 'encs'
        for i, a in enumerate(c.args):
            nm = names.get(i, '?')
            roots = [r for r in root_descr(body, a) if r[0] == 'param']
            paths = [r[2] for r in roots]
            if nm == 'tag':
                ctx.check(any(p and p[-1] == 'tag' for p in paths), body.key, '%s(tag)' % cal.name,
                          'the tag handed to %s is not the `tag` field of the encapsulation (%s)' % (cal.name, paths),
                          'tag <- encapsulation.tag', c.where())
            elif nm == 'c':
                ctx.check(any(p and p[-1] == 'c' for p in paths), body.key, '%s(c)' % cal.name,
                          'the traps handed to %s are not the `c` field of the encapsulation (%s)' % (cal.name, paths),
                          'c <- encapsulation.c', c.where())
            elif nm == 'encs':
                ctx.check(any(variant in p for p in paths), body.key, '%s(encs)' % cal.name,
                          '%s receives an encapsulation vector that is not the %s payload (%s)' % (cal.name, variant[1:], paths),
                          'encs <- encapsulations as %s' % variant[1:], c.where())
            elif nm == 'usk':
                ctx.check(any(not p for p in paths), body.key, '%s(usk)' % cal.name,
                          'the key handed to %s is not the caller\'s key' % cal.name, 'usk <- usk', c.where())
    ctx.floor(n, 2, 'flavour dispatch calls')


USK = 'core::UserSecretKey'
ALLOWED_WRITERS = {
    'core::primitives::usk_keygen': 'issues a new key',
    'core::primitives::refresh': 'refreshes a verified key',
    'core::serialization::<impl cosmian_crypto_core::bytes_ser_de::Serializable for core::UserSecretKey>::read': 'deserialisation',
    '<core::UserSecretKey as std::clone::Clone>::clone': 'derive(Clone)',
}


def field_writers(F, adt, field):
    """(body, where, kind) for every construction of `adt` and every assignment to `adt.field`."""
    out = []
    for body in F.fns():
        for b in sorted(body.live_blocks()):
            for st in body.stmts(b):
                rv = st['rv']
                if rv['k'] == 'agg' and rv.get('adt') == adt:
                    if field in rv.get('fields', []):
                        out.append((body, st['ln'], 'construct', rv['ops'][rv['fields'].index(field)]))
                for e in st['lhs']['p']:
                    pass
                # assignment to the field itself (last projection element is the field)
                lp = st['lhs']['p']
                if lp:
                    last = lp[-1]
                    if isinstance(last, dict) and last.get('n') == field and last.get('o') == adt:
                        out.append((body, st['ln'], 'assign', rv.get('a')))
            t = body.term(b)
            if t['k'] == 'call':
                c = body.call_at(b)
                # `&mut x.field` handed to a mutator
                for a in c.args:
                    l = op_local(a)
                    if l is None:
                        continue
                    for (pl, m) in body.refs().get(l, []):
                        if m and pl['p']:
                            last = pl['p'][-1]
                            if isinstance(last, dict) and last.get('n') == field and last.get('o') == adt:
                                out.append((body, c.ln, 'mutref:' + (c.name or '?'), None))
    return out


@rule('C02', 'grant', configs=('default', 'p256'))
def grant(ctx):
    F = ctx.F
    ws = field_writers(F, USK, 'secrets')
    n = 0
    for (body, ln, kind, op) in ws:
        root = body.root or body.key
        n += 1
        ctx.check(root in ALLOWED_WRITERS, root, 'writes UserSecretKey.secrets',
                  '%s (%s, line %d) writes the secrets of a user key; only %s may' % (
                      body.key, kind, ln, ', '.join(sorted(k.split('::')[-1] for k in ALLOWED_WRITERS))),
                  ALLOWED_WRITERS.get(root, ''), body.where(ln))
    ctx.floor(n, 3, 'writers of UserSecretKey.secrets')
    # every read of MasterSecretKey.secrets on the issuing paths is a keyed lookup
    KEYED = r'RevisionMap::<K, V>::(get|get_latest|contains_key)$'
    m = 0
    for fk in ('core::primitives::usk_keygen', 'core::primitives::refresh', 'core::primitives::refresh_coordinate_keys',
               'core::MasterSecretKey::get_latest_right_sk'):
        if fk not in F.bodies:
            if fk.endswith('refresh_coordinate_keys'):
                continue
            raise_missing(fk)
        for body in F.family(fk):
            for c in body.calls():
                for a in c.args[:1]:
                    roots = [r for r in root_descr(body, a) if r[0] == 'param']
                    if not any(r[2] and r[2][-1] == 'secrets' and 'MasterSecretKey' in owner_of(body, r) for r in roots):
                        continue
                    m += 1
                    ctx.check(c.is_(KEYED), fk, 'msk.secrets read by %s' % (c.name,),
                              '%s reads the master secrets through `%s` (line %d), which is not a lookup keyed by one of '
                              'the key\'s rights: a user key could be granted secrets of rights it was not issued for'
                              % (body.key, c.name, c.ln), 'keyed lookup', c.where())
    ctx.floor(m, 2, 'reads of the master secrets on issuing paths')


def owner_of(body, r):
    """Type text of the parameter a root hangs from (closure env fields included)."""
    p = r[1]
    ty = body.local_ty(p)
    if 'closure' in str(body.local_head(p)) or body.kind == 'Closure' and p == 1:
        # captured variable: look at the upvar's type through the debug info
        for v in body.vars:
            pl = v['pl']
            if pl['l'] == 1 and pl['p']:
                nm = [e for e in pl['p'] if isinstance(e, dict) and 'f' in e]
                if nm and r[2] and nm[0]['n'] == r[2][0]:
                    return nm[0]['ty']
        return ty
    return ty


def raise_missing(k):
    from ..facts import AnchorMissing
    raise AnchorMissing('function %s not found' % k)


@rule('C02', 'witness-private', tier='thorough')
def witness_private(ctx):
    from .. import witness
    witness.check(ctx, ['UserKeyRepresentationIsPrivate'])


SELECTING = (r'^std::iter::Iterator::(filter|filter_map|skip|skip_while|step_by|rev|nth|last|take|map_while|flat_map|chain|zip|'
             r'scan|partition|max|min|max_by_key|min_by_key|find|position)$',)


def check_restrict_prefix(ctx, F):
    """The hierarchical restriction is positional: the kept attributes are the prefix of the ordered
    dictionary that precedes the named attribute (selected by comparing *names*), plus that attribute."""
    rb = F.fn('abe_policy::dimension::Dimension::restrict')
    tw = rb.calls(r'^std::iter::Iterator::take_while$')
    di = rb.calls(r'Dict::<K, V>::iter$')
    if not tw and _restrict_prefix_loop(ctx, F, rb, di):
        return
    ctx.check(len(tw) == 1 and len(di) >= 1, rb.key, 'prefix of the ordered dictionary',
              'Dimension::restrict no longer selects the lower attributes as the prefix (take_while) of the ordered dictionary: '
              'rank in a hierarchy is the position in the Dict, any other selection (by id, by filter) gives keys the wrong levels',
              'Dict::iter().take_while(..)', rb.where())
    other = [c for c in rb.calls(*SELECTING)]
    ctx.check(not other, rb.key, 'no other selection', 'Dimension::restrict also selects attributes through %s (line %d)' % (
        other[0].name if other else '', other[0].ln if other else 0), 'take_while only', rb.where())
    for c in tw:
        # receiver is Dict::iter of the hierarchy
        sl = backward_slice(rb, [c.args[0]], follow_mutarg=False)
        ctx.check(any(x in di for x in sl.calls) and not sl.has_call(*SELECTING), rb.key, 'take_while over Dict::iter',
                  'the prefix is not taken directly over the ordered dictionary', 'receiver = attributes.iter()', c.where())
        for (_i, cb, _rv) in lib.closure_args(F, c):
            cmps = cb.calls(r'^std::cmp::PartialEq::(ne|eq)$')
            okp = len(cmps) == 1 and 'String' in (cmps[0].self_ty or '')
            if okp:
                sides = [copy_chain_sources(cb, a, through_calls=IDENTITY_CALLS) for a in cmps[0].args]
                elem = any(r[0] == 'param' and r[1] == 2 and [x for x in r[2] if not x.startswith('@')][:1] == ['0'] for s in sides for r in s)
                cap = any(r[0] == 'param' and r[1] == 1 for s in sides for r in s)
                okp = elem and cap and cmps[0].name == 'ne'
            # the predicate must not look at the attribute value (id, hint, status)
            reads_val = False
            for b in sorted(cb.live_blocks()):
                for st in cb.stmts(b):
                    rv = st['rv']
                    pl = rv['pl'] if rv['k'] == 'ref' else (op_place(rv['a']) if rv['k'] == 'use' and is_place(rv['a']) else None)
                    if pl is not None and pl['l'] == 2:
                        fp = [x for x in field_path(pl) if not x.startswith('@')]
                        if fp[:1] == ['1']:
                            reads_val = True
            ctx.check(okp and not reads_val, rb.key, 'predicate: name != target name',
                      'the restriction predicate is not `name != attr_name` on the dictionary key (it %s): the restriction must '
                      'follow the order of the hierarchy, not properties of the attributes' % (
                          'reads the attribute value' if reads_val else 'compares something else'),
                      'compares the entry name with the captured target name', cb.where())
    ins = rb.calls(r'Dict::<K, V>::insert$')
    ctx.check(len(ins) == 1, rb.key, 'named attribute inserted', 'the named attribute itself is not added to the restriction', 'insert(attr_name, params)', rb.where())


def _restrict_prefix_loop(ctx, F, rb, di):
    """The same prefix written as a loop: `for (name, attr) in attributes.iter() { if name == target { break } new.insert(..) }`.
    Returns False when restrict has no such loop (the caller then reports the missing take_while)."""
    from ..trans import chain_source, CHAIN_FLAGS
    loops = []
    for nx in rb.calls(r'^std::iter::Iterator::next$'):
        if not nx.args:
            continue
        src = chain_source(F, rb, nx.args[0])
        fl = set(CHAIN_FLAGS[0])
        sl = backward_slice(rb, [nx.args[0]], follow_mutarg=False)
        if any(x in di for x in sl.calls):
            loops.append((nx, fl, sl))
    if len(loops) != 1:
        return False
    nx, fl, sl = loops[0]
    ctx.check(not fl and not sl.has_call(*SELECTING), rb.key, 'prefix of the ordered dictionary',
              'Dimension::restrict walks the hierarchy through %s: rank in a hierarchy is the position in the Dict, the lower attributes '
              'are the ones met before the named one, in order' % (sorted(fl) or 'a selecting adaptor'), 'attributes.iter(), as it is', nx.where())
    other = [c for c in rb.calls(*SELECTING)]
    ctx.check(not other, rb.key, 'no other selection', 'Dimension::restrict also selects attributes through %s (line %d)' % (
        other[0].name if other else '', other[0].ln if other else 0), 'the loop only', rb.where())
    somes = [t_ for (_sb, t_) in lib.present_edges(rb, nx)]
    ins = rb.calls(r'Dict::<K, V>::insert$')
    in_loop = [c for c in ins if nx.b in rb.reach(c.b)]
    after = [c for c in ins if c not in in_loop]
    # the guard: a String comparison between the entry name and the target name
    guards = []
    for (c, te, fe) in eq_guards(rb):
        if 'String' not in (c.self_ty or '') or nx.b not in rb.reach(c.b):
            continue
        sides = [copy_chain_sources(rb, a, through_calls=IDENTITY_CALLS) for a in c.args]
        elem = any(r[0] == 'call' and r[1] is nx and [x for x in r[2] if not str(x).startswith('@')][-1:] == ['0'] for s in sides for r in s)
        tgt = any(r[0] == 'param' and r[1] == 2 for s in sides for r in s)
        if elem and tgt:
            guards.append((c, te, fe))
    okg = len(guards) == 1
    if okg:
        (c, te, fe) = guards[0]
        # equal: leaves the loop for good; not equal: the only way to the insertion of the entry
        okg = te is not None and fe is not None and nx.b not in rb.reach(te[1], avoid_edges=()) and \
            all(rb.edge_dominates(fe, i.b) for i in in_loop) and bool(in_loop)
    ctx.check(okg, rb.key, 'predicate: name != target name',
              'the loop of Dimension::restrict does not copy exactly the entries met before the one whose NAME is the target (one '
              'comparison of the entry name with the target name; equal leaves the loop, not equal inserts the entry): the restriction '
              'must follow the order of the hierarchy, not properties of the attributes', 'if name == target { break } insert(..)', nx.where())
    named = [c for c in after if len(c.args) > 1 and any(r[0] == 'param' and r[1] == 2 for r in copy_chain_sources(rb, c.args[1], through_calls=IDENTITY_CALLS))]
    ctx.check(len(named) == 1, rb.key, 'named attribute inserted', 'the named attribute itself is not added to the restriction',
              'insert(attr_name, params)', rb.where())
    return True


@rule('C02', 'restrict-prefix')
def restrict_prefix(ctx):
    check_restrict_prefix(ctx, ctx.F)


@rule('C02', 'hierarchy-order')
def hierarchy_order(ctx):
    """A lower attribute never opens a higher one only if the rank order of a hierarchy survives edits and
    round-trips: order-preserving removal in the ordered dictionary, and dimensions serialised in their own order."""
    from . import c03, c13
    c03.dict_remove_shifts(ctx)
    c03.add_keeps_rank_order(ctx)
    # a duplicate name is refused by a lookup in the hierarchy itself (a re-added attribute would otherwise be re-ranked)
    from . import c09
    c09.failure_decided_by_own_lookup(ctx)
    c13.restricted(ctx, r'(dimension::Dimension|AccessStructure)$', [c13.agree, c13.order])


@rule('C02', 'rename-keeps-rank')
def rename_keeps_rank(ctx):
    """Renaming keeps an attribute at its rank (and with its identifier): otherwise a lower attribute becomes a higher one."""
    from . import c03
    c03.rename_keeps_id(ctx)


@rule('C02', 'clause-independence')
def clause_independence(ctx):
    """The rights of a user key are the union, over the clauses of its policy, of rights computed from THAT clause alone: the
    functions computing the points of one clause take no mutable state and the closure that maps them over the clauses captures
    nothing mutably — nothing learnt from one clause (a cached restriction of a hierarchy, say) can leak into another, which
    would hand a key the higher ranks of a clause it does not satisfy."""
    F = ctx.F
    per_clause = ['abe_policy::access_structure::AccessStructure::generate_complementary_points',
                  'abe_policy::access_structure::AccessStructure::generate_semantic_space',
                  'abe_policy::dimension::Dimension::restrict']
    for k in per_clause:
        b = F.fn(k)
        muts = [i for i in range(1, b.argc + 1) if b.local_ty(i).startswith('&mut')]
        ctx.check(not muts, k, 'no mutable parameter', '%s takes mutable state (parameter %s: %s): the rights computed for one clause '
                  'can depend on the clauses processed before' % (k, muts[:1], b.local_ty(muts[0]) if muts else ''), 'pure in the clause', b.where())
    rb = F.fn('abe_policy::access_structure::AccessStructure::generate_complementary_rights')
    n = 0
    for cb in F.closures_of(rb.key):
        if not cb.calls(r'generate_complementary_points$'):
            continue
        n += 1
        envty = cb.local_ty(1)
        mut_caps = []
        for (pb, b, st, rv, cl) in lib.closure_creation_sites(F, cb):
            for o in rv['ops']:
                if is_place(o):
                    d = lib.single_def(pb, op_local(o))
                    if d is not None and d.kind == 'assign' and d.rv['k'] == 'ref' and d.rv.get('mut'):
                        mut_caps.append(o)
        ctx.check(not mut_caps, rb.key, 'per-clause closure captures nothing mutably',
                  'the closure mapping generate_complementary_points over the clauses captures a `&mut` (line %d): state '
                  'is threaded from one clause to the next' % cb.line, 'Fn closure', cb.where())
    # or a plain loop calling it: then the call's arguments carry no &mut either (covered by the parameter check above)
    n += len(rb.calls(r'generate_complementary_points$'))
    ctx.floor(n, 1, 'per-clause computation of the complementary points')


@rule('C02', 'rights-from-every-attribute')
def rights_from_every_attribute(ctx):
    """The right an encapsulation targets is built from the identifier of EVERY attribute of the conjunction — a lookup that
    fails is an error, never a skipped attribute (a right built from fewer attributes is more general: keys that do not satisfy
    the policy open it) (C01.canon)."""
    from . import c01
    c01.canon(ctx)


@rule('C02', 'star-is-the-identity-of-and')
def star_identity(ctx):
    """A policy `x && *` targets x, not everybody: the conjunction with Broadcast returns its other operand (C15.and-or-identities)."""
    from . import c15
    c15.and_or_identities(ctx)


@rule('C02', 'distinct-secrets', configs=('default', 'p256'))
def distinct_secrets(ctx):
    """Two rights never share a secret: every secret is drawn from the one RNG stream that advances with every draw — never
    from a copy of its state (C16.rng-threading, C16.ids-and-secrets). A shared secret lets a key for one right open the other."""
    from . import c16
    c16.rng_threading(ctx)
    c16.ids_and_secrets(ctx)


@rule('C02', 'encryption-targets-the-whole-policy')
def encryption_targets_the_whole_policy(ctx):
    """An encapsulation is made for the rights of the policy AS WRITTEN: the DNF keeps every clause and every attribute of a
    clause (C15.dnf-keeps-clauses) — a clause that loses an attribute is opened by keys the policy excludes."""
    from . import c15
    c15.dnf_keeps_clauses(ctx)


@rule('C02', 'instance-is-stateless')
def instance_is_stateless(ctx):
    """'Unauthorized keys never recover a secret', whatever was done before with the same scheme instance: the rights a policy denotes are computed from the access structure of the key that is given, never remembered from another one. Structurally: the scheme instance holds its random generator and nothing else — no cache, no memo, no static, no
    thread-local (C19.state-audit)."""
    from . import c19
    c19.state_audit(ctx)
