"""C19 — a shared instance is safe and live under concurrent use (state audit + lock graph)."""
import re

from ..engine import prop, rule
from ..facts import op_local, op_place, is_place, backward_slice, copy_chain_sources, IDENTITY_CALLS
from .. import lib

prop('C19',
     explanation=(
         'For a library whose only shared state is one mutex the schedule quantifier is discharged by typing plus a lock '
         'analysis. state-audit: Covercrypt has exactly one field, rng: Mutex<CsRng>; the crate has no static, no '
         'thread_local and no other interior-mutable type (Cell, RefCell, Atomic*, Mutex, RwLock, Once*, Lazy*) in any '
         'ADT field; every API method takes &self and keys by explicit & / &mut, so two concurrent calls on distinct key '
         'objects share nothing but the RNG. no-reacquire (E-LOCK): no path acquires Covercrypt.rng (Mutex::lock or '
         'Covercrypt::rng()) while a guard of it is live, directly or through any crate callee — std::sync::Mutex is not '
         're-entrant, so that would be a certain deadlock; with one lock there is no order inversion, the engine still '
         'reports a second lock. bounded-hold: a guard\'s live range contains no indirect call (user callback) and no '
         'blocking primitive. guard-escape: the only function returning a guard is Covercrypt::rng().'),
     not_decided='behaviour after lock poisoning (a panic in one thread makes later calls panic on expect); fairness of '
                 'std::sync::Mutex; Send + Sync is checked by the compile-pass witness in the thorough tier',
     assumptions=['std::sync::Mutex::lock blocks when the same thread already holds the guard',
                  'C14.iter-progress: the loops executed under the lock terminate'])

INTERIOR = re.compile(r'\b(std::cell::(Cell|RefCell|UnsafeCell|OnceCell|LazyCell)|std::sync::(Mutex|RwLock|Once|OnceLock|LazyLock|Condvar|Barrier)|'
                      r'std::sync::atomic::|core::cell::|once_cell::|lazy_static|parking_lot::|std::sync::mpsc::)')
THREAD_BOUND = re.compile(r'\b(std::rc::(Rc|Weak)|alloc::rc::|std::sync::(MutexGuard|RwLockReadGuard|RwLockWriteGuard)|std::ptr::NonNull|std::marker::PhantomData<\*)|\*(const|mut) ')
LOCK = r'^std::sync::Mutex::<T>::lock$'
RNG_ACCESSOR = r'^api::Covercrypt::rng$'


@rule('C19', 'state-audit')
def state_audit(ctx):
    F = ctx.F
    cc = F.adts.get('api::Covercrypt')
    if cc is None:
        ctx.bad('api::Covercrypt', 'anchor-missing', 'the scheme instance type is gone')
        return
    fields = [(f['name'], f['ty']) for v in cc['variants'] for f in v['fields']]
    ctx.check(len(fields) == 1 and fields[0][0] == 'rng' and fields[0][1].startswith('std::sync::Mutex<'), 'api::Covercrypt',
              'single field rng: Mutex<CsRng>', 'the instance holds %s: any additional state is shared between concurrent calls' % fields,
              str(fields), cc['span'])
    ctx.check(not F.statics, '-', 'no statics', 'the crate defines statics %s: global state shared by all threads' % [s['path'] for s in F.statics],
              'none', '')
    n = 0
    for path, a in sorted(F.adts.items()):
        for v in a['variants']:
            for f in v['fields']:
                n += 1
                if path == 'api::Covercrypt' and f['name'] == 'rng':
                    continue
                ctx.check(not INTERIOR.search(f['ty']), path, 'field %s not interior-mutable' % f['name'],
                          'field `%s: %s` of %s is interior-mutable shared state' % (f['name'], f['ty'], path), f['ty'][:60], a['span'])
    ctx.floor(n, 40, 'ADT fields audited')
    # "used from several threads at once ... on distinct key objects": keys, encapsulations and the instance can be handed to and
    # borrowed by other threads — no field of any type of the crate is thread-bound (Rc, raw pointer, a guard); the compile-pass
    # witness of the thorough tier checks the auto traits themselves
    for path, a in sorted(F.adts.items()):
        for v in a['variants']:
            for f in v['fields']:
                ctx.check(not THREAD_BOUND.search(f['ty']), path, 'field %s can cross threads' % f['name'],
                          'field `%s: %s` of %s is neither Send nor Sync: every key or encapsulation that contains it can no longer be '
                          'moved to or shared with another thread' % (f['name'], f['ty'], path), f['ty'][:60], a['span'])
    # thread_local! expands to a static / LocalKey
    tl = [b.key for b in F.fns() if 'thread_local' in b.key or '__getit' in b.key]
    ctx.check(not tl, '-', 'no thread_local', 'thread-local state found: %s' % tl, 'none', '')
    # API methods take &self
    api = [b for b in F.fns() if (b.impl_self or '') == 'api::Covercrypt' and b.kind == 'AssocFn' and b.argc >= 1 and b.name != 'default']
    ctx.floor(len(api), 10, 'methods of Covercrypt')
    for b in api:
        ty = b.local_ty(1)
        ctx.check(ty == '&api::Covercrypt', b.key, 'takes &self', '%s takes `%s`: the instance must be usable through a shared reference'
                  % (b.key, ty), '&self', b.where())


def acquirers(F):
    """Crate functions that may acquire a mutex (transitively)."""
    CG = lib.CallGraph(F)
    direct = set()
    for b in F.fns():
        if b.calls(LOCK) or b.calls(r'::lock$'):
            direct.add(b.key)
    direct |= lib.guard_accessors(F)
    A = set(direct)
    changed = True
    while changed:
        changed = False
        for k, es in CG.out.items():
            if k not in A and es & A:
                A.add(k)
                changed = True
    return A, CG


def is_accessor_call(F, c):
    cal = lib.local_callee(F, c)
    return c.is_(RNG_ACCESSOR) or (cal is not None and cal.key in lib.guard_accessors(F))


def guard_local(body, c):
    """Local that owns the guard produced (directly or through expect/unwrap) by acquisition c."""
    if 'MutexGuard<' in body.local_ty(c.dest['l']):
        return c.dest['l']
    cur = c.dest['l']
    for _ in range(4):
        nxt = None
        for cc in body.calls(r'Result::<T, E>::(expect|unwrap)$', r'Result::<T, E>::unwrap_or_else$'):
            if cc.args and op_local(cc.args[0]) == cur:
                nxt = cc.dest['l']
        if nxt is None:
            break
        cur = nxt
    # moved into a user variable?
    for b in range(body.n):
        if body.cleanup[b]:
            continue
        for st in body.stmts(b):
            rv = st['rv']
            if rv['k'] == 'use' and is_place(rv['a']) and op_local(rv['a']) == cur and not op_place(rv['a'])['p'] and not st['lhs']['p'] \
                    and 'MutexGuard' in body.local_ty(st['lhs']['l']):
                cur = st['lhs']['l']
    return cur


def live_region(body, c, g):
    """Blocks in which guard g (acquired at call c) may be live: reachable from the acquisition
    without passing the DROP of g."""
    drops = set()
    for b in range(body.n):
        if body.cleanup[b]:
            continue
        t = body.term(b)
        if t['k'] == 'drop' and t['pl']['l'] == g and not t['pl']['p']:
            drops.add(b)
    start = [c.target] if c.target is not None else []
    seen = set()
    work = list(start)
    while work:
        b = work.pop()
        if b in seen:
            continue
        seen.add(b)
        if b in drops:
            continue
        for s in body.succs[b]:
            work.append(s)
    return seen, drops


@rule('C19', 'no-reacquire', configs=('default',))
def no_reacquire(ctx):
    F = ctx.F
    A, CG = acquirers(F)
    n = 0
    locks = set()
    accessors = lib.guard_accessors(F)
    for body in F.fns():
        acq = [c for c in body.calls() if c.is_(LOCK) or is_accessor_call(F, c)]
        for c in acq:
            if body.key in accessors and c.is_(LOCK):
                # the accessor's own lock() is the acquisition its callers perform; its guard is returned
                n += 1
                ctx.ok(body.key, 'guard accessor', 'returns the guard of its own lock()', c.where())
                continue
            n += 1
            # which lock?
            if c.is_(LOCK):
                rs = [r for r in copy_chain_sources(body, c.args[0], through_calls=IDENTITY_CALLS) if r[0] == 'param']
                locks.add(tuple(sorted(set('.'.join(r[2]) for r in rs))) or ('?',))
            g = guard_local(body, c)
            region, drops = live_region(body, c, g)
            root = body.root or body.key
            bad = []
            held = []
            for b in sorted(region):
                t = body.term(b)
                if t['k'] != 'call':
                    continue
                cc = body.call_at(b)
                if cc is c:
                    continue
                held.append(cc)
                if cc.is_(LOCK) or is_accessor_call(F, cc):
                    bad.append((cc, 'acquires the lock again'))
                    continue
                cal = lib.local_callee(F, cc)
                if cal is not None and cal.key in A:
                    bad.append((cc, 'calls %s, which acquires the lock' % cal.key))
                elif cal is None and cc.fn and cc.fn.get('res') is None and cc.trait:
                    # dispatch on a generic parameter to a crate trait: any crate impl
                    for i in F.impls:
                        if i.get('trait') == cc.trait:
                            m = F.impl_method(i, cc.name)
                            if m is not None and m.key in A:
                                bad.append((cc, 'may dispatch to %s, which acquires the lock' % m.key))
                for (_i, cb, _rv) in lib.closure_args(F, cc):
                    if cb.key in A:
                        bad.append((cc, 'runs a closure that acquires the lock'))
            ctx.check(not bad, root, 'guard@%s not re-acquired' % (body.var_name(g) or 'temporary'),
                      'while the guard of Covercrypt.rng acquired at line %d is live, line %d %s: std::sync::Mutex is not re-entrant, '
                      'the call deadlocks' % (c.ln, bad[0][0].ln if bad else 0, bad[0][1] if bad else ''),
                      '%d call(s) under the guard, none acquires' % len(held), c.where(),
                      path={'acquired': c.ln, 'offending': [(x.full[:80], x.ln, w) for x, w in bad[:4]]})
            # bounded hold: no indirect calls under the guard
            ind = [x for x in held if x.fn is None]
            ctx.check(not ind, root, 'guard@%s: no callback under the lock' % (body.var_name(g) or 'temporary'),
                      'an indirect call (line %d) runs while the RNG lock is held' % (ind[0].ln if ind else 0), 'no indirect call', c.where())
    ctx.floor(n, 11, 'acquisition sites of Covercrypt.rng')
    ctx.check(len(locks) <= 1, '-', 'single lock', 'several distinct mutexes are locked (%s): acquisition order must be checked' % sorted(locks),
              'one lock: %s' % sorted(locks), '')
    # guard escape
    esc = [b.key for b in F.fns() if 'MutexGuard' in b.locals[0]['ty'] and b.kind != 'Closure' and b.is_pub]
    ctx.check(esc == ['api::Covercrypt::rng'], '-', 'guard-escape', 'public functions returning a MutexGuard: %s (only Covercrypt::rng '
              'may hand a guard to callers outside the crate)' % esc, 'only Covercrypt::rng (private lock helpers: %s)' % sorted(
                  accessors - set(esc)), '')


@rule('C19', 'witness-send-sync', tier='thorough')
def witness_send_sync(ctx):
    from .. import witness
    witness.check(ctx, ['InstanceIsSendSync', 'InstanceStateIsPrivate'])


@rule('C19', 'blocking-acquire')
def blocking_acquire(ctx):
    """No call fails because another thread holds the lock: every acquisition waits (Mutex::lock), none polls
    (try_lock) and turns contention into a panic or an error."""
    F = ctx.F
    bad = []
    n = 0
    for body in F.fns():
        for c in body.calls(r'^std::sync::(Mutex|RwLock)::<T>::(try_lock|try_read|try_write)$'):
            bad.append((body, c))
        n += len(body.calls(LOCK))
    ctx.check(not bad, '-' if not bad else (bad[0][0].root or bad[0][0].key), 'no try_lock',
              '%s acquires the RNG with try_lock (line %d): under contention the call fails (and its expect panics) instead of '
              'waiting — a call no longer returns what it would return alone' % (bad[0][0].key if bad else '', bad[0][1].ln if bad else 0),
              '%d blocking acquisitions, no polling one' % n, bad[0][1].where() if bad else '')


@rule('C19', 'fresh-across-threads', configs=('default',))
def fresh_across_threads(ctx):
    """'The freshness guarantees hold across threads': all randomness is drawn from the one locked generator — the RNG
    reference handed to every consumer is the guard / parameter itself, never a copy of its state (C16.rng-threading)."""
    from . import c16
    c16.rng_threading(ctx)


@rule('C19', 'no-panic-under-lock', configs=('default',))
def no_panic_under_lock(ctx):
    """A panic while the guard of Covercrypt.rng is live poisons the mutex: every later call of every thread on the shared
    instance then panics on its `expect`.  Every crate-local panic site reachable from a call made inside a guard's live range
    must therefore be discharged (same audit as C14.panic, over the functions run under the lock)."""
    from . import c14
    F = ctx.F
    callees = set()
    accessors = lib.guard_accessors(F)
    for body in F.fns():
        for c in body.calls():
            if not (c.is_(LOCK) or is_accessor_call(F, c)):
                continue
            if body.key in accessors and c.is_(LOCK):
                continue
            g = guard_local(body, c)
            region, _drops = live_region(body, c, g)
            for b in region:
                t = body.term(b)
                if t['k'] == 'call':
                    cal = lib.local_callee(F, body.call_at(b))
                    if cal is not None:
                        callees.add(cal.key)
    CG = lib.callgraph(F)
    reach = CG.reachable(sorted(callees))
    n = c14.audit_panics(ctx, F, reach, 'a call made while the RNG lock is held')
    ctx.floor(len(callees), 8, 'functions called under the lock')
    ctx.note('%d functions run under the lock, %d reachable, %d panic sites audited' % (len(callees), len(reach), n))


@rule('C19', 'no-spin-under-lock')
def no_spin_under_lock(ctx):
    """'No call blocks forever': decapsulation iterates usk.secrets.revisions() while the guard of the shared RNG is live; the
    iterator must run dry (None once every chain is exhausted, including when there is no chain at all), otherwise one call
    with a right-less key spins with the lock held and every other thread blocks for good (C14.iter-progress)."""
    from . import c14
    c14.check_revision_iterator(ctx)
