"""C03 — access decisions stay correct across access-structure edits (per-operation invariants)."""
import re

from ..engine import prop, rule
from ..facts import (op_local, op_place, is_place, backward_slice, copy_chain_sources, IDENTITY_CALLS, proj_names,
                     field_path)
from .. import lib
from .c02 import root_descr, field_writers

prop('C03',
     explanation=(
         'fresh-id (E-PROV + who-may-write): the identifier given to a new attribute must be injective over the history: '
         'the id operand of Dimension::add_attribute in AccessStructure::add_attribute must derive only from monotone '
         'cells (integer fields of the structure whose every write is an increment or a deserialisation) and must not '
         'depend on any quantity a deletion can decrease (container cardinalities len / nb_attributes / count / sum, or a '
         'maximum over live identifiers); Attribute.id is written only by Attribute::new and read. rename-keeps-id: the '
         'value stored under the new name is the value removed from the old name (anarchy) and Dict::update_key swaps only '
         'the key half of the entry (hierarchy). disable-only-status: disable_attribute writes write_status only and nothing '
         'writes encryption_hint after construction. update-reconciles: update_msk retains by membership in the given right '
         'universe and the API wrappers pass access_structure.omega().'),
     not_decided='agreement of decapsulation outcomes with a name-level model over edit histories (needs execution); '
                 'order preservation of Dict::remove / insertion after (list surgery)',
     assumptions=[])

CARDINALITY = (r'::len$', r'nb_attributes$', r'^std::iter::Iterator::(count|sum|max|min|fold|last|max_by_key|product)$', r'::count$',
               r'::capacity$', r'::is_empty$')
ATTR = 'abe_policy::dimension::Attribute'


@rule('C03', 'fresh-id')
def fresh_id(ctx):
    F = ctx.F
    body = F.fn('abe_policy::access_structure::AccessStructure::add_attribute')
    cs = body.calls(r'dimension::Dimension::add_attribute$')
    ctx.floor(len(cs), 1, 'Dimension::add_attribute call in AccessStructure::add_attribute')
    for c in cs:
        # the id parameter of the callee by name
        cal = lib.local_callee(F, c)
        idx = None
        us = lib.params_by_type(cal, r'^usize$')
        if len(us) == 1:
            idx = us[0] - 1
        if idx is None:
            ctx.bad(body.key, 'id-argument', 'cannot find the `id` parameter of Dimension::add_attribute', c.where())
            continue
        op = c.args[idx]
        calls = lib.deep_calls(F, body, [op])
        card = [x for x in calls if x.is_(*CARDINALITY)]
        if 'c' in op or (not calls and not backward_slice(body, [op]).params):
            ctx.bad(body.key, 'id<-constant', 'the identifier of a new attribute (line %d) is a constant' % c.ln, c.where())
        elif card:
            ctx.bad(body.key, 'id<-container-cardinality(%s)' % ','.join(sorted(set(x.name for x in card))),
                    'the identifier of a new attribute (line %d) is computed from %s (line %d), a quantity that decreases when an '
                    'attribute is deleted: a later attribute receives the identifier of a live or deleted one and inherits its '
                    'access' % (c.ln, card[0].name, card[0].ln), c.where(),
                    path={'id_operand_sources': [(x.full[:80], x.ln) for x in card]})
        else:
            # must come from a monotone cell of self
            sl = backward_slice(body, [op], follow_mutarg=False)
            fields = set()
            for pl in sl.places:
                if pl['l'] == 1:
                    fp = [x for x in field_path(pl)]
                    if fp:
                        fields.add(fp[0])
            mono = bool(fields) and all(monotone_field(F, 'abe_policy::access_structure::AccessStructure', f) for f in fields)
            ctx.check(mono, body.key, 'id<-monotone-cell',
                      'the identifier of a new attribute (line %d) does not derive from a monotone allocation counter of the '
                      'structure (sources: fields %s)' % (c.ln, sorted(fields)), 'derives from %s' % sorted(fields), c.where())
    # Attribute.id writers
    allowed = {'abe_policy::dimension::Attribute::new', '<abe_policy::dimension::Attribute as std::clone::Clone>::clone',
               'abe_policy::dimension::serialization::<impl cosmian_crypto_core::bytes_ser_de::Serializable for abe_policy::dimension::Attribute>::read'}
    n = 0
    for (b, ln, kind, op) in field_writers(F, ATTR, 'id'):
        root = b.root or b.key
        n += 1
        ctx.check(root in allowed or ('serde' in b.key), root, 'writes Attribute.id',
                  '%s writes the identifier of an attribute (%s, line %d): identifiers are assigned once, by Attribute::new' % (b.key, kind, ln),
                  'constructor / deserialisation', b.where(ln))
    ctx.floor(n, 2, 'writers of Attribute.id')
    nb = F.fn('abe_policy::dimension::Attribute::new')
    for bb in sorted(nb.live_blocks()):
        for st in nb.stmts(bb):
            rv = st['rv']
            if rv['k'] == 'agg' and rv.get('adt') == ATTR:
                op = rv['ops'][rv['fields'].index('id')]
                roots = copy_chain_sources(nb, op)
                ctx.check(all(r[0] == 'param' and nb.local_ty(r[1]) == 'usize' for r in roots) and bool(roots), nb.key, 'Attribute.id <- id argument',
                          'Attribute::new does not store the identifier it is given', 'id <- id', nb.where(st['ln']))


def monotone_field(F, adt, field):
    """Every write of adt.field in the crate is an increment of itself or a deserialisation / construction."""
    ws = field_writers(F, adt, field)
    if not ws:
        return False
    for (b, ln, kind, op) in ws:
        if kind == 'construct':
            continue
        if kind == 'assign' and op is not None:
            sl = backward_slice(b, [op], follow_mutarg=False)
            inc = any(d.kind == 'assign' and d.rv['k'] == 'bin' and d.rv['op'] in ('Add', 'AddWithOverflow') for d in sl.rvs)
            if inc:
                continue
        return False
    return True


@rule('C03', 'rename-keeps-id')
def rename_keeps_id(ctx):
    F = ctx.F
    rb = F.fn('abe_policy::dimension::Dimension::rename_attribute')
    ins = [c for c in rb.calls(r'HashMap::<[^>]*>::insert$')]
    rem = [c for c in rb.calls(r'HashMap::<[^>]*>::remove$')]
    ok = len(ins) == 1 and len(rem) == 1
    if ok:
        roots = copy_chain_sources(rb, ins[0].args[2], through_calls=(r'^std::ops::Try::branch$',) + tuple(IDENTITY_CALLS))
        ok = bool(roots) and all(r[0] == 'call' and r[1] is rem[0] and r[2][-2:] == ('@Some', '0') for r in roots)
        # key of remove = old name, key of insert = new name
        # rename_attribute(&mut self, old_name: &Name, new_name: Name): parameters 2 and 3
        ok = ok and any(r[0] == 'param' and r[1] == 2 for r in root_descr(rb, rem[0].args[1]))
        ok = ok and any(r[0] == 'param' and r[1] == 3 for r in root_descr(rb, ins[0].args[1]))
    ctx.check(ok, rb.key, 'anarchy: insert(new, remove(old))', 'renaming in an unordered dimension does not store, under the new name, '
              'exactly the attribute removed from the old name (its identifier — hence its access — may change)',
              'inserted value = removed value', rb.where())
    ctx.check(not rb.calls(r'Attribute::new$'), rb.key, 'no re-allocation', 'rename_attribute builds a new Attribute', 'none', rb.where())
    uk = rb.calls(r'Dict::<K, V>::update_key$')
    ctx.check(len(uk) == 1, rb.key, 'hierarchy: Dict::update_key', 'renaming in a hierarchy no longer goes through Dict::update_key', '', rb.where())
    ub = F.fn('data_struct::dictionary::Dict::<K, V>::update_key')
    # writes to `entries` only through the key half (.0)
    bad = []
    n = 0
    for c in ub.calls():
        if c.is_(r'^std::ops::IndexMut::index_mut$', r'::(len|get|get_mut|iter)$'):
            continue
        for a in c.args:
            l = op_local(a)
            if l is None:
                continue
            for (pl, m) in ub.refs().get(l, []):
                names = proj_names(pl)
                if m and 'entries' in names:
                    n += 1
                    if names[-1] != '0':
                        bad.append((c, names))
    for (b, ln, kind, op) in field_writers(F, 'data_struct::dictionary::Dict', 'entries'):
        if (b.root or b.key) == ub.key and kind.startswith('mutref'):
            pass
    idx = ub.calls(r'^std::ops::IndexMut::index_mut$')
    for c in idx:
        # the element reference obtained by index_mut is only projected to .0
        dl = c.dest['l']
        for bb in sorted(ub.live_blocks()):
            for st in ub.stmts(bb):
                rv = st['rv']
                if rv['k'] == 'ref' and rv['mut'] and rv['pl']['l'] == dl:
                    n += 1
                    if proj_names(rv['pl'])[-1:] != ('0',):
                        bad.append((c, proj_names(rv['pl'])))
                if st['lhs']['l'] == dl and '*' in proj_names(st['lhs']):
                    n += 1
                    if proj_names(st['lhs'])[-1:] != ('0',):
                        bad.append((c, proj_names(st['lhs'])))
    ctx.check(n >= 1 and not bad, ub.key, 'update_key touches only the key half',
              'Dict::update_key writes the value half of an entry (%s): renaming must keep the attribute (and its identifier) untouched'
              % (bad[:1],), 'only entries[i].0 is written', ub.where())


@rule('C03', 'disable-only-status')
def disable_only_status(ctx):
    F = ctx.F
    db = 'abe_policy::dimension::Dimension::disable_attribute'
    n = 0
    for fb in F.family(db):
        for b in sorted(fb.live_blocks()):
            for st in fb.stmts(b):
                lhs = st['lhs']
                if '*' in proj_names(lhs) and ATTR in (fb.local_ty(lhs['l']) or ''):
                    n += 1
                    fld = [x for x in field_path(lhs)]
                    ctx.check(fld[-1:] == ['write_status'] or tuple(fld[-1:]) == ('write_status',), db, 'writes only write_status',
                              'disable_attribute writes field %s of the attribute (line %d)' % (fld, st['ln']), 'write_status', fb.where(st['ln']))
        for c in fb.calls(r'HashMap::<[^>]*>::(insert|remove)$', r'Dict::<K, V>::(insert|remove|update_key)$'):
            ctx.bad(db, 'structural edit', 'disable_attribute also edits the dimension through %s (line %d)' % (c.name, c.ln), c.where())
    ctx.floor(n, 1, 'status writes in disable_attribute')
    disable_total(ctx)
    allowed = {'abe_policy::dimension::Attribute::new', '<abe_policy::dimension::Attribute as std::clone::Clone>::clone',
               'abe_policy::dimension::serialization::<impl cosmian_crypto_core::bytes_ser_de::Serializable for abe_policy::dimension::Attribute>::read'}
    for (b, ln, kind, op) in field_writers(F, ATTR, 'encryption_hint'):
        root = b.root or b.key
        ctx.check(root in allowed or 'serde' in b.key, root, 'writes Attribute.encryption_hint',
                  '%s changes the encryption hint of an existing attribute (line %d)' % (b.key, ln), 'constructor / deserialisation', b.where(ln))


def disable_total(ctx):
    """Both dimension kinds: no path of Dimension::disable_attribute reaches the exit without either writing the status
    (directly or in a closure handed to a combinator on that path) or building the error for an unknown attribute."""
    F = ctx.F
    db = 'abe_policy::dimension::Dimension::disable_attribute'
    rb = F.fn(db)

    def writes_status(fb):
        for b in fb.live_blocks():
            for st in fb.stmts(b):
                lhs = st['lhs']
                if '*' in proj_names(lhs) and ATTR in (fb.local_ty(lhs['l']) or '') and field_path(lhs)[-1:] == ('write_status',):
                    return True
        return False
    avoid = set()
    for b in sorted(rb.live_blocks()):
        for st in rb.stmts(b):
            lhs, rv = st['lhs'], st['rv']
            if '*' in proj_names(lhs) and ATTR in (rb.local_ty(lhs['l']) or '') and field_path(lhs)[-1:] == ('write_status',):
                avoid.add(b)
            if rv['k'] == 'agg' and rv.get('adt') == 'std::result::Result' and rv.get('variant') == 'Err':
                avoid.add(b)
        c = rb.call_at(b)
        if c is not None:
            if any(writes_status(cb) for (_i, cb, _rv) in lib.closure_args(F, c)):
                avoid.add(b)
            g = lib.local_callee(F, c)
            if g is not None and g.key != db and any(writes_status(x) for x in F.family(g.key)):
                avoid.add(b)
    esc = [r for r in rb.return_blocks() if r in rb.reach(0, avoid_blocks=avoid)] if 0 not in avoid else []
    ctx.check(not esc, db, 'every non-error path writes the status',
              'disable_attribute can return without changing the status of the attribute and without reporting an unknown attribute '
              '(one dimension kind left out?)', 'no path to the exit avoids both the status write and the Err construction', rb.where())


@rule('C03', 'update-reconciles', configs=('default', 'p256'))
def update_reconciles(ctx):
    F = ctx.F
    ub = F.fn('core::primitives::update_msk')
    rt = []
    for fb in F.family(ub.key):
        rt += fb.calls(r'RevisionMap::<K, V>::retain$')
    ins = []
    for fb in F.family(ub.key):
        ins += [c for c in fb.calls(r'RevisionMap::<K, V>::insert$')]
    ok = len(rt) == 1 and all(c.body is not rt[0].body or ub.block_dominates(rt[0].b, c.b) for c in ins)
    ctx.check(ok, ub.key, 'retain before insert', 'update_msk does not drop the secrets of rights outside the universe (retain) before '
              'adding the new ones', 'retain dominates insert', ub.where())
    update_visits_every_right(ctx)
    for (api, what) in (('api::Covercrypt::update_msk', 'update'), ('api::Covercrypt::setup', 'setup')):
        body = F.fn(api)
        for c in body.calls(r'primitives::update_msk$'):
            roots = copy_chain_sources(body, c.args[2], through_calls=(r'^std::ops::Try::branch$',) + IDENTITY_CALLS)
            ok = bool(roots) and all(r[0] == 'call' and r[1].is_(r'AccessStructure::omega$') for r in roots)
            if ok:
                om = roots[0][1]
                rs = [r for r in root_descr(body, om.args[0])]
                ok = any((r[0] == 'param' and r[2][-1:] == ('access_structure',)) or r[0] == 'call' for r in rs)
                if api.endswith('update_msk'):
                    mp = lib.param_by_type(body, r'core::MasterSecretKey$')
                    ok = any(r[0] == 'param' and r[1] == mp and r[2][-1:] == ('access_structure',) for r in rs)
            ctx.check(ok, api, 'universe <- access_structure.omega()', '%s does not hand update_msk the universe of rights of the key\'s own '
                      'access structure' % api, 'rights <- msk.access_structure.omega()?', c.where())


TRUNCATING = r'^std::iter::Iterator::(take|skip|step_by|take_while|skip_while|map_while|nth|last|find|find_map|position|min|max|min_by_key|max_by_key)$'


def update_visits_every_right(ctx):
    """update_msk gives a secret to EVERY right of the universe the master key does not hold yet: the walk over the universe that
    leads to `RightSecretKey::random` is not cut short (take(n), skip, take_while, ...) — selecting the rights that are missing
    (`filter(!contains_key)`) is the only selection. A right left without secret makes key generation, rekey and encapsulation for
    a freshly added attribute fail although update_msk returned Ok."""
    from ..trans import chain_source
    F = ctx.F
    ub = F.fn('core::primitives::update_msk')
    n = 0
    for fb in lib.family_ext(F, ub.key):
        n += len(fb.calls(r'RightSecretKey::random$'))
        for c in fb.calls(TRUNCATING):
            if not c.args:
                continue
            src = chain_source(F, fb, c.args[0])
            if src is None:
                continue
            roots = [('param', src[0], ())] if fb.is_param(src[0]) else \
                lib.copy_chain_sources(fb, {'cp': {'l': src[0], 'p': []}}, through_calls=tuple(IDENTITY_CALLS))
            if any(r[0] == 'param' and fb is ub and 'HashMap<abe_policy::rights::Right' in fb.local_ty(r[1]) for r in roots):
                ctx.bad(ub.key, 'universe walked entirely', 'update_msk cuts the walk over the universe of rights short (%s, line %d): some new '
                        'rights receive no secret, yet the update succeeds' % (c.name.split('::')[-1], c.ln), fb.where(c.ln))
    ctx.check(n >= 1, ub.key, 'creates secrets', 'update_msk no longer creates secrets (RightSecretKey::random)', '', ub.where())


@rule('C03', 'dict-remove-shifts')
def dict_remove_shifts(ctx):
    """Order-preserving removal: Dict::remove takes the index of the key out of the map, decrements by one
    every remaining index greater than it (over the WHOLE index map), and removes that position from the
    entry vector."""
    F = ctx.F
    rb = F.fn('data_struct::dictionary::Dict::<K, V>::remove')
    fam = F.family(rb.key)
    rm = rb.calls(r'HashMap::<[^>]*>::remove$')
    er = rb.calls(r'Vec::<[^>]*>::remove$')
    ctx.check(len(rm) == 1 and len(er) == 1, rb.key, 'indices.remove + entries.remove',
              'Dict::remove no longer removes the key from the index map and its entry from the vector', '', rb.where())
    if len(rm) != 1 or len(er) != 1:
        return
    # same index
    idx_l, _d = lib.resolve_copy(rb, op_local(er[0].args[1]))
    sl = backward_slice(rb, [er[0].args[1]], follow_mutarg=False)
    ctx.check(any(x is rm[0] for x in sl.calls), rb.key, 'entries.remove(index of the key)',
              'the entry removed from the vector is not at the index the key mapped to', 'same index', er[0].where())
    # the shift visits every remaining index
    its = rb.calls(r'HashMap::<[^>]*>::(iter_mut|values_mut)$')
    trunc = []
    for fb in fam:
        trunc += fb.calls(r'^std::iter::Iterator::(skip|take|step_by|nth|skip_while|take_while|rev|last)$')
    ctx.check(len(its) == 1 and not trunc, rb.key, 'shift visits the whole index map',
              'the index shift does not walk the whole index map (%s): entries after the removed one keep stale positions and names '
              'resolve to the wrong attribute' % ([c.name for c in trunc] or 'no iter_mut over indices'), 'indices.iter_mut(), untruncated', rb.where())
    # predicate: index > removed index ; action: index -= 1
    gt = sub = False
    for fb in fam:
        for b in sorted(fb.live_blocks()):
            for st in fb.stmts(b):
                rv = st['rv']
                if rv['k'] == 'bin' and rv['op'] == 'Gt':
                    gt = True
                if rv['k'] == 'bin' and rv['op'] in ('SubWithOverflow', 'Sub') and rv['b'].get('c', {}).get('v') == 1:
                    sub = True
    ctx.check(gt and sub, rb.key, 'index > removed => index -= 1', 'the shift is not `if index > removed { index -= 1 }` (Gt=%s, -1=%s)' % (gt, sub),
              'Gt comparison and decrement by one', rb.where())


@rule('C03', 'keygen-total', configs=('default', 'p256'))
def keygen_total(ctx):
    """Edits (disable in particular) never change who can open encapsulations for unrelated attributes: key generation
    hands out one secret per requested right (a plain map over the rights, no filtering), and neither it nor refresh /
    prune looks at the activation flag."""
    from .c06 import check_flag_readers
    F = ctx.F
    gb = F.fn('core::MasterSecretKey::get_latest_right_sk')
    bad = []
    for fb in lib.reach_bodies(F, gb.key):
        bad += fb.calls(r'^std::iter::Iterator::(filter|filter_map|flat_map|skip|take|take_while|skip_while|step_by|flatten)$')
    mp = gb.calls(r'^std::iter::Iterator::map$')
    ctx.check(len(mp) == 1 and not bad, gb.key, 'one secret per requested right',
              'get_latest_right_sk does not map every requested right to exactly one result (%s): rights can be silently dropped from '
              'a generated key' % ([c.name for c in bad] or 'no single map'), 'rs.map(..) only', gb.where())
    check_flag_readers(ctx, F)


@rule('C03', 'restrict-prefix')
def restrict_prefix(ctx):
    """'hierarchy order is preserved' for the keys generated after an edit: the lower ranks of a hierarchy are selected by
    position in the ordered dictionary, not by identifier (identifiers reflect creation time, not rank, as soon as an attribute
    is inserted below the top) (C02.restrict-prefix)."""
    from .c02 import check_restrict_prefix
    check_restrict_prefix(ctx, ctx.F)


@rule('C03', 'edits-atomic')
def edits_atomic(ctx):
    """A refused edit of the access structure (duplicate dimension / attribute, unknown name) changes nothing: no write to the
    structure can be followed by an error exit (C10.atomic restricted to the access-structure code)."""
    from . import c10
    c10.atomic(ctx, only=r'^abe_policy::')


@rule('C03', 'edit-failures', configs=('default',))
def edit_failures(ctx):
    """An edit that cannot be carried out as asked is refused, not approximated: adding after an unknown attribute, a duplicate
    name, an unknown dimension are errors decided by a lookup in the structure itself (C09.contract-table restricted to the
    access-structure code, C09.failure-decided-by-own-lookup) — an attribute silently ranked at the bottom of a hierarchy is
    opened by every key of that dimension."""
    from . import c09
    c09.contract_table(ctx, only=r'^abe_policy::')
    c09.failure_decided_by_own_lookup(ctx)


@rule('C03', 'combine-visits-every-dimension')
def combine_visits_every_dimension(ctx):
    """Adding a dimension (still empty) changes nothing for the rights of the others (C01.combine-visits-every-dimension)."""
    from . import c01
    c01.combine_visits_every_dimension(ctx)


ORDER_KEEPING = (r'^std::iter::Iterator::(map|filter|filter_map|take_while|skip_while|map_while|skip|take|inspect|cloned|copied|by_ref|peekable|'
                 r'enumerate|fuse)$', r'^std::iter::IntoIterator::into_iter$', r'::(iter|iter_mut|into_iter|drain)$',
                 r'^std::iter::Iterator::collect$', r'^std::clone::Clone::clone$', r'^std::iter::FromIterator::from_iter$',
                 r'^std::borrow::ToOwned::to_owned$', r'::split_off$', r'^std::convert::(Into::into|From::from)$')


def seq_pieces(F, body, op, rev=False, depth=0):
    """The sequence held by an iterator / Vec / Dict value, as the ordered list of the pieces it is made of:
    ('root', local, path, reversed?) for a stretch of a collection that was not built here (a parameter, a field of self),
    ('single', operand) for `once(x)`, ('unknown', call name).  `reversed` is the parity of the rev() adaptors between that
    collection and the value; `a.chain(b)` concatenates (in the other order under an odd number of rev())."""
    from ..trans import base_of
    if depth > 14 or not is_place(op):
        return [('unknown', 'depth')]
    l, path, _s, _d = base_of(body, op)
    if l is None:
        return [('unknown', 'no base')]
    ds = [d for d in body.defs().get(l, []) if d.kind == 'call']
    if body.is_param(l) or not ds or path:
        return [('root', l, tuple(path), rev)]
    c = ds[0].call
    if not c.args:
        return [('unknown', c.name)]
    if c.is_(r'^std::iter::Iterator::rev$'):
        return seq_pieces(F, body, c.args[0], not rev, depth + 1)
    if c.is_(r'^std::iter::Iterator::chain$') and len(c.args) > 1:
        a = seq_pieces(F, body, c.args[0], rev, depth + 1)
        b = seq_pieces(F, body, c.args[1], rev, depth + 1)
        return (b + a) if rev else (a + b)
    if c.is_(r'^std::iter::once$', r'^std::iter::once_with$'):
        return [('single', c.args[0])]
    if c.is_(*ORDER_KEEPING):
        cal = lib.local_callee(F, c)
        if cal is not None and not c.is_(r'^std::'):
            # crate-local iter() / into_iter(): the receiver is the collection, enumerated in its own order
            return seq_pieces(F, body, c.args[0], rev, depth + 1)
        return seq_pieces(F, body, c.args[0], rev, depth + 1)
    return [('root', l, tuple(path), rev)]


@rule('C03', 'add-keeps-rank-order')
def add_keeps_rank_order(ctx):
    """'A lower attribute never opens a higher one' across `add_attribute(.., after)`: the hierarchy is rebuilt as (attributes up
    to `after`) + the new attribute + (the attributes above), and every one of these pieces must enumerate the old hierarchy in
    its own order: on the way from the old dictionary to the new one, each piece goes through an even number of `rev()`s (the
    upper piece is collected reversed and re-reversed when it is appended) — whether the pieces are inserted one after the other
    or chained into one `collect()`. The new attribute goes in after a piece of the old hierarchy and before another."""
    F = ctx.F
    key = 'abe_policy::dimension::Dimension::add_attribute'
    body = F.fn(key)
    DICT = r'data_struct::dictionary::Dict'
    feeds = []          # (body, block, what, pieces, line)
    for fb in lib.family_ext(F, key):
        for c in fb.calls(r'^std::iter::Iterator::collect$', r'^std::iter::FromIterator::from_iter$'):
            if re.search(DICT, c.full) and c.args:
                feeds.append((fb, c.b, 'collected into the new dictionary', seq_pieces(F, fb, c.args[0]), c.ln))
        for c in fb.calls(r'dictionary::Dict::<K, V>::insert$'):
            if fb.kind == 'Closure':
                for (pb, cc, _i) in lib.closure_consumers(F, fb):
                    if cc.is_(r'^std::iter::Iterator::') and cc.args and pb.key.startswith(key):
                        feeds.append((pb, cc.b, 'inserted one by one (%s)' % cc.name.split('::')[-1], seq_pieces(F, pb, cc.args[0]), c.ln))
            else:
                for s in copy_chain_sources(fb, c.args[1], through_calls=(r'^std::ops::Try::branch$',) + tuple(IDENTITY_CALLS)):
                    if s[0] == 'call' and s[1].is_(r'^std::iter::Iterator::next$') and s[1].args:
                        feeds.append((fb, c.b, 'inserted one by one (loop)', seq_pieces(F, fb, s[1].args[0]), c.ln))

    def from_self(fb, rl):
        if fb.is_param(rl):
            return fb is body and rl == 1
        return any(s[0] == 'param' and s[1] == 1 and fb is body for s in
                   lib.copy_chain_sources(fb, {'cp': {'l': rl, 'p': []}}, through_calls=(r'^std::clone::Clone::clone$',) + tuple(IDENTITY_CALLS)))

    def is_new(fb, o):
        sl = backward_slice(fb, [o], follow_mutarg=False)
        return fb is body and 2 in sl.params

    n = 0
    main_feeds = []
    placed = False
    for (fb, b, what, pcs, ln) in feeds:
        olds = []
        kinds = []
        for pc in pcs:
            if pc[0] == 'root' and from_self(fb, pc[1]):
                kinds.append('old')
                olds.append(pc)
            elif pc[0] == 'single' and is_new(fb, pc[1]):
                kinds.append('new')
            else:
                kinds.append('?')
        if not olds:
            continue
        if fb is body:
            main_feeds.append(b)
        for pc in olds:
            n += 1
            ctx.check(not pc[3], key, 'old attributes %s in their own order' % what,
                      'Dimension::add_attribute puts a piece of the old hierarchy into the new one in REVERSE order (line %d: an odd '
                      'number of rev() between the old dictionary and the new one): the ranks of those attributes are swapped, and a key '
                      'for a middle rank no longer receives the lower ones' % ln, 'even number of rev()', fb.where(ln))
        if 'new' in kinds:
            i = kinds.index('new')
            placed = placed or ('old' in kinds[:i] and 'old' in kinds[i + 1:])
    ctx.floor(n, 2, 'pieces of the old hierarchy carried into the new one by Dimension::add_attribute')
    # the new attribute goes in between
    news = []
    for c in body.calls(r'dictionary::Dict::<K, V>::insert$'):
        if len(c.args) > 1 and any(s[0] == 'param' and s[1] == 2 for s in
                                   lib.copy_chain_sources(body, c.args[1], through_calls=tuple(IDENTITY_CALLS))):
            news.append(c)
    for c in news:
        before = [b for b in main_feeds if body.block_dominates(b, c.b)]
        after = [b for b in main_feeds if body.block_dominates(c.b, b)]
        placed = placed or (bool(before) and bool(after))
    ctx.check(placed, key, 'new attribute inserted between the lower and the upper piece',
              'the new attribute is not put between the attributes up to `after` and the ones above: it does not get the rank that was '
              'asked for', 'lower piece, new, upper piece', body.where())


@rule('C03', 'hierarchy-order-on-the-wire')
def hierarchy_order_on_the_wire(ctx):
    """'across access-structure edits', reloads included: a hierarchy is written and read in rank order (C13.order / agree
    restricted to Dimension and AccessStructure)."""
    from . import c13
    c13.restricted(ctx, r'(dimension::Dimension|AccessStructure)$', [c13.agree, c13.order])


@rule('C03', 'deleted-rights-leave-refreshed-keys', configs=('default', 'p256'))
def deleted_rights_leave_refreshed_keys(ctx):
    """'deleting an attribute or a dimension revokes it': after the update, a refreshed user key is rebuilt from the master key —
    every successful refresh replaces the key's secrets (C05.refresh-always-rebuilds) and without keep-old each right it keeps is
    paired with what get_latest returns for it, a right the master key no longer holds being dropped (C05.no-keep-old-latest-only)."""
    from . import c05
    c05.refresh_always_rebuilds(ctx)
    c05.no_keep_old_latest_only(ctx)
