"""One module per property; importing registers the rules."""
import importlib
import pkgutil

for m in pkgutil.iter_modules(__path__):
    importlib.import_module(__name__ + '.' + m.name)
