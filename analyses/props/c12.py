"""C12 — PKE and encrypted-header layers round-trip and authenticate (sibling agreement + guarded slicing)."""
import re

from ..engine import prop, rule
from ..facts import op_local, op_place, is_place, backward_slice, copy_chain_sources, IDENTITY_CALLS
from .. import lib, trans
from . import c14, c07

prop('C12',
     explanation=(
         'Sibling agreement between the two directions and panic-freedom of the framing. labels: the key-derivation '
         'label constants agree between PkeAc::encrypt and decrypt, between EncryptedHeader::generate and decrypt for '
         'the metadata key and for the returned secret, and the two header labels differ. framing: AE::encrypt and '
         'the header return nonce || body (concat order by provenance) with a Nonce of the length at which decrypt '
         'splits. guarded-slice (E-PANIC): every slice of the untrusted ciphertext in AE::decrypt and '
         'EncryptedHeader::decrypt is dominated by a length check, and no unwrap/expect/index is applied to the '
         'Option returned by decapsulation (an unauthorized key flows to Ok(None) through map/transpose only). '
         'ad: the caller\'s authentication_data is the associated data on both sides (same rule as C07.aead).'),
     not_decided='round-trip equality for all lengths, absent == empty authentication data, rejection of every '
                 'truncation (AES-GCM / Dem behaviour in cosmian_crypto_core)',
     assumptions=['AES-256-GCM authenticity and correctness', 'SymmetricKey::derive and kdf256 are deterministic'])

DERIVE = r'SymmetricKey::<[^>]*>::derive'


def layer_bodies(F, key):
    """The function, its closures and the private helpers extracted from it — but not the KEM below it."""
    stop = [b.key for b in F.fns() if 'core::primitives' in b.key or b.name in ('encaps', 'decaps') and 'api::Covercrypt' in b.key]
    return lib.reach_bodies(F, key, stop=stop)


def derive_labels(F, key):
    out = []
    for fb in layer_bodies(F, key):
        for c in fb.calls(DERIVE):
            out.append((c, lib.const_label(F, fb, c.args[1])))
    return out


def kdf_labels(F, key):
    """Labels absorbed by Shake-based kdf256! expansions: the constant update inputs."""
    out = []
    for fb in layer_bodies(F, key):
        for h in trans.transcripts(F, fb, depth=2):
            if 'Shake' not in h.algo:
                continue
            labs = [lib.const_label(F, u.body, u.call.args[1]) for u in h.events]
            out.append((h, [x for x in labs if x is not None], [u for u in h.events]))
    return out


@rule('C12', 'labels')
def labels(ctx):
    F = ctx.F
    enc = [b for b in F.fns() if b.name == 'encrypt' and b.impl_trait and 'traits::PkeAc' in b.impl_trait]
    dec = [b for b in F.fns() if b.name == 'decrypt' and b.impl_trait and 'traits::PkeAc' in b.impl_trait]
    ctx.floor(len(enc) + len(dec), 2, 'PkeAc encrypt / decrypt')
    if enc and dec:
        le = [l for (_c, l) in derive_labels(F, enc[0].key)]
        ld = [l for (_c, l) in derive_labels(F, dec[0].key)]
        ctx.check(len(le) == 1 and le == ld and le[0] is not None, enc[0].key, 'AE key label agrees',
                  'PkeAc::encrypt derives the AE key with label %s but decrypt uses %s' % (le, ld), 'label %s' % (le[:1],), enc[0].where())
    g, d = 'encrypted_header::EncryptedHeader::generate', 'encrypted_header::EncryptedHeader::decrypt'
    lg = [l for (_c, l) in derive_labels(F, g)]
    ld = [l for (_c, l) in derive_labels(F, d)]
    ctx.check(len(lg) == 1 and lg == ld and lg[0] is not None, g, 'metadata key label agrees',
              'generate derives the metadata key with label %s but decrypt uses %s' % (lg, ld), 'label %s' % (lg[:1],), F.fn(g).where())
    kg = [labs for (_h, labs, _e) in kdf_labels(F, g)]
    kd = [labs for (_h, labs, _e) in kdf_labels(F, d)]
    ctx.check(len(kg) == 1 and kg == kd and kg[0], g, 'returned-secret label agrees',
              'generate derives the returned secret with label(s) %s but decrypt uses %s' % (kg, kd), 'label %s' % (kg[:1],), F.fn(g).where())
    if lg and kg and kg[0]:
        ctx.check(lg[0] not in kg[0], g, 'metadata label != secret label',
                  'the metadata key and the secret handed to the caller are derived with the same label %s: the caller\'s '
                  'secret decrypts the metadata' % (lg[0],), '%s vs %s' % (lg[0], kg[0]), F.fn(g).where())
    # both kdf inputs are (seed, label) in this order, seed = the decapsulated / encapsulated secret
    for key in (g, d):
        for (h, labs, evs) in kdf_labels(F, key):
            ctx.check(len(evs) == 2 and lib.const_label(F, evs[0].body, evs[0].call.args[1]) is None
                      and 'Secret' in evs[0].dtype, key, 'kdf(seed, label)',
                      'the returned secret is not derived as kdf(seed, label) in %s: inputs %s' % (key, evs), str(evs), F.fn(key).where())


def frame_parts(fb):
    """Operands concatenated, in order, into the byte string a function builds: `[a, b, ..].concat()`, or a Vec filled by a
    dominance-ordered sequence of extend_from_slice / extend calls.  None when neither form (or more than one) is present."""
    cc = fb.calls(r'::concat$')
    ext = fb.calls(r'^std::vec::Vec::<u8>::extend_from_slice$', r'^std::iter::Extend::extend$')
    ext = [c for c in ext if 'Vec<u8>' in fb.local_ty(op_local(c.args[0]) or 0)]
    if len(cc) == 1 and not ext:
        sl = backward_slice(fb, [cc[0].args[0]], follow_mutarg=False)
        arr = [rv for rv in sl.aggs if 'array' in rv]
        if len(arr) != 1:
            return None
        return list(arr[0]['ops'])
    if ext and not cc:
        vecs = set()
        for c in ext:
            ts = fb.refs().get(op_local(c.args[0]), []) if is_place(c.args[0]) else []
            vecs.add(ts[0][0]['l'] if len(ts) == 1 and not ts[0][0]['p'] else None)
        if len(vecs) != 1 or None in vecs:
            return None
        # total order by dominance: each call's block dominates the next one's
        order = sorted(ext, key=lambda c: len([d for d in ext if d is not c and fb.block_dominates(d.b, c.b)]))
        for x, y in zip(order, order[1:]):
            if not fb.block_dominates(x.b, y.b) or x.b == y.b:
                return None
        return [c.args[1] for c in order]
    return None


@rule('C12', 'framing')
def framing(ctx):
    F = ctx.F
    sites = []
    aes = [b for b in F.fns() if b.name == 'encrypt' and b.impl_trait and b.impl_trait.endswith('traits::AE')]
    for b in aes:
        sites.append(b)
    sites += [fb for fb in F.family('encrypted_header::EncryptedHeader::generate') if fb.calls(c07.DEM_ENC)]
    ctx.floor(len(sites), 2, 'encrypting sites (AE::encrypt, header generate)')
    for fb in sites:
        root = fb.root or fb.key
        enc = fb.calls(c07.DEM_ENC)
        parts = frame_parts(fb)
        ok = parts is not None and len(enc) == 1
        order = None
        nlen = None
        if ok:
            ok = len(parts) == 2
            if ok:
                a0 = backward_slice(fb, [parts[0]], follow_mutarg=False)
                a1 = backward_slice(fb, [parts[1]], follow_mutarg=False)
                first_nonce = bool(a0.has_call(r'::as_bytes$')) and bool(a0.has_call(r'RandomFixedSizeCBytes<\w+>>::new$|::new$'))
                second_ct = any(x is enc[0] for x in a1.calls)
                ok = first_nonce and second_ct and not any(x is enc[0] for x in a0.calls)
                order = (first_nonce, second_ct)
                # the nonce in the frame is the nonce given to Dem::encrypt
                nz = backward_slice(fb, [enc[0].args[1]], follow_mutarg=False)
                same = set(id(x) for x in nz.calls if x.is_(r'::new$')) & set(id(x) for x in a0.calls if x.is_(r'::new$'))
                ok = ok and bool(same)
                for x in a0.calls:
                    m = re.search(r'Nonce<(\d+)>', x.full)
                    if m:
                        nlen = int(m.group(1))
        ctx.check(ok, root, 'frame = nonce || body', 'the ciphertext is not framed as nonce || Dem::encrypt output with the nonce '
                  'that was used (%s)' % (order,), 'nonce (%s bytes) || body' % nlen, fb.where())
        # the split constant on the decrypting side equals the nonce length
        dkey = None
        if fb in aes:
            ds = [b for b in F.fns() if b.name == 'decrypt' and b.impl_trait and b.impl_trait.endswith('traits::AE')]
            dfam = ds
        else:
            dfam = [x for x in layer_bodies(F, 'encrypted_header::EncryptedHeader::decrypt') if x.calls(c07.DEM_DEC)]
        for db in dfam:
            for dcall in db.calls(c07.DEM_DEC):
                nsl = backward_slice(db, [dcall.args[1]], follow_mutarg=False)
                idx = [c for c in nsl.calls if c.is_(r'^std::ops::Index::index$')]
                if idx:
                    ra = lib.range_arg(db, idx[0].args[1])
                    n = ra[2][0][1] if ra and ra[2] and ra[2][0][0] == 'const' else None
                    ctx.check(n is not None and (nlen is None or n == nlen), root, 'split constant = nonce length',
                              'the decrypting side splits the ciphertext at %s bytes but the encrypting side writes a %s-byte nonce'
                              % (n, nlen), 'N = %s' % n, dcall.where())


@rule('C12', 'guarded-slice')
def guarded_slice(ctx):
    F = ctx.F
    roots = [b.key for b in F.fns() if b.name == 'decrypt' and b.impl_trait and
             (b.impl_trait.endswith('traits::AE') or 'traits::PkeAc' in b.impl_trait)]
    roots.append('encrypted_header::EncryptedHeader::decrypt')
    n = 0
    idx = 0
    for r in roots:
        if r not in F.bodies:
            ctx.bad(r, 'anchor-missing', '%s is gone' % r)
            continue
        for fb in layer_bodies(F, r):
            for ps in lib.panic_sites(fb):
                if ps.kind == 'ptrcheck' or (ps.kind == 'overflow' and ps.detail == 'Add'):
                    continue
                n += 1
                why = c14.discharge(ctx, F, ps)
                if ps.kind == 'index':
                    idx += 1
                elif ps.kind == 'slice-op' and ps.detail in ('split_at', 'split_at_mut'):
                    idx += 2
                what = 'panic-site(%s %s)' % (ps.kind, ps.detail)
                if why is None and ps.kind == 'unwrap' and ps.call is not None:
                    # Mutex::lock().expect is the only accepted unwrap (poisoning)
                    sl = backward_slice(fb, [ps.call.args[0]], follow_mutarg=False)
                    if sl.has_call(r'^std::sync::Mutex::<T>::lock$'):
                        why = 'exception: Mutex::lock().expect fails only after a panic in another thread'
                ctx.check(why is not None, fb.root or fb.key, what,
                          'decryption of untrusted bytes can panic: %s %s at line %d is not dominated by a length check%s' % (
                              ps.kind, ps.detail, ps.ln, ' (%s)' % ps.call.full[:70] if ps.call else ''), why or '', fb.where(ps.ln))
    ctx.floor(idx, 2, 'ciphertext slices on the decrypting paths')
    # the Option returned by decapsulation is only mapped / transposed
    for r in roots:
        if r not in F.bodies:
            continue
        for fb in layer_bodies(F, r):
            for c in fb.calls(r'traits::KemAc<[^>]*>::decaps$|::decaps$'):
                uses = []
                S = {c.dest['l']}
                for _ in range(6):
                    for b in sorted(fb.live_blocks()):
                        for st in fb.stmts(b):
                            rv = st['rv']
                            if rv['k'] == 'use' and is_place(rv['a']) and op_local(rv['a']) in S and not st['lhs']['p']:
                                S.add(st['lhs']['l'])
                        t = fb.term(b)
                        if t['k'] == 'call':
                            cc = fb.call_at(b)
                            if cc is not c and cc.args and is_place(cc.args[0]) and op_local(cc.args[0]) in S:
                                if cc.is_(r'^std::ops::Try::branch$'):
                                    S.add(cc.dest['l'])
                                elif cc not in uses:
                                    uses.append(cc)
                bad = [u for u in uses if u.is_(r'::(unwrap|expect|unwrap_unchecked|unwrap_or_default)$')]
                n += 1
                ctx.check(not bad and bool(uses), fb.root or fb.key, 'decaps result only mapped',
                          'the Option returned by decapsulation is consumed by %s (line %d): an unauthorized key must flow to '
                          'Ok(None), not to a panic or a default' % (bad[0].name if bad else '?', bad[0].ln if bad else 0),
                          'consumed by %s' % ', '.join(sorted(set(u.name for u in uses))), c.where())


@rule('C12', 'ad')
def ad(ctx):
    c07.aead(ctx)


@rule('C12', 'metadata-encrypted-when-present')
def metadata_encrypted_when_present(ctx):
    """generate encrypts the metadata whenever it is present (Some, empty included): the Option carrying the
    encrypting closure is the metadata parameter itself, not a filtered / replaced copy."""
    F = ctx.F
    gb = F.fn('encrypted_header::EncryptedHeader::generate')
    n = 0
    for c in gb.calls(r'^std::option::Option::<T>::(map|and_then|map_or|map_or_else)$'):
        cl = [cb for (_i, cb, _rv) in lib.closure_args(F, c) if any(x.calls(c07.DEM_ENC) for x in F.family(cb.key)) or cb.calls(c07.DEM_ENC)]
        if not cl:
            continue
        n += 1
        srcs = copy_chain_sources(gb, c.args[0])
        opts = lib.params_by_type(gb, r'^std::option::Option<&\[u8\]>$')
        ok = bool(srcs) and all(s[0] == 'param' and opts and s[1] == opts[0] and not s[2] for s in srcs)
        ctx.check(ok, gb.key, 'encrypt(metadata) for every Some',
                  'the metadata handed to the encrypting closure (line %d) is not the `metadata` parameter itself (%s): some present '
                  'metadata (e.g. empty) is neither encrypted nor bound to the authentication data' % (
                      c.ln, [(s[0], getattr(s[1], 'name', s[1])) for s in srcs][:2]), 'receiver is the parameter itself', c.where())
    # the same decision written as a `match` / `if let` on the parameter (or a combinator run in place on the expanded view)
    opts = lib.params_by_type(gb, r'^std::option::Option<&\[u8\]>$')
    for c in gb.calls(c07.DEM_ENC):
        n += 1
        ok = False
        for sb in sorted(gb.live_blocks()):
            t = gb.term(sb)
            if t['k'] != 'switch' or not is_place(t['d']):
                continue
            _, d = lib.resolve_copy(gb, op_local(t['d']))
            if d is None or d.kind != 'assign' or d.rv['k'] != 'discr' or d.rv['pl']['p']:
                continue
            srcs = copy_chain_sources(gb, {'cp': d.rv['pl']})
            if not (srcs and all(s[0] == 'param' and opts and s[1] == opts[0] and not s[2] for s in srcs)):
                continue
            for v, tgt in t['cases']:
                if v == 1 and gb.edge_dominates((sb, tgt), c.b):
                    ok = True
            if [1] != [v for v, _t in t['cases']] and t['else'] is not None and 0 in [v for v, _t in t['cases']] \
                    and gb.edge_dominates((sb, t['else']), c.b):
                ok = True
        ctx.check(ok, gb.key, 'encrypt(metadata) for every Some',
                  'the metadata encryption (line %d) is not decided by the `metadata` parameter being present: some present metadata '
                  '(e.g. empty) is neither encrypted nor bound to the authentication data' % c.ln,
                  'under the Some arm of a match on the parameter itself', c.where())
    ctx.floor(n, 1, 'Option combinator carrying the metadata encryption')


@rule('C12', 'errors-propagated')
def errors_propagated(ctx):
    """'... truncated or altered ciphertexts yield an error': on the decrypting paths no Result is converted into None / a default."""
    c07.errors_propagated(ctx)


@rule('C12', 'no-panic-on-decrypt')
def no_panic_on_decrypt(ctx):
    """'... truncated or altered ciphertexts yield an error, never a panic': every crate-local panic site reachable from the
    header / PKE decrypting entry points is discharged (same audit as C14.panic, over these entry points)."""
    from . import c14
    F = ctx.F
    roots = [b.key for b in F.fns() if b.name == 'decrypt' and b.impl_trait and ('traits::PkeAc' in b.impl_trait or b.impl_trait.endswith('traits::AE'))]
    roots.append('encrypted_header::EncryptedHeader::decrypt')
    roots = [r for r in roots if r in F.bodies]
    CG = lib.callgraph(F)
    reach = CG.reachable(roots)
    n = c14.audit_panics(ctx, F, reach, 'the decryption of a header / PKE ciphertext')
    ctx.floor(len(roots), 3, 'decrypting entry points')
    ctx.note('%d functions reachable from the decrypting entry points, %d panic sites audited' % (len(reach), n))


@rule('C12', 'header-read-errors-propagated')
def header_read_errors_propagated(ctx):
    """'truncated ... ciphertexts yield an error': the header reader does not turn a failed read into an absent field
    (`read_vec(de).ok()`): a header cut right after its encapsulation would otherwise decode as one without metadata."""
    from . import c09
    F = ctx.F
    bodies = []
    for k in F.bodies:
        if k.endswith('::read') and 'encrypted_header::' in k and F.bodies[k].kind != 'Closure':
            bodies += lib.family_ext(F, k)
    ctx.floor(len(bodies), 2, 'header readers')
    c09.no_swallow(ctx, only=bodies)


@rule('C12', 'every-secret-tried', configs=('default', 'p256'))
def every_secret_tried(ctx):
    """'an authorized key ... decrypts': the PKE / header layers open through decaps, which tries every secret of the key against
    every right encapsulation — hybridized secrets included when the encapsulation is classic (C01.every-secret-tried)."""
    from . import c01
    c01.every_secret_tried(ctx)


@rule('C12', 'every-revision-walked')
def every_revision_walked(ctx):
    """'an authorized key ... decrypts': decapsulation walks the revisions of the key with RevisionVec::revisions(), which must
    yield every secret of every chain even when chains have different lengths (C04.iter)."""
    from . import c04
    c04.iter_rule(ctx)


@rule('C12', 'instance-is-stateless')
def instance_is_stateless(ctx):
    """'an authorized key ... decrypts': every encryption encapsulates for the public key and policy it is given, never re-using what an earlier call produced for another key. Structurally: the scheme instance holds its random generator and nothing else — no cache, no memo, no static, no
    thread-local (C19.state-audit)."""
    from . import c19
    c19.state_audit(ctx)
