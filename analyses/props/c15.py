"""C15 — the policy parser is total (char-boundary safety of every str slice, no other panic site)."""
import re

from ..engine import prop, rule
from ..facts import op_local, op_place, is_place, backward_slice, copy_chain_sources, IDENTITY_CALLS, field_path, switch_on, bool_edges
from .. import lib
from . import c14

prop('C15',
     explanation=(
         'Totality only. char-boundary (E-PANIC specialised to str): in AccessPolicy::parse, its helpers and '
         'QualifiedAttribute::try_from every `str` range index has boundary-safe provenance — the constant 0, the byte '
         'length of a String collected from a prefix of the same str, an offset produced by char_indices, or such an '
         'offset plus len_utf8() of the char it was produced with. Integer literals other than 0 and indices counted '
         'in chars (chars().enumerate()) used as byte offsets are violations. panic: no other reachable panic site in '
         'the parser and the DNF conversion (unwrap/expect/index/unchecked arithmetic), with frozen exceptions.'),
     not_decided='logical faithfulness: precedence, equivalence of the parsed tree with the boolean reading, DNF '
                 'equivalence, name preservation (semantics of a recursive function over all strings); recursion depth',
     assumptions=['str::char_indices yields char-boundary byte offsets', 'String::len of a collected prefix is a boundary'])

ROOTS = ['abe_policy::access_policy::AccessPolicy::parse',
         '<abe_policy::attribute::QualifiedAttribute as std::convert::TryFrom<&str>>::try_from',
         'abe_policy::access_policy::AccessPolicy::to_dnf']

STR_INDEX = r'^std::ops::Index::index$'


def boundary_safe(F, body, op, indexed_roots, depth=0):
    """(ok, why) for one bound of a str range."""
    if depth > 6:
        return False, 'too deep'
    if 'c' in op:
        v = op['c'].get('v')
        return (v == 0), 'literal %s' % v
    l = op_local(op)
    cur, d = lib.resolve_copy(body, l)
    if d is None:
        return False, 'several definitions'
    if d.kind == 'assign':
        rv = d.rv
        if rv['k'] == 'use' and 'c' in rv['a']:
            v = rv['a']['c'].get('v')
            return (v == 0), 'literal %s' % v
        if rv['k'] == 'use' and is_place(rv['a']):
            pl = op_place(rv['a'])
            # element .0 of a char_indices item
            _, d2 = lib.resolve_copy(body, pl['l'])
            path = field_path(pl)
            if d2 is not None and d2.kind == 'call' and d2.call.is_(r'^std::iter::Iterator::next$'):
                st = d2.call.self_ty or ''
                if 'CharIndices' in st and path[-1:] == ('0',) and '@Some' in path:
                    return True, 'char_indices offset'
                if 'Enumerate' in st and 'Chars' in st:
                    return False, 'index counted in chars (chars().enumerate()) used as a byte offset'
            if d2 is not None and d2.kind == 'assign' and d2.rv['k'] == 'bin' and path[-1:] == ('0',):
                return boundary_safe_bin(F, body, d2.rv, indexed_roots, depth)
            return False, 'unrecognised offset'
        if rv['k'] == 'bin':
            return boundary_safe_bin(F, body, rv, indexed_roots, depth)
        return False, 'unrecognised offset (%s)' % rv['k']
    c = d.call
    if c.is_(r'::len_utf8$'):
        # `rest[c.len_utf8()..]` where rest is the tail of `s.split_at(offset)` and (offset, c) is one char_indices item
        nx1 = backward_slice(body, [c.args[0]], follow_mutarg=False).has_call(r'^std::iter::Iterator::next$')
        for sa in body.calls(r'^core::str::<impl str>::split_at$'):
            if ('call', sa.b) not in indexed_roots:
                continue
            ok, _w = boundary_safe(F, body, sa.args[1], lib.roots_of(body, sa.args[0]), depth + 1)
            nx2 = backward_slice(body, [sa.args[1]], follow_mutarg=False).has_call(r'^std::iter::Iterator::next$')
            if ok and nx1 and nx2 and any(a is b for a in nx1 for b in nx2):
                return True, 'len_utf8() of the char at which the indexed tail was split off'
        return False, 'len_utf8() used as an offset into an unrelated str'
    if c.is_(r'^std::string::String::len$', r'^core::str::<impl str>::len$'):
        # length of a String built from a prefix of the indexed str
        sl = backward_slice(body, [c.args[0]], follow_mutarg=False)
        chars = sl.has_call(r'^core::str::<impl str>::chars$')
        pref = sl.has_call(r'^std::iter::Iterator::(take_while|take|map_while)$')
        coll = sl.has_call(r'^std::iter::Iterator::collect$')
        if chars and coll and any(lib.roots_of(body, x.args[0]) & indexed_roots for x in chars) \
                and not sl.has_call(r'^std::iter::Iterator::(skip|skip_while|filter|rev|step_by|map|flat_map)$'):
            return True, 'byte length of a String collected from a prefix of the same str'
        if lib.roots_of(body, c.args[0]) & indexed_roots:
            return True, 'len() of the indexed str itself'
        return False, 'length of an unrelated string'
    if c.is_(r'^core::str::<impl str>::(find|rfind)$') or c.is_(r'^std::option::Option::<T>::unwrap'):
        return False, 'offset from %s' % c.name
    return False, 'offset computed by %s' % (c.name or '?')


def boundary_safe_bin(F, body, rv, indexed_roots, depth):
    if rv['op'] not in ('Add', 'AddWithOverflow'):
        return False, 'offset arithmetic %s' % rv['op']
    parts = []
    for o in (rv['a'], rv['b']):
        if 'c' in o:
            parts.append(('const', o['c'].get('v'), None))
            continue
        cur, d = lib.resolve_copy(body, op_local(o))
        if d is not None and d.kind == 'call' and d.call.is_(r'::len_utf8$'):
            parts.append(('len_utf8', d.call, None))
        else:
            ok, why = boundary_safe(F, body, o, indexed_roots, depth + 1)
            parts.append(('safe' if ok else 'unsafe', why, o))
    kinds = [p[0] for p in parts]
    if 'unsafe' in kinds:
        return False, [p[1] for p in parts if p[0] == 'unsafe'][0]
    if 'const' in kinds:
        v = [p[1] for p in parts if p[0] == 'const'][0]
        if v == 0:
            return True, 'offset + 0'
        return False, 'boundary offset plus the literal %s (a char may be longer than %s byte(s))' % (v, v)
    if kinds.count('len_utf8') == 1 and kinds.count('safe') == 1:
        # the char whose length is added is the one found at that offset
        lu = [p[1] for p in parts if p[0] == 'len_utf8'][0]
        off = [p[2] for p in parts if p[0] == 'safe'][0]
        r1 = backward_slice(body, [lu.args[0]], follow_mutarg=False).has_call(r'^std::iter::Iterator::next$')
        r2 = backward_slice(body, [off], follow_mutarg=False).has_call(r'^std::iter::Iterator::next$')
        if r1 and r2 and any(a is b for a in r1 for b in r2):
            return True, 'char_indices offset + len_utf8() of the char at that offset'
        return False, 'len_utf8() of a char that is not the one at the offset'
    if kinds == ['safe', 'safe']:
        return False, 'sum of two offsets'
    return False, 'offset arithmetic'


@rule('C15', 'char-boundary')
def char_boundary(ctx):
    F = ctx.F
    CG = lib.CallGraph(F)
    reach = CG.reachable([r for r in ROOTS if r in F.bodies])
    for r in ROOTS[:2]:
        if r not in F.bodies:
            ctx.bad(r, 'anchor-missing', 'parser entry point %s is gone' % r)
    n = 0
    for key in sorted(reach):
        body = F.bodies[key]
        for c in body.calls(STR_INDEX):
            if (c.self_ty or '') != 'str' and not re.match(r'^(std::string::String)$', c.self_ty or ''):
                continue
            n += 1
            ra = lib.range_arg(body, c.args[1])
            root = body.root or body.key
            if ra is None:
                ctx.bad(root, 'str-index(non-range)', 'a str is indexed (line %d) with something that is not a decodable range' % c.ln, c.where())
                continue
            kind, fields, vals, ops = ra
            iroots = lib.roots_of(body, c.args[0])
            bad = []
            goods = []
            for fname, o in zip(fields, ops):
                ok, why = boundary_safe(F, body, o, iroots)
                (goods if ok else bad).append('%s: %s' % (fname, why))
            ctx.check(not bad, root, 'str[%s] bounds on char boundaries' % kind,
                      'the str slice at line %d uses a byte offset that is not known to fall on a char boundary (%s): parsing '
                      'a policy with a multi-byte character at that position panics' % (c.ln, '; '.join(bad)),
                      '; '.join(goods), c.where())
        for c in body.calls(r'^core::str::<impl str>::split_at$'):
            n += 1
            root = body.root or body.key
            ok, why = boundary_safe(F, body, c.args[1], lib.roots_of(body, c.args[0]))
            ctx.check(ok, root, 'str.split_at on a char boundary',
                      'str::split_at at line %d uses a byte offset that is not known to fall on a char boundary (%s): parsing a policy '
                      'with a multi-byte character at that position panics' % (c.ln, why), why, c.where())
    ctx.floor(n, 3, 'str slices in the parser')


PARSER_EXCEPTIONS = [
    (r'AccessPolicy::(split_at_closing_parenthesis|find_matching_closing_parenthesis)$', 'overflow', r'^Sub:i32$', 1,
     'the i32 parenthesis counter is decremented at most once below zero before the function returns'),
    (r'AccessPolicy::(split_at_closing_parenthesis|find_matching_closing_parenthesis)$', 'overflow', r'^Add:i32$', 2,
     'i32 counter: needs 2^31 opening parentheses'),
    (r'AccessPolicy::to_dnf$', 'overflow', r'^Mul$', 1,
     'capacity hint: product of two in-memory vector lengths, each at most the number of conjunctions already built'),
]


@rule('C15', 'panic')
def panic(ctx):
    F = ctx.F
    CG = lib.CallGraph(F)
    reach = CG.reachable([r for r in ROOTS if r in F.bodies])
    saved = list(c14.PANIC_EXCEPTIONS)
    c14.PANIC_EXCEPTIONS[:] = saved + PARSER_EXCEPTIONS
    try:
        # str indexing is decided by the char-boundary rule
        class Filter(dict):
            pass
        keys = sorted(reach)
        n = 0
        used = {}
        for key in keys:
            body = F.bodies[key]
            for ps in lib.panic_sites(body):
                if ps.kind == 'ptrcheck':
                    continue
                if ps.kind == 'index' and ps.call is not None and (ps.call.self_ty or '') in ('str', 'std::string::String'):
                    continue
                if ps.kind == 'str-op' and ps.detail in ('split_at', 'split_at_mut'):
                    continue
                n += 1
                why = c14.discharge(ctx, F, ps)
                if why is None:
                    for idx, (fpat, kind, dpat, mx, reason) in enumerate(c14.PANIC_EXCEPTIONS):
                        if kind == ps.kind and re.search(fpat, body.key) and re.search(dpat, ps.detail):
                            k = (idx, body.key)
                            if used.get(k, 0) < mx:
                                used[k] = used.get(k, 0) + 1
                                why = 'exception: ' + reason
                                break
                what = 'panic-site(%s %s)' % (ps.kind, ps.detail)
                if why is not None:
                    if not (ps.kind == 'overflow' and ps.detail == 'Add' and not why.startswith('exception')):
                        ctx.ok(body.key, what, why, body.where(ps.ln))
                else:
                    ctx.bad(body.key, what, 'panic site reachable from the policy parser is not discharged: %s %s at line %d%s'
                            % (ps.kind, ps.detail, ps.ln, ' (%s)' % ps.call.full[:80] if ps.call else ''), body.where(ps.ln))
        ctx.floor(len(reach), 8, 'functions reachable from the parser entry points')
        ctx.note('%d functions, %d panic sites' % (len(reach), n))
    finally:
        c14.PANIC_EXCEPTIONS[:] = saved


REMOVALS = (r'Vec::<[^>]*>::(dedup|dedup_by|dedup_by_key|retain|retain_mut|truncate|pop|remove|swap_remove|drain|clear|split_off)$',
            r'^std::iter::Iterator::(filter|filter_map|skip|take|step_by|skip_while|take_while|nth|last|find)$')


@rule('C15', 'dnf-keeps-clauses')
def dnf_keeps_clauses(ctx):
    """A necessary condition of DNF equivalence that is visible in the shape of to_dnf: no clause is ever removed
    (the disjunction arm concatenates both sides, the conjunction arm builds the full product)."""
    F = ctx.F
    key = 'abe_policy::access_policy::AccessPolicy::to_dnf'
    fam = F.family(key)
    bad = []
    for fb in fam:
        bad += fb.calls(*REMOVALS)
    ctx.check(not bad, key, 'no clause removal', 'to_dnf removes clauses through `%s` (line %d): the disjunctive normal form may no longer be '
              'equivalent to the policy' % (bad[0].name if bad else '', bad[0].ln if bad else 0), 'no dedup / retain / filter / truncate', F.fn(key).where())
    # ... and the attributes of a clause never go through a map or a set: a keyed / deduplicating collection merges attributes
    # (two attributes of one dimension in a conjunction make an unsatisfiable clause, not a clause with one of them)
    keyed = [c for fb in fam for c in fb.calls() if re.search(r'\b(BTreeMap|HashMap|BTreeSet|HashSet|IndexMap)\b', c.full + ' ' + (c.self_ty or ''))]
    ctx.check(not keyed, key, 'clauses are plain sequences', 'to_dnf puts the attributes of a clause into a map / set (%s, line %d): '
              'attributes that share a key are merged, and the clause is satisfied by keys the policy excludes'
              % (keyed[0].name if keyed else '', keyed[0].ln if keyed else 0), 'Vec only', F.fn(key).where())
    rec = [c for fb in fam for c in fb.calls(r'AccessPolicy::to_dnf$')]
    ctx.check(len(rec) >= 4, key, 'recurses on both operands', 'to_dnf recurses %d times; both operands of a conjunction and of a disjunction '
              'must be converted' % len(rec), '%d recursive calls' % len(rec), F.fn(key).where())


@rule('C15', 'names-trimmed')
def names_trimmed(ctx):
    """Attribute names are preserved modulo surrounding spaces: QualifiedAttribute::try_from splits at the first `::`
    and trims BOTH halves (each trim applied to one half of the split, not to the whole input)."""
    F = ctx.F
    tb = F.fn('<abe_policy::attribute::QualifiedAttribute as std::convert::TryFrom<&str>>::try_from')
    sp = tb.calls(r'^core::str::<impl str>::split_once$')
    tr = tb.calls(r'^core::str::<impl str>::trim$')
    ok = len(sp) == 1 and len(tr) == 2
    halves = set()
    if ok:
        for c in tr:
            for r in copy_chain_sources(tb, c.args[0], through_calls=IDENTITY_CALLS + (r'^std::ops::Try::branch$', r'ok_or_else$', r'ok_or$')):
                if r[0] == 'call' and r[1] is sp[0]:
                    halves.add(tuple(x for x in r[2] if x in ('0', '1'))[-1:])
    ctx.check(ok and halves == {('0',), ('1',)}, tb.key, 'both halves trimmed',
              'QualifiedAttribute::try_from does not trim the dimension and the component separately (trims: %d, halves trimmed: %s): '
              '"DPT :: FIN" keeps its inner spaces in the names' % (len(tr), sorted(halves)), 'split_once("::") then trim() on each half', tb.where())


@rule('C15', 'attributes-from-tokens')
def attributes_from_tokens(ctx):
    """Attribute names are recognised only on a token: every call of QualifiedAttribute::try_from made by the parser receives the
    text collected by take_while(<not a metacharacter>) — never a raw group or the remaining expression, which may still contain
    parentheses and operators."""
    F = ctx.F
    pk = 'abe_policy::access_policy::AccessPolicy::parse'
    n = 0
    for fb in lib.reach_bodies(F, pk, stop=['<abe_policy::attribute::QualifiedAttribute as std::convert::TryFrom<&str>>::try_from']):
        for c in fb.calls(r'QualifiedAttribute as std::convert::TryFrom<&str>>::try_from$|TryFrom::try_from$'):
            if 'QualifiedAttribute' not in c.full:
                continue
            n += 1
            roots = copy_chain_sources(fb, c.args[0], through_calls=IDENTITY_CALLS + (r'String::as_str$', r'^std::ops::Deref::deref$'))
            ok = bool(roots)
            for r in roots:
                if r[0] != 'call' or not r[1].is_(r'^std::iter::Iterator::collect$'):
                    ok = False
                    continue
                sl = backward_slice(fb, [r[1].args[0]], follow_mutarg=False)
                if not sl.has_call(r'^std::iter::Iterator::take_while$'):
                    ok = False
            ctx.check(ok, pk, 'try_from(token)', 'the parser hands QualifiedAttribute::try_from (line %d) a string that is not a token '
                      'cut by take_while(..): text containing parentheses or operators can be taken for an attribute name' % c.ln,
                      'argument = chars().take_while(seeker).collect()', c.where())
    ctx.floor(n, 1, 'QualifiedAttribute::try_from calls in the parser')


@rule('C15', 'paren-depth-counter')
def paren_depth_counter(ctx):
    """'parentheses first': the group of a parenthesis ends at its MATCHING closing parenthesis. The function that looks for it
    keeps a depth counter; apart from its initialisation to a constant, every definition of the counter is the counter itself
    plus or minus one (one per opening / closing parenthesis) — a counter that is reset, or stepped by another amount, closes a
    group of depth three or more too early."""
    F = ctx.F
    cands = [b for b in F.fns() if re.search(r'AccessPolicy::(split_at_closing_parenthesis|find_matching_closing_parenthesis)$', b.key)]
    ctx.floor(len(cands), 1, 'function matching parentheses')
    for body in cands:
        # the counter: the integer local compared with 0 that also has +1 / -1 definitions
        counters = set()
        for cmp_ in lib.comparisons(body):
            for o in (cmp_['a'], cmp_['b']):
                if is_place(o):
                    cur, _d = lib.resolve_copy(body, op_local(o))
                    if cur is not None and body.var_name(cur) and body.local_ty(cur) in ('i32', 'i64', 'isize', 'usize', 'u32', 'u64', 'i8', 'i16', 'u8', 'u16'):
                        counters.add(cur)
        counters = [c for c in counters if any(d.kind == 'assign' and d.rv['k'] == 'use' and is_place(d.rv['a']) and
                                               (lib.single_def(body, op_place(d.rv['a'])['l']) or d).rv.get('op', '').endswith('WithOverflow')
                                               for d in body.defs().get(c, []) if d.kind == 'assign')]
        ctx.check(len(counters) == 1, body.key, 'one depth counter', 'cannot identify the parenthesis depth counter (%d candidates)' % len(counters),
                  '', body.where())
        for c in counters:
            for d in body.defs().get(c, []):
                if d.kind != 'assign' or d.lhs['p']:
                    ctx.bad(body.key, 'counter step', 'the depth counter is written by something other than an assignment', body.where())
                    continue
                rv = d.rv
                ln = body.stmts(d.b)[d.i]['ln']
                if rv['k'] == 'use' and 'c' in rv['a']:
                    ok = body.block_dominates(d.b, max(body.live_blocks())) or True
                    # a constant: only the initialisation (not inside the scanning loop)
                    from .c13 import loop_depths
                    depth, _dom = loop_depths(body)
                    ok = depth.get(d.b, 0) == 0
                    ctx.check(ok, body.key, 'counter initialised once', 'the depth counter is reset to a constant inside the scan (line %d)' % ln,
                              'constant only before the loop', body.where(ln))
                    continue
                step_ok = False
                if rv['k'] == 'use' and is_place(rv['a']):
                    sd = lib.single_def(body, op_place(rv['a'])['l'])
                    if sd is not None and sd.kind == 'assign' and sd.rv['k'] == 'bin' and sd.rv['op'] in ('AddWithOverflow', 'SubWithOverflow', 'Add', 'Sub'):
                        a, b_ = sd.rv['a'], sd.rv['b']
                        self_ok = is_place(a) and lib.resolve_copy(body, op_local(a))[0] == c
                        one = 'c' in b_ and b_['c'].get('v') == 1
                        step_ok = self_ok and one
                ctx.check(step_ok, body.key, 'counter step is +-1', 'the depth counter is updated at line %d by something other than '
                          '`counter + 1` / `counter - 1`: nested groups are closed at the wrong parenthesis' % ln, 'counter +- 1', body.where(ln))


AP = 'abe_policy::access_policy::AccessPolicy'


@rule('C15', 'and-or-identities')
def and_or_identities(ctx):
    """'logically equivalent to the boolean expression': `*` (Broadcast) is the identity of AND and absorbs OR. Structurally,
    `bitand` returns one of its two operands or a Conjunction of both — it never builds Broadcast itself (`x & *` must stay x,
    not become `*`) — and `bitor` returns an operand or a Disjunction of both."""
    F = ctx.F
    for (key, comb, forbidden) in (('<%s as std::ops::BitAnd>::bitand' % AP, 'Conjunction', ('Broadcast', 'Disjunction')),
                                   ('<%s as std::ops::BitOr>::bitor' % AP, 'Disjunction', ('Conjunction',))):
        body = F.fn(key)
        aggs = []
        for fb in lib.family_ext(F, key):
            for b in sorted(fb.live_blocks()):
                for st in fb.stmts(b):
                    rv = st['rv']
                    if rv['k'] == 'agg' and rv.get('adt') == AP:
                        aggs.append((fb, st, rv['variant']))
        bad = [(fb, st, v) for (fb, st, v) in aggs if v in forbidden]
        ctx.check(not bad and any(v == comb for (_f, _s, v) in aggs), key, 'returns an operand or %s(lhs, rhs)' % comb,
                  '%s builds %s: `x & *` must be x and `x | *` must be `*` — a policy with `*` inside a conjunction would otherwise '
                  'collapse to broadcast' % (key.split('::')[-1], [v for (_f, _s, v) in bad] or 'no %s' % comb),
                  'constructs %s only' % comb, body.where())
        # both operands of the combination are the two parameters
        for (fb, st, v) in aggs:
            if v != comb or fb is not body:
                continue
            ps = set()
            for o in st['rv']['ops']:
                for s in lib.copy_chain_sources(body, o, through_calls=(r'^std::boxed::Box::<T>::new$',) + tuple(lib.IDENTITY_CALLS)):
                    if s[0] == 'param':
                        ps.add(s[1])
            ctx.check(ps == {1, 2}, key, '%s of both operands' % comb, 'the %s built at line %d does not combine the two operands (%s)'
                      % (comb, st['ln'], sorted(ps)), 'lhs and rhs', body.where(st['ln']))


def broadcast_edges(F, body, param):
    """Edges on which parameter `param` (1-based) of an AccessPolicy operator is known to be Broadcast: the equal edge of
    `p == Broadcast`, or the Broadcast arm of a match on p (possibly moved into a tuple first)."""
    out = []
    for (c, te, fe) in __import__('analyses.props.c02', fromlist=['eq_guards']).eq_guards(body):
        if AP not in (c.self_ty or ''):
            continue
        sides = []
        for a in c.args:
            k = lib.enum_const(F, body, a)
            ps = [s[1] for s in lib.copy_chain_sources(body, a, through_calls=tuple(lib.IDENTITY_CALLS)) if s[0] == 'param']
            sides.append((k, ps))
        for i in (0, 1):
            if sides[i][0] == 'Broadcast' and param in sides[1 - i][1] and te is not None:
                out.append(te)
    names = [v['name'] for v in F.adts[AP]['variants']]
    bi = names.index('Broadcast')
    for b in sorted(body.live_blocks()):
        t_ = body.term(b)
        if t_['k'] != 'switch' or not is_place(t_['d']):
            continue
        _, d = lib.resolve_copy(body, op_local(t_['d']))
        if d is None or d.kind != 'assign' or d.rv['k'] != 'discr':
            continue
        srcs = lib.copy_chain_sources(body, {'cp': d.rv['pl']}, through_calls=tuple(lib.IDENTITY_CALLS))
        if srcs and all(s[0] == 'param' and s[1] == param and not [x for x in s[2] if not str(x).startswith('@')] for s in srcs):
            for v, tgt in t_['cases']:
                if v == bi:
                    out.append((b, tgt))
    return out


def same_operand_edges(F, body):
    """Equal edges of `self == rhs`."""
    out = []
    for (c, te, fe) in __import__('analyses.props.c02', fromlist=['eq_guards']).eq_guards(body):
        if AP not in (c.self_ty or ''):
            continue
        ps = []
        for a in c.args:
            ps.append(set(s[1] for s in lib.copy_chain_sources(body, a, through_calls=tuple(lib.IDENTITY_CALLS)) if s[0] == 'param'))
        if ps[0] and ps[1] and ((1 in ps[0] and 2 in ps[1]) or (2 in ps[0] and 1 in ps[1])) and te is not None:
            out.append(te)
    return out


@rule('C15', 'lone-operand-only-when-absorbed')
def lone_operand_only_when_absorbed(ctx):
    """`a & b` may return a alone only when b is `*` (or b == a), `a | b` may return a alone only when a is `*` (or b == a): every
    block that makes an operand the result is dominated by the corresponding test. Returning one side under any other condition
    (`x | (x | y)` simplified to x, say) silently drops the other side of the expression."""
    F = ctx.F
    n = 0
    for (key, is_and) in (('<%s as std::ops::BitAnd>::bitand' % AP, True), ('<%s as std::ops::BitOr>::bitor' % AP, False)):
        body = F.fn(key)
        same = same_operand_edges(F, body)
        # (block, param): the places where an operand, as it came, becomes (what will be) the result — followed back through
        # the bindings of or-patterns, which give the result local one definition per alternative
        events = []
        seen = set()

        def walk(l, depth=0):
            if (l in seen) or depth > 8:
                return
            seen.add(l)
            for d in body.defs().get(l, []):
                if d.kind != 'assign' or d.lhs['p'] or d.rv['k'] != 'use' or not is_place(d.rv['a']):
                    continue
                src = op_place(d.rv['a'])
                srcs = lib.copy_chain_sources(body, d.rv['a'], through_calls=tuple(lib.IDENTITY_CALLS))
                ps = set(s[1] for s in srcs if s[0] == 'param')
                if srcs and all(s[0] == 'param' for s in srcs) and len(ps) == 1:
                    events.append((d.b, list(ps)[0], body.stmts(d.b)[d.i]['ln']))
                elif not src['p'] and not body.is_param(src['l']):
                    walk(src['l'], depth + 1)
        walk(0)
        for (b, p, ln) in sorted(set(events)):
            other = 3 - p
            n += 1
            # AND: the OTHER operand is `*`;  OR: THIS operand is `*`
            edges = broadcast_edges(F, body, other if is_and else p) + same
            ctx.check(bool(edges) and body.edges_dominate(edges, b), key, 'operand %d returned alone only when absorbed' % p,
                      '%s returns its %s operand alone (line %d) on a path where the other one is not known to be absorbed: part of '
                      'the boolean expression is dropped' % (key.split('::')[-1], 'left' if p == 1 else 'right', ln),
                      'under the `*` / same-operand test', body.where(ln))
    ctx.floor(n, 1, 'lone-operand returns of the AccessPolicy operators')


@rule('C15', 'broadcast-is-the-whole-star')
def broadcast_is_the_whole_star(ctx):
    """'attribute names are preserved exactly': the parser yields Broadcast only for an expression that IS `*` (string equality
    with the literal); a `*` that merely starts a token belongs to the attribute name (`*SEC::TOP`)."""
    F = ctx.F
    key = 'abe_policy::access_policy::AccessPolicy::parse'
    body = F.fn(key)
    n = 0
    for fb in lib.family_ext(F, key):
        star_edges = []
        for c in fb.calls(r'^std::cmp::PartialEq::eq$'):
            if 'str' not in (c.self_ty or ''):
                continue
            lits = [lib.const_label(F, fb, a) for a in c.args]
            if any(isinstance(l, tuple) and l[0] == 'lit' and l[1] == '"*"' for l in lits if l is not None):
                for (sb, neg) in switch_on(fb, c.dest['l']):
                    te, fe = bool_edges(fb, sb, neg)
                    if te:
                        star_edges.append(te)
        for b in sorted(fb.live_blocks()):
            for st in fb.stmts(b):
                rv = st['rv']
                if rv['k'] == 'agg' and rv.get('adt') == AP and rv['variant'] == 'Broadcast':
                    n += 1
                    ctx.check(bool(star_edges) and fb.edges_dominate(star_edges, b), key, 'Broadcast <= expression == "*"',
                              'parse produces Broadcast (line %d) without the remaining expression being exactly "*": a star that begins '
                              'an attribute name is swallowed' % st['ln'], 'under e == "*"', fb.where(st['ln']))
    ctx.floor(n, 1, 'Broadcast constructions in parse')


@rule('C15', 'conjunction-keeps-every-operand')
def conjunction_keeps_every_operand(ctx):
    """'logically equivalent to the boolean expression': the operands the parser queued between two `||` are ALL and-ed together.
    Wherever the parser's helpers fold a sequence of policies (`conjugate`), the step that combines the accumulator with the next
    operand runs for every operand: the `&` call sits on every path from the arrival of an operand (the entry of the fold closure,
    or the `Some` edge of the loop's `next()`) to the point where the step is over. A fast path that hands the accumulator back
    (`if res == Broadcast { res }`) drops an operand: `D::A && *`... is fine, but `* && D::A` would become `*`."""
    F = ctx.F
    n = 0
    for key in ('%s::parse' % AP, '%s::conjugate' % AP):
        if key not in F:
            continue
        for fb in lib.family_ext(F, key):
            # `fold(first, BitAnd::bitand)`: the step IS the operator
            for c in fb.calls(r'^std::iter::Iterator::(fold|reduce)$'):
                for a in c.args:
                    fn = (a.get('c') or {}).get('fn') if isinstance(a, dict) else None
                    if fn and fn.get('def') == 'std::ops::BitAnd::bitand' and AP in (fn.get('full') or fn.get('res') or ''):
                        n += 1
                        ctx.ok(fb.key, 'every operand is and-ed in', 'the folding step is `&` itself', fb.where(c.ln))
            ands = fb.calls(r'^std::ops::BitAnd::bitand$')
            ands = [c for c in ands if AP in (c.self_ty or '') or AP in c.full]
            if not ands:
                continue
            blocks = [c.b for c in ands]
            if fb.kind == 'Closure' and any(cc.is_(r'^std::iter::Iterator::(fold|try_fold|reduce|for_each|try_for_each)$')
                                            for (_pb, cc, _i) in lib.closure_consumers(F, fb)):
                n += 1
                rets = fb.return_blocks()
                ok = bool(rets) and all(not _reachable_avoiding(fb, 0, r, blocks) for r in rets)
                ctx.check(ok, fb.key, 'every operand is and-ed in',
                          'the folding step of %s can finish without combining the accumulator with the operand it was given: that '
                          'operand disappears from the parsed policy' % key.split('::')[-1], '`acc & operand` on every path',
                          fb.where(ands[0].ln))
                continue
            # loop form: from the Some edge of next() back to next() only through the `&`
            for nx in fb.calls(r'^std::iter::Iterator::next$', r'::pop_front$'):
                if nx.target is None:
                    continue
                # is the `&` inside the loop of this next()?  (next() reachable from the `&`)
                if not any(nx.b in fb.reach(b) for b in blocks):
                    continue
                n += 1
                some_targets = _some_targets(fb, nx)
                ok = bool(some_targets) and all(not _reachable_avoiding(fb, s, nx.b, blocks) for s in some_targets)
                ctx.check(ok, fb.key, 'every operand is and-ed in',
                          'the loop of %s that folds the queued operands can go round without combining the accumulator with the '
                          'operand it took: that operand disappears from the parsed policy' % fb.key.split('::')[-1],
                          '`acc & operand` on every iteration', fb.where(ands[0].ln))
    ctx.floor(n, 1, 'folding steps of the parser (conjugate)')


def _reachable_avoiding(body, start, target, avoid_blocks):
    if start in avoid_blocks:
        return False
    return target in body.reach(start, avoid_blocks=tuple(avoid_blocks))


def _some_targets(body, nx):
    """Blocks entered when the Option produced by call `nx` is Some (through the switch on its discriminant)."""
    out = []
    for b in sorted(body.live_blocks()):
        t_ = body.term(b)
        if t_['k'] != 'switch' or not is_place(t_['d']):
            continue
        _, d = lib.resolve_copy(body, op_local(t_['d']))
        if d is None or d.kind != 'assign' or d.rv['k'] != 'discr':
            continue
        srcs = copy_chain_sources(body, {'cp': d.rv['pl']}, through_calls=tuple(IDENTITY_CALLS))
        if srcs and all(s[0] == 'call' and s[1].b == nx.b for s in srcs):
            for v, tgt in t_['cases']:
                if v == 1:
                    out.append(tgt)
            if not any(v == 1 for v, _t in t_['cases']):
                out.append(t_['else'])
    return out
