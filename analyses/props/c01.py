"""C01 — authorized keys always recover exactly the encapsulated secret (necessary conditions)."""
import re

from ..engine import prop, rule
from ..facts import op_local, op_place, is_place, backward_slice, copy_chain_sources, IDENTITY_CALLS, switch_on, bool_edges
from .. import lib, trans
from .c02 import root_descr, field_writers, hands_out
from .c07 import role, flavour_events, tu_roles, SIDES
from .c13 import loop_depths

prop('C01',
     explanation=(
         'Three necessary conditions of completeness. transcript (E-TRANS sibling agreement): for each flavour the '
         'digests T and U are computed over the same abstract transcript by the encapsulating side and by every '
         'opening side (c_encaps = c_decaps = classic arm of full_decaps; h_encaps = h_decaps = hybrid arm), and H_hash / '
         'J_hash are shared, so an honest key recomputes the tag it was given. canon: Right::from_point sorts the '
         'identifiers before encoding them and every Right is built by from_point, the two From impls or read; user '
         'rights (restricted-space ++ semantic-space order) and encryption rights (DNF order) therefore name the same '
         'right identically; both sides take identifiers from Attribute.id. traverse: the opening loops range over the '
         'full product revisions x encapsulations x secrets with no truncating adaptor, inner loops are left only by '
         'exhaustion, and Ok(None) is returned only after the outermost iterator is exhausted.'),
     not_decided='that the complementary-space expansion contains the right of every covered conjunction '
                 '(combinatorial over all structures and policy pairs); the algebra making K1 equal on both sides; '
                 'ML-KEM correctness',
     assumptions=['slice::sort_unstable sorts', 'SHA3 is a function'])


@rule('C01', 'transcript', configs=('default', 'p256'))
def transcript(ctx):
    F = ctx.F
    per = {'classic': [], 'hybrid': []}
    for (key, flavours) in SIDES:
        body, hs = tu_roles(F, key)
        if len(hs) != 2:
            ctx.bad(key, 'two digests', '%s computes %d SHA3 digests, expected T and U' % (key, len(hs)), body.where())
            continue
        for fl in flavours:
            T = [role(u) for u in flavour_events(hs[0], fl)]
            U = [role(u) for u in flavour_events(hs[1], fl)]
            per[fl].append((key, T, U))
    n = 0
    for fl, lst in per.items():
        if not lst:
            continue
        ref = lst[0]
        for (key, T, U) in lst[1:]:
            n += 1
            ctx.check(T == ref[1] and U == ref[2], key, 'transcript(%s) = %s' % (fl, ref[0].split('::')[-1]),
                      '%s hashes T=[%s] U=[%s] but %s hashes T=[%s] U=[%s] (%s flavour): an honest key recomputes a '
                      'different tag and never opens the encapsulation' % (
                          key, ', '.join(T), ', '.join(U), ref[0], ', '.join(ref[1]), ', '.join(ref[2]), fl),
                      'T=[%s] U=[%s]' % (', '.join(T), ', '.join(U)), F.fn(key).where())
    ctx.floor(n, 4, 'sibling transcript comparisons')
    # the shared digests are really shared: one H_hash, one J_hash, one G_hash used by all sides
    for h in ('H_hash', 'J_hash', 'G_hash'):
        users = set()
        for body in F.fns():
            if body.calls(r'primitives::%s$' % h):
                users.add(body.root or body.key)
        need = {'H_hash': 5, 'J_hash': 5, 'G_hash': 4}[h]
        ctx.check(len(users) >= need, 'core::primitives::' + h, 'shared by all sides',
                  '%s is used by %d functions only (%s): a side derives this digest differently' % (h, len(users), sorted(users)),
                  'used by %d functions' % len(users), '')


RIGHT = 'abe_policy::rights::Right'
RIGHT_CTORS = {
    'abe_policy::rights::Right::from_point': 'canonical encoding',
    '<abe_policy::rights::Right as std::convert::From<std::vec::Vec<u8>>>::from': 'From<Vec<u8>>',
    '<abe_policy::rights::Right as std::convert::From<&[u8]>>::from': 'From<&[u8]>',
    '<abe_policy::rights::Right as cosmian_crypto_core::bytes_ser_de::Serializable>::read': 'deserialisation',
    '<abe_policy::rights::Right as std::clone::Clone>::clone': 'derive(Clone)',
}


@rule('C01', 'canon', configs=('default',))
def canon(ctx):
    F = ctx.F
    fp = F.fn('abe_policy::rights::Right::from_point')
    sorts = fp.calls(r'core::slice::<impl \[T\]>::sort(_unstable)?(_by|_by_key)?$', r'::sort(_unstable)?$')
    ctx.check(len(sorts) >= 1, fp.key, 'sorts identifiers',
              'Right::from_point no longer sorts the attribute identifiers: the same set of attributes listed in two orders '
              '(user side: restricted-space ++ semantic-space; encryption side: DNF order) yields two different rights',
              'sort before encoding', fp.where())
    for s in sorts:
        # the sort applies to the identifier vector parameter and dominates every write of an identifier
        roots = [r for r in root_descr(fp, s.args[0]) if r[0] == 'param']
        ctx.check(bool(roots), fp.key, 'sort(attribute_ids)',
                  'the sort is not applied to the identifier vector', 'sorts the parameter', s.where())
        # the writes, wherever they sit: in from_point itself or in a closure it hands to an iterator (then the call that runs
        # the closure is what the sort must dominate)
        wblocks = [w.b for w in fp.calls(r'Serializer::write_leb128_u64$', r'Serializer::write')]
        for cb in lib.family_ext(F, fp.key):
            if cb is fp or not cb.calls(r'Serializer::write_leb128_u64$', r'Serializer::write'):
                continue
            for (pb, cc, _i) in lib.closure_consumers(F, cb):
                if pb is fp:
                    wblocks.append(cc.b)
        ws = wblocks
        ctx.check(bool(ws) and all(fp.block_dominates(s.b, w) for w in ws), fp.key, 'sort dominates encoding',
                  'an identifier is encoded before the vector is sorted', 'sort dominates %d encoding call(s)' % len(ws), s.where())
        for w in fp.calls(r'Serializer::write_leb128_u64$', r'Serializer::write'):
            sl = backward_slice(fp, [w.args[1]], follow_mutarg=False)
            ctx.check(bool(sl.params), fp.key, 'encodes sorted ids',
                      'the encoded value does not come from the (sorted) identifier vector', 'value <- attribute_ids', w.where())
    # constructors of Right
    n = 0
    for body in F.fns():
        for b in sorted(body.live_blocks()):
            for st in body.stmts(b):
                rv = st['rv']
                if rv['k'] == 'agg' and rv.get('adt') == RIGHT:
                    n += 1
                    root = body.root or body.key
                    ctx.check(root in RIGHT_CTORS, root, 'constructs Right',
                              '%s builds a Right (line %d) outside the canonical constructors: its encoding may differ from '
                              'from_point\'s' % (body.key, st['ln']), RIGHT_CTORS.get(root, ''), body.where(st['ln']))
    ctx.floor(n, 4, 'constructions of Right')
    # rights used as keys by the structure come from from_point
    for k in ('abe_policy::access_structure::AccessStructure::omega',
              'abe_policy::access_structure::AccessStructure::generate_complementary_rights',
              'abe_policy::access_structure::AccessStructure::generate_associated_rights'):
        fam = F.family(k)
        uses_fp = False
        other = []
        for fb in fam:
            for c in fb.calls():
                if c.is_(r'Right::from_point$'):
                    uses_fp = True
                elif c.is_(r'^std::convert::(From::from|Into::into)$') and RIGHT in c.full:
                    other.append(c)
            # function items (`.map(Right::from_point)`)
            from .c04 import fn_refs
            for fn in fn_refs(fb):
                if fn['def'].endswith('Right::from_point'):
                    uses_fp = True
        ctx.check(uses_fp and not other, k, 'rights <- from_point',
                  '%s does not build its rights (only) through Right::from_point' % k, 'from_point', F.fn(k).where())
    # both sides read identifiers from Attribute.id
    gi = F.fn('abe_policy::dimension::Attribute::get_id')
    ret = copy_chain_sources(gi, 0)
    ctx.check(all(r[0] == 'param' and r[2][-1:] == ('id',) for r in ret) and bool(ret), gi.key, 'get_id = .id',
              'Attribute::get_id no longer returns the `id` field', 'returns self.id', gi.where())
    cb = F.fn('abe_policy::access_structure::combine')
    ctx.check(bool(cb.calls(r'Attribute::get_id$')), cb.key, 'points <- get_id', 'combine does not take identifiers from get_id()',
              'component.get_id()', cb.where())
    ga = 'abe_policy::access_structure::AccessStructure::generate_associated_rights'
    found = False
    for fb in F.family(ga):
        for b in sorted(fb.live_blocks()):
            for st in fb.stmts(b):
                rv = st['rv']
                if rv['k'] == 'use' and is_place(rv['a']):
                    pl = op_place(rv['a'])
                    if any(isinstance(e, dict) and e.get('n') == 'id' and e.get('o', '').endswith('Attribute') for e in pl['p']):
                        found = True
        if fb.calls(r'Attribute::get_id$'):
            found = True
    ctx.check(found, ga, 'ids <- Attribute.id', 'the encryption side does not take identifiers from Attribute.id', 'params.id', F.fn(ga).where())


TRUNC = (r'^std::iter::Iterator::(take|skip|step_by|take_while|skip_while|nth|last|map_while)$',)


@rule('C01', 'traverse', configs=('default', 'p256'))
def traverse(ctx):
    F = ctx.F
    n = 0
    for k in ('core::primitives::c_decaps', 'core::primitives::h_decaps'):
        body = F.fn(k)
        depth, dom = loop_depths(body)
        nexts = [c for c in body.calls(r'^std::iter::Iterator::next$') if depth.get(c.b, 0) > 0]
        ctx.check(len(nexts) >= 3, k, 'three nested loops', '%s no longer iterates revisions x encapsulations x secrets '
                  '(%d loops found)' % (k, len(nexts)), '%d loops' % len(nexts), body.where())
        next_blocks = set(c.b for c in nexts)
        outer = None
        for c in nexts:
            n += 1
            if 'RevisionIterator' in (c.self_ty or ''):
                outer = c
            # no truncating adaptor between the collection and the loop
            sl = backward_slice(body, [c.args[0]], follow_mutarg=False)
            tr = [x for x in sl.calls if x.is_(*TRUNC)]
            ctx.check(not tr, k, 'loop over %s not truncated' % (c.self_ty or '?').split('<')[0].split('::')[-1],
                      'the loop at line %d iterates through %s: part of the product is never tried' % (c.ln, tr[0].name if tr else ''),
                      'no take/skip/step_by/nth', c.where())
            # it is a loop of its own: some back edge returns to its header
            own = any(c.b in dom.get(u, ()) for u in body.preds[c.b] if u in dom)
            ctx.check(own, k, 'loop iterates', 'the iteration at line %d never comes back to its header (its body always '
                      'leaves it): only the first element is tried' % c.ln, 'has a back edge', c.where())
            if not own:
                continue
            # the loop is left only by exhaustion (None edge) or towards a return
            L = own_loop(body, c.b, dom)
            sw = c.target
            none_t = None
            t = body.term(sw) if sw is not None else None
            if t and t['k'] == 'switch':
                for v, bb in t['cases']:
                    if v == 0:
                        none_t = bb
            bad = []
            for u in L:
                for v in body.succs[u]:
                    if v in L:
                        continue
                    if u == sw and v == none_t:
                        continue
                    r = body.reach(v)
                    if r & next_blocks:
                        bad.append((u, v))
            ctx.check(not bad, k, 'loop left only by exhaustion',
                      'the loop at line %d can be left early (edge bb%s->bb%s) and iteration continues elsewhere: candidates '
                      'are skipped' % (c.ln, bad[0][0] if bad else '', bad[0][1] if bad else ''), 'exits: exhaustion or return', c.where())
        # Ok(None) only after the outermost iterator is exhausted
        if outer is not None:
            sw = outer.target
            t = body.term(sw)
            none_t = [bb for v, bb in t['cases'] if v == 0][0] if t['k'] == 'switch' else None
            for b in sorted(body.live_blocks()):
                for st in body.stmts(b):
                    rv = st['rv']
                    if rv['k'] == 'agg' and rv.get('adt') == 'std::option::Option' and rv['variant'] == 'None' \
                            and not st['lhs']['p'] and hands_out(body, st['lhs']['l']):
                        n += 1
                        ctx.check(none_t is not None and body.edge_dominates((sw, none_t), b), k, 'Ok(None) <= revisions exhausted',
                                  '`Ok(None)` (line %d) can be returned before every revision has been tried' % st['ln'],
                                  'dominated by the exhaustion edge of revisions()', body.where(st['ln']))
        else:
            ctx.bad(k, 'outer loop = revisions()', 'the outermost loop is not over usk.secrets.revisions()', body.where())
    ctx.floor(n, 8, 'loop obligations in the opening functions')


def natural_loop(body, header):
    """Blocks of the cycle(s) through `header`."""
    fwd = body.reach(body.succs[header])
    L = {header}
    for b in fwd:
        if header in body.reach(body.succs[b]) or b == header:
            L.add(b)
    return L


def own_loop(body, header, dom):
    """Natural loop of the back edges into `header` (header dominates the source)."""
    L = {header}
    st = [u for u in body.preds[header] if header in dom.get(u, ())]
    while st:
        x = st.pop()
        if x in L:
            continue
        L.add(x)
        for p in body.preds[x]:
            if p not in L and p in dom:
                st.append(p)
    return L


@rule('C01', 'restrict-prefix')
def restrict_prefix(ctx):
    from .c02 import check_restrict_prefix
    check_restrict_prefix(ctx, ctx.F)


@rule('C01', 'every-secret-tried', configs=('default', 'p256'))
def every_secret_tried(ctx):
    """In the opening loops every (encapsulation, secret) pair reaches the key-agreement call: the only
    permitted bypass is the Classic arm of the variant test in the hybridized opening (a classic secret
    has no ML-KEM key)."""
    F = ctx.F
    for k, allow_classic_skip in (('core::primitives::c_decaps', False), ('core::primitives::h_decaps', True)):
        body = F.fn(k)
        depth, dom = loop_depths(body)
        nexts = [c for c in body.calls(r'^std::iter::Iterator::next$') if depth.get(c.b, 0) > 0]
        if not nexts:
            ctx.bad(k, 'loops', 'no loop found', body.where())
            continue
        inner = max(nexts, key=lambda c: depth.get(c.b, 0))
        sks = [c.b for c in body.calls(r'traits::Nike::session_key$')]
        ctx.check(bool(sks), k, 'calls session_key', '%s never derives the session key' % k, '', body.where())
        t = body.term(inner.target)
        some_t = [bb for v, bb in t['cases'] if v == 1]
        if t['k'] != 'switch' or not some_t:
            ctx.bad(k, 'inner loop shape', 'cannot decode the innermost loop', inner.where())
            continue
        L = own_loop(body, inner.b, dom)
        # blocks reachable from the Some edge inside the loop without passing a session_key block
        r = body.reach(some_t[0], avoid_blocks=sks)
        bypass = inner.b in r
        how = ''
        ok = not bypass
        if bypass and allow_classic_skip:
            # the bypass must go through the non-Hybridized arm of a switch on discr(secret)
            ok = True
            rsk = F.adts['core::RightSecretKey']
            names = [v['name'] for v in rsk['variants']]
            sw_blocks = []
            for b in sorted(L):
                tt = body.term(b)
                if tt['k'] == 'switch' and is_place(tt['d']):
                    _, d = lib.resolve_copy(body, op_local(tt['d']))
                    if d is not None and d.kind == 'assign' and d.rv['k'] == 'discr' and 'RightSecretKey' in body.local_ty(d.rv['pl']['l']):
                        sw_blocks.append((b, tt))
            # remove the classic edges and re-test
            avoid = []
            for (b, tt) in sw_blocks:
                hyb_idx = names.index('Hybridized')
                for v, bb in tt['cases'] + [[None, tt['else']]]:
                    if v != hyb_idx:
                        avoid.append((b, bb))
            r2 = body.reach(some_t[0], avoid_blocks=sks, avoid_edges=avoid)
            ok = inner.b not in r2 and bool(sw_blocks)
            how = ' other than the classic-secret arm'
        ctx.check(ok, k, 'every secret reaches session_key',
                  'in %s an iteration of the innermost loop can finish without trying the secret (no session_key on some path%s): '
                  'a key authorized through that secret does not open the encapsulation' % (k, how),
                  'session_key on every path through the loop body' + (' (classic secrets skipped in the hybridized opening)' if allow_classic_skip else ''),
                  inner.where())


@rule('C01', 'hierarchy-order')
def hierarchy_order(ctx):
    """'Same or lower attribute in a hierarchical dimension': the rank order of a hierarchy must survive removals, renames
    and round-trips, otherwise a higher key stops covering a lower attribute."""
    from . import c03, c13
    c03.dict_remove_shifts(ctx)
    c03.add_keeps_rank_order(ctx)
    c03.rename_keeps_id(ctx)
    c13.restricted(ctx, r'(dimension::Dimension|AccessStructure)$', [c13.agree, c13.order])


@rule('C01', 'complementary-product')
def complementary_product(ctx):
    """The user's complementary space and the master key's universe enumerate combinations of dimensions with the SAME
    enumerator: every iteration over the attributes of dimensions goes through `combine` (who-may-enumerate), and
    generate_complementary_points applies it both to the semantic space of the clause and to the unmentioned dimensions,
    taking the product of the two."""
    F = ctx.F
    enumerators = set()
    for body in F.fns():
        if body.calls(r'dimension::Dimension::attributes$'):
            enumerators.add(body.root or body.key)
    allowed = {'abe_policy::access_structure::combine'}
    extra = sorted(k for k in enumerators if k not in allowed and not k.startswith('abe_policy::dimension::') and 'test_utils' not in k)
    ctx.check(not extra, 'abe_policy::access_structure::combine', 'only combine enumerates attribute combinations',
              '%s iterate(s) over the attributes of dimensions without going through `combine`: user rights and master rights may no '
              'longer be enumerated the same way' % extra, 'combine only', '')
    gb = F.fn('abe_policy::access_structure::AccessStructure::generate_complementary_points')
    cs = []
    for fb in lib.reach_bodies(F, gb.key, stop=['abe_policy::access_structure::combine']):
        cs += fb.calls(r'access_structure::combine$')
    ctx.check(len(cs) == 2, gb.key, 'combine(semantic) x combine(unmentioned)',
              'generate_complementary_points calls combine %d time(s); the complementary space is the product of the combinations of '
              'the semantic space and of the combinations of the unmentioned dimensions' % len(cs), '2 calls', gb.where())
    om = F.fn('abe_policy::access_structure::AccessStructure::omega')
    ctx.check(len(om.calls(r'access_structure::combine$')) == 1, om.key, 'omega = combine(all dimensions)',
              'omega no longer enumerates the universe through combine', 'combine(universe)', om.where())


@rule('C01', 'refresh-keeps-order', configs=('default', 'p256'))
def refresh_keeps_order(ctx):
    """'... (after refresh if keys were rotated)': a refreshed chain lists the secrets newest first like the master chain it is
    merged with — appended with push_back while walking the master chain from its head (C04.orientation) — otherwise the next
    keep-old merge sees a divergence that is not there and drops secrets the key should keep (C04.keep-old-merge)."""
    from . import c04
    c04.orientation(ctx)
    c04.keep_old_merge(ctx)


@rule('C01', 'combine-visits-every-dimension')
def combine_visits_every_dimension(ctx):
    """The set of rights is the product over ALL dimensions: `combine` handles its first dimension and recurses on the rest;
    the only way out without recursing is the empty list. (A base case also taken for, say, a dimension that has no attribute
    yet would drop every dimension listed after it from the universe of rights.)"""
    from .c02 import root_descr
    F = ctx.F
    key = 'abe_policy::access_structure::combine'
    body = F.fn(key)
    rec = [c for c in body.calls(r'access_structure::combine$') if lib.local_callee(F, c) is body]
    ctx.check(bool(rec), key, 'recursive', 'combine no longer recurses on the remaining dimensions', '', body.where())
    if not rec:
        return
    # edges on which the list of dimensions is known to be empty
    empty = []
    for c in body.calls(r'core::slice::<impl \[T\]>::is_empty$', r'::is_empty$'):
        if any(r[0] == 'param' and r[1] == 1 and not [x for x in r[2]] for r in root_descr(body, c.args[0])):
            for (sb, neg) in switch_on(body, c.dest['l']):
                te, fe = bool_edges(body, sb, neg)
                if te:
                    empty.append(te)
    for c in body.calls(r'core::slice::<impl \[T\]>::(split_first|split_last|first|last)$'):
        if any(r[0] == 'param' and r[1] == 1 for r in root_descr(body, c.args[0])):
            for b in sorted(body.live_blocks()):
                t_ = body.term(b)
                if t_['k'] == 'switch' and is_place(t_['d']):
                    _, d = lib.resolve_copy(body, op_local(t_['d']))
                    if d is not None and d.kind == 'assign' and d.rv['k'] == 'discr' and not d.rv['pl']['p'] \
                            and lib.resolve_copy(body, d.rv['pl']['l'])[0] == c.dest['l'] or (d is not None and d.kind == 'assign' and d.rv['k'] == 'discr' and d.rv['pl']['l'] == c.dest['l']):
                        cases = {v: tgt for v, tgt in t_['cases']}
                        if 0 in cases:
                            empty.append((b, cases[0]))
                        elif 1 in cases and t_['else'] in body.succs[b]:
                            empty.append((b, t_['else']))
    for cmp_ in lib.comparisons(body):
        ca, cb = lib.classify_scalar(body, cmp_['a']), lib.classify_scalar(body, cmp_['b'])
        if cmp_['op'] == 'Eq' and ((ca[0] == 'len' and cb == ('const', 0)) or (cb[0] == 'len' and ca == ('const', 0))):
            empty.append(cmp_['te'])
    r = body.reach(0, avoid_blocks=[c.b for c in rec], avoid_edges=empty)
    esc = [b for b in body.return_blocks() if b in r]
    ctx.check(bool(empty) and not esc, key, 'no base case but the empty list',
              'combine can return without recursing on the remaining dimensions although the list is not empty: the dimensions after '
              'the one that triggers this are dropped from every right', 'every non-empty input recurses', body.where())


def check_use_after_zeroize(ctx, roots, label):
    F = ctx.F
    n = 0
    for k in roots:
        for body in lib.family_ext(F, k):
            n += len(body.calls(lib.ZEROIZE))
            for (x, c, b) in lib.use_after_zeroize(F, body):
                ctx.bad(k, 'use-after-zeroize(%s)' % (body.var_name(x) or 'tmp'),
                        '%s wipes `%s` (line %d) and uses it again afterwards without a fresh value: every later candidate is tried with '
                        'the all-zero / neutral key, %s' % (body.key, body.var_name(x) or '_%d' % x, c.ln, label), body.where(c.ln))
    return n


@rule('C01', 'no-use-after-zeroize', configs=('default', 'p256'))
def no_use_after_zeroize(ctx):
    """A session key that has been zeroized is not used again: in the opening loops the key agreed with one secret is wiped
    only once it is no longer needed for the remaining encapsulations (or is recomputed for each). A key wiped after the first
    attempt makes every other (encapsulation, secret) pair fail, although the loops still visit them."""
    roots = ['core::primitives::c_decaps', 'core::primitives::h_decaps', 'core::primitives::decaps', 'core::primitives::encaps',
             'core::primitives::c_encaps', 'core::primitives::h_encaps']
    n = check_use_after_zeroize(ctx, roots, 'so authorized keys stop opening multi-right encapsulations')
    # (no floor on the number of zeroize calls: a key that is never wiped cannot be used after having been wiped)
    if not ctx.violations or True:
        ctx.ok('core::primitives::c_decaps', 'no use after zeroize', '%d zeroize call(s) examined' % n, '')


@rule('C01', 'instance-is-stateless')
def instance_is_stateless(ctx):
    """'Authorized keys always recover exactly the encapsulated secret', whatever was done before with the same scheme instance and with other keys: the outcome of encapsulation and decapsulation depends on the keys, the policy and fresh randomness only. Structurally: the scheme instance holds its random generator and nothing else — no cache, no memo, no static, no
    thread-local (C19.state-audit)."""
    from . import c19
    c19.state_audit(ctx)
