"""C09 — every API call succeeds or fails exactly as its contract says (error discipline)."""
import re
from collections import Counter

from ..engine import prop, rule
from ..facts import op_local, op_place, is_place, backward_slice
from .. import lib

prop('C09',
     explanation=(
         'contract-table (reachability of error sites): for each public operation every documented failure has an error '
         'site (explicit Err(Error::V), ok_or(Error::V), ok_or_else(|| Error::V)) in the functions it reaches, recorded '
         'as (function, Error variant, minimum number of sites); the table was frozen after reading the code, keyed by '
         'function and variant so that moving a check into a helper of the same function family does not fire while '
         'deleting one does. no-swallow: no Result whose error type is the crate Error / CryptoCoreError is discarded '
         '(unused value, .ok(), unwrap_or*, is_ok/is_err-only). refresh-total: after verify and the known-id check, '
         'refresh has no error exit that depends on the state of the rights: the calls whose Err can propagate out of '
         'refresh are verify, refresh_id and sign (infallible in practice) only.'),
     not_decided='the "and succeeds otherwise" direction in general and exactness of each guard\'s condition; outcomes '
                 'over reachable states need execution',
     assumptions=['libtable.INFALLIBLE'])

ERR = 'error::Error'

# (function whose family must contain the sites, variant, minimum count, documented situation)
CONTRACT = [
    ('abe_policy::access_structure::AccessStructure::add_anarchy', 'ExistingDimension', 1, 'duplicate dimension name'),
    ('abe_policy::access_structure::AccessStructure::add_hierarchy', 'ExistingDimension', 1, 'duplicate dimension name'),
    ('abe_policy::access_structure::AccessStructure::del_dimension', 'DimensionNotFound', 1, 'unknown dimension'),
    ('abe_policy::access_structure::AccessStructure::add_attribute', 'DimensionNotFound', 1, 'unknown dimension'),
    ('abe_policy::dimension::Dimension::add_attribute', 'OperationNotPermitted', 'each-kind', 'duplicate attribute name (both dimension kinds)'),
    ('abe_policy::dimension::Dimension::add_attribute', 'AttributeNotFound', 1, 'unknown `after` attribute'),
    ('abe_policy::access_structure::AccessStructure::del_attribute', 'DimensionNotFound', 1, 'unknown dimension'),
    ('abe_policy::dimension::Dimension::remove_attribute', 'AttributeNotFound', 'each-kind', 'unknown attribute (both kinds)'),
    ('abe_policy::access_structure::AccessStructure::rename_attribute', 'DimensionNotFound', 1, 'unknown dimension'),
    ('abe_policy::dimension::Dimension::rename_attribute', 'OperationNotPermitted', 2, 'rename onto a used name / unknown (hierarchy)'),
    ('abe_policy::dimension::Dimension::rename_attribute', 'AttributeNotFound', 1, 'unknown attribute (anarchy)'),
    ('abe_policy::access_structure::AccessStructure::disable_attribute', 'DimensionNotFound', 1, 'unknown dimension'),
    ('abe_policy::dimension::Dimension::disable_attribute', 'AttributeNotFound', 'each-kind', 'unknown attribute (both kinds)'),
    ('abe_policy::access_structure::AccessStructure::get_attribute', 'AttributeNotFound', 1, 'unknown attribute in an encryption policy'),
    ('abe_policy::access_structure::AccessStructure::get_attribute', 'DimensionNotFound', 1, 'unknown dimension in an encryption policy'),
    ('abe_policy::access_structure::AccessStructure::generate_semantic_space', 'DimensionNotFound', 1, 'unknown dimension in a user policy'),
    ('abe_policy::dimension::Dimension::restrict', 'AttributeNotFound', 1, 'unknown attribute in a user policy'),
    ('core::MasterPublicKey::select_subkeys', 'KeyError', 1, 'encryption for a right with no published key'),
    ('core::MasterSecretKey::get_latest_right_sk', 'KeyError', 1, 'key generation for a right the master key does not hold'),
    ('core::primitives::rekey', 'OperationNotPermitted', 1, 'rekey of a right the master key does not hold'),
    ('core::primitives::update_msk', 'OperationNotPermitted', 1, 'adding a right that is born disabled'),
    ('core::primitives::verify', 'KeyError', 1, 'forged user key'),
    ('core::TracingSecretKey::refresh_id', 'Tracing', 1, 'unknown user id'),
    ('core::primitives::setup', 'OperationNotPermitted', 1, 'tracing level too low'),
    ('core::primitives::full_decaps', 'Kem', 2, 'empty trap vector / nothing could be opened'),
    ('data_struct::dictionary::Dict::<K, V>::update_key', None, 2, 'missing entry / existing entry'),
]
# entry -> functions that must be reachable from it (so that the error can surface through the API)
REACH = [
    ('abe_policy::access_structure::AccessStructure::add_attribute', 'abe_policy::dimension::Dimension::add_attribute'),
    ('abe_policy::access_structure::AccessStructure::del_attribute', 'abe_policy::dimension::Dimension::remove_attribute'),
    ('abe_policy::access_structure::AccessStructure::rename_attribute', 'abe_policy::dimension::Dimension::rename_attribute'),
    ('abe_policy::access_structure::AccessStructure::disable_attribute', 'abe_policy::dimension::Dimension::disable_attribute'),
    ('<api::Covercrypt as traits::KemAc<SHARED_SECRET_LENGTH>>::encaps', 'core::MasterPublicKey::select_subkeys'),
    ('<api::Covercrypt as traits::KemAc<SHARED_SECRET_LENGTH>>::encaps', 'abe_policy::access_structure::AccessStructure::get_attribute'),
    ('api::Covercrypt::generate_user_secret_key', 'core::MasterSecretKey::get_latest_right_sk'),
    ('api::Covercrypt::generate_user_secret_key', 'abe_policy::dimension::Dimension::restrict'),
    ('api::Covercrypt::rekey', 'core::primitives::rekey'),
    ('api::Covercrypt::update_msk', 'core::primitives::update_msk'),
    ('api::Covercrypt::refresh_usk', 'core::primitives::verify'),
    ('api::Covercrypt::refresh_usk', 'core::TracingSecretKey::refresh_id'),
    ('api::Covercrypt::recaps', 'core::primitives::full_decaps'),
    ('abe_policy::dimension::Dimension::rename_attribute', 'data_struct::dictionary::Dict::<K, V>::update_key'),
]


_CG = {}


def error_sites(F, key):
    """Counter of Error variants constructed by a function, its closures and every crate function it
    reaches (so that moving a check into a helper does not change the count)."""
    cnt = Counter()
    other = 0
    if id(F) not in _CG:
        _CG.clear()
        _CG[id(F)] = lib.CallGraph(F)
    keys = _CG[id(F)].reachable([key])
    for fb in [F.bodies[k] for k in sorted(keys)]:
        for b in sorted(fb.live_blocks()):
            for st in fb.stmts(b):
                rv = st['rv']
                if rv['k'] == 'agg' and rv.get('adt', '').endswith(ERR):
                    cnt[rv['variant']] += 1
                elif rv['k'] == 'agg' and rv.get('adt', '').endswith('data_struct::error::Error'):
                    other += 1
            t = fb.term(b)
            if t['k'] == 'call':
                c = fb.call_at(b)
                if c.is_(r'data_struct::error::Error::(missing_entry|existing_entry)$'):
                    other += 1
    return cnt, other


def arms_without_site(F, fn, variant):
    """Variants of `self` (the dimension kind) from whose match arm no site raising Error::<variant> can be reached.  A function
    that does not branch on the kind treats all kinds alike: nothing is missing as long as one site exists."""
    body = F.bodies[fn]

    def raises(fb):
        for b in fb.live_blocks():
            for st in fb.stmts(b):
                rv = st['rv']
                if rv['k'] == 'agg' and rv.get('adt', '').endswith(ERR) and rv['variant'] == variant:
                    return True
        return False
    if id(F) not in _CG:
        _CG.clear()
        _CG[id(F)] = lib.CallGraph(F)
    site_blocks = set()
    for b in sorted(body.live_blocks()):
        if any(st['rv']['k'] == 'agg' and st['rv'].get('adt', '').endswith(ERR) and st['rv']['variant'] == variant for st in body.stmts(b)):
            site_blocks.add(b)
        c = body.call_at(b)
        if c is not None:
            tg = [cb.key for (_i, cb, _rv) in lib.closure_args(F, c)]
            g = lib.local_callee(F, c)
            if g is not None and g.key != fn:
                tg.append(g.key)
            for k in tg:
                if any(raises(F.bodies[x]) for x in _CG[id(F)].reachable([k]) if x in F.bodies):
                    site_blocks.add(b)
    missing = []
    for b in sorted(body.live_blocks()):
        t = body.term(b)
        if t['k'] != 'switch' or not is_place(t['d']):
            continue
        _, d = lib.resolve_copy(body, op_local(t['d']))
        if d is None or d.kind != 'assign' or d.rv['k'] != 'discr':
            continue
        ty = body.local_ty(d.rv['pl']['l'])
        adt = ty.replace('&mut ', '').replace('&', '').strip()
        if adt not in F.adts or not adt.endswith('Dimension'):
            continue
        names = [v['name'] for v in F.adts[adt]['variants']]
        seen = set()
        for v, tgt in t['cases']:
            seen.add(v)
            if not (body.reach(tgt) & site_blocks):
                missing.append(names[v] if v < len(names) else str(v))
        rest = [nm for i, nm in enumerate(names) if i not in seen]
        if rest and t.get('else') is not None and body.term(t['else'])['k'] != 'unreachable' and not (body.reach(t['else']) & site_blocks):
            missing += rest
        break
    return missing


@rule('C09', 'contract-table', configs=('default', 'p256'))
def contract_table(ctx, only=None):
    F = ctx.F
    CG = lib.CallGraph(F)
    n = 0
    only_re = re.compile(only) if only else None
    for (fn, variant, k, doc) in CONTRACT:
        if only_re is not None and not only_re.search(fn):
            continue
        if fn not in F.bodies:
            ctx.bad(fn, 'anchor-missing', 'function %s named by the contract table is gone' % fn)
            continue
        cnt, other = error_sites(F, fn)
        got = cnt.get(variant, 0) if variant else other
        n += 1
        if k == 'each-kind':
            missing = arms_without_site(F, fn, variant)
            ctx.check(got >= 1 and not missing, fn, 'fails with %s (%s)' % (variant, doc),
                      '%s raises %s on %d site(s) but not for the dimension kind(s) %s (%s): the documented failure was removed and '
                      'the operation now succeeds silently there' % (fn, variant, got, missing, doc),
                      'a %s site is reachable from every arm of the match on the dimension kind' % variant, F.bodies[fn].where())
            continue
        ctx.check(got >= k, fn, 'fails with %s (%s)' % (variant or 'a dictionary error', doc),
                  '%s has %d site(s) raising %s, the contract needs %d (%s): the documented failure was removed and the '
                  'operation now succeeds silently' % (fn, got, variant or 'a dictionary error', k, doc),
                  '%d site(s)' % got, F.bodies[fn].where())
    for (entry, callee) in REACH:
        if only_re is not None and not only_re.search(entry):
            continue
        if entry not in F.bodies or callee not in F.bodies:
            ctx.bad(entry, 'anchor-missing', '%s or %s is gone' % (entry, callee))
            continue
        n += 1
        ctx.check(callee in CG.reachable([entry]), entry, 'reaches %s' % callee.split('::')[-1],
                  '%s no longer reaches %s, whose documented failure therefore cannot surface' % (entry, callee),
                  'reachable', F.bodies[entry].where())
    ctx.floor(n, 35 if only_re is None else 8, 'contract rows')
    # the error produced by each documented check is propagated to the caller of the family root
    for (fn, variant, k, doc) in CONTRACT:
        if fn not in F.bodies or variant is None or (only_re is not None and not only_re.search(fn)):
            continue
        body = F.bodies[fn]
        if not lib.returns_result(body) and 'Iterator' not in body.locals[0]['ty'] and 'impl ' not in body.locals[0]['ty']:
            ctx.bad(fn, 'returns Result', '%s no longer returns a Result: its documented failure cannot be reported' % fn, body.where())


RESULT_ERR = re.compile(r'^std::result::Result<.*(error::Error|CryptoCoreError|data_struct::error::Error)>$')
SWALLOW = r'^std::result::Result::<T, E>::(ok|unwrap_or|unwrap_or_default|unwrap_or_else|is_ok|is_err|err|iter|into_iter|map_or|map_or_else)$'


def uses_of(body, l):
    n = 0
    for b in sorted(body.live_blocks()):
        for st in body.stmts(b):
            rv = st['rv']
            ops = []
            if rv['k'] in ('use', 'cast', 'un', 'repeat'):
                ops = [rv['a']]
            elif rv['k'] == 'bin':
                ops = [rv['a'], rv['b']]
            elif rv['k'] == 'agg':
                ops = rv['ops']
            elif rv['k'] in ('ref', 'rawptr'):
                if rv['pl']['l'] == l:
                    n += 1
            elif rv['k'] == 'discr':
                continue
            for o in ops:
                if is_place(o) and op_local(o) == l:
                    n += 1
        t = body.term(b)
        if t['k'] == 'call':
            for a in t['args']:
                if is_place(a) and op_local(a) == l:
                    n += 1
        elif t['k'] == 'switch' and is_place(t['d']) and op_local(t['d']) == l:
            n += 1
    return n


def fn_item_refs(body):
    out = []
    for b in sorted(body.live_blocks()):
        t = body.term(b)
        if t['k'] == 'call':
            for a in t['args']:
                if 'c' in a and 'fn' in a['c']:
                    out.append((a['c']['fn'], t['ln']))
        for st in body.stmts(b):
            rv = st['rv']
            ops = [rv['a']] if rv['k'] == 'use' else (rv['ops'] if rv['k'] == 'agg' else [])
            for o in ops:
                if 'c' in o and 'fn' in o['c']:
                    out.append((o['c']['fn'], st['ln']))
    return out


@rule('C09', 'no-swallow', configs=('default', 'p256'))
def no_swallow(ctx, only=None):
    F = ctx.F
    n = 0
    for body in (only if only is not None else F.fns()):
        if 'serde' in body.key or body.key.startswith('test_utils'):
            continue
        for (fn, ln) in fn_item_refs(body):
            if re.search(SWALLOW, fn['def']) and len(fn.get('gargs', [])) >= 2 and re.search(r'(error::Error|CryptoCoreError)$', fn['gargs'][1]):
                ctx.bad(body.root or body.key, 'swallowed-by(%s)' % fn['name'],
                        'an error of the crate is discarded by passing `%s` as a function (line %d): a failure becomes None / a default '
                        'instead of being reported' % (fn['name'], ln), body.where(ln))
        for c in body.calls():
            if c.dest['p']:
                continue
            ty = body.local_ty(c.dest['l'])
            if not RESULT_ERR.match(ty):
                continue
            n += 1
            root = body.root or body.key
            if c.dest['l'] == 0:
                continue
            u = uses_of(body, c.dest['l'])
            if u == 0:
                ctx.bad(root, 'discarded(%s)' % (c.name,), 'the Result of %s (line %d) is discarded: its error is swallowed' % (c.full[:70], c.ln),
                        c.where())
        for c in body.calls(SWALLOW):
            st = c.fn.get('gargs', [])
            if len(st) >= 2 and re.search(r'(error::Error|CryptoCoreError)$', st[1]):
                ctx.bad(body.root or body.key, 'swallowed-by(%s)' % c.name,
                        'an error of the crate is turned into a default / Option by `%s` (line %d) instead of being propagated' % (c.name, c.ln),
                        c.where())
    ctx.ok('-', 'no crate error is swallowed', '%d Result-producing calls examined' % n, '')
    ctx.floor(n, 150 if only is None else 1, 'calls producing a crate Result')


@rule('C09', 'refresh-total', configs=('default', 'p256'))
def refresh_total(ctx):
    F = ctx.F
    rb = F.fn('core::primitives::refresh')
    ALLOWED = (r'primitives::verify$', r'TracingSecretKey::refresh_id$', r'primitives::sign$')
    n = 0
    for fb in F.family(rb.key):
        for e in lib.error_exits(fb):
            if e.kind == 'relay':
                continue
            n += 1
            if e.kind == 'explicit':
                ctx.bad(rb.key, 'explicit %s' % e.desc, 'refresh fails with an explicit %s (line %d): refreshing an issued key must '
                        'succeed whatever was rekeyed, pruned or deleted' % (e.desc, e.ln), fb.where(e.ln))
                continue
            src = e.src_call
            ok = src is not None and src.is_(*ALLOWED)
            ctx.check(ok, rb.key, 'error source %s' % (lib_short(src) if src else '?'),
                      'an error of `%s` (line %d) can propagate out of refresh: only a forged key (verify) or an unknown id '
                      '(refresh_id) may make it fail, not the state of the rights' % (src.full[:80] if src else e.desc, e.ln),
                      'documented failure', fb.where(e.ln))
    ctx.floor(n, 2, 'error exits of refresh')


def lib_short(c):
    s = re.sub(r'<[^<>]*>', '', c.defp or c.full)
    s = re.sub(r'<[^<>]*>', '', s)
    return '::'.join([p for p in s.split('::') if p][-2:])


@rule('C09', 'delegated', configs=('default', 'p256'))
def delegated(ctx):
    """Two documented outcomes rest on rules owned by sibling properties: 'a forged user key' is rejected
    (C08.verify-first: verify accepts only on the equal edge, before anything else happens), and encapsulation for
    published rights succeeds (C11.selection: the all-hybridized flag is cleared only by a non-hybridized key, so the
    internal 'all subkeys should be hybridized' error of h_encaps is unreachable)."""
    from . import c08, c11, c06
    # "encapsulation for a disabled attribute fails": nothing is published for a right whose newest secret is deactivated
    c06.publish_guard(ctx)
    c08.verify_first(ctx)
    # "refresh ... fails for a forged user key": the MAC it is checked against covers id, rights and secrets
    c08.mac_covers(ctx)
    c08.mac_covers_every_element(ctx)
    c11.selection(ctx)
    # "encryption for a disabled right fails" / "refreshing an issued key succeeds": the status written by update_msk and the one
    # read by mpk() sit on the same (newest) end of a chain, and a stored key comes back with its chains in the order that was signed
    from . import c04, c13, c03
    c04.orientation(ctx)
    # "key generation / rekey for rights of a freshly added attribute succeed": update_msk gave every new right a secret
    c03.update_visits_every_right(ctx)
    c13.restricted(ctx, r'(core::UserSecretKey)$', [c13.order, c13.read_loop_keeps_every_element, c13.read_keeps_every_element])


LOOKUPS = r'::(contains_key|get|get_mut|get_key_value|entry|insert|remove|contains|get_latest|get_latest_mut)$'
# (function, error variant): the documented failure is decided by a lookup in the receiver's own container
SELF_LOOKUP_ROWS = [
    ('abe_policy::dimension::Dimension::add_attribute', 'OperationNotPermitted'),
    ('abe_policy::dimension::Dimension::add_attribute', 'AttributeNotFound'),
    ('abe_policy::access_structure::AccessStructure::add_anarchy', 'ExistingDimension'),
    ('abe_policy::access_structure::AccessStructure::add_hierarchy', 'ExistingDimension'),
]


@rule('C09', 'failure-decided-by-own-lookup')
def failure_decided_by_own_lookup(ctx):
    """'adding a duplicate dimension or attribute ... fails': the branch that raises the error tests membership in the
    structure being edited (a lookup whose receiver is rooted at `self`), not in a partial copy built on the way — a duplicate
    that sits outside the copy would be accepted and silently re-ranked."""
    from .c02 import root_descr
    F = ctx.F
    n = 0
    for (fn, variant) in SELF_LOOKUP_ROWS:
        body = F.fn(fn)
        exits = [e for fb in lib.family_ext(F, fn) for e in lib.error_exits(fb) if e.kind == 'explicit' and e.variant == variant and fb is body]
        for e in exits:
            n += 1
            ok = False
            for sb in sorted(body.live_blocks()):
                t = body.term(sb)
                if t['k'] != 'switch' or len(body.succs[sb]) < 2 or e.b not in body.reach(sb):
                    continue
                if not any(body.edge_dominates((sb, s), e.b) for s in body.succs[sb]):
                    continue
                sl = backward_slice(body, [t['d']], follow_mutarg=False)
                for c in sl.has_call(LOOKUPS):
                    if c.args and any(r[0] == 'param' and r[1] == 1 for r in root_descr(body, c.args[0])):
                        ok = True
            ctx.check(ok, fn, '%s decided by a lookup in self' % variant,
                      'the %s raised at line %d is not decided by a membership test on the structure being edited (the test looks '
                      'into something else, e.g. a partial copy): some duplicates / unknown names are accepted' % (variant, e.ln),
                      'controlled by a lookup rooted at self', body.where(e.ln))
    ctx.floor(n, 5, 'documented membership failures of the structure edits')


@rule('C09', 'rekey-guard-polarity', configs=('default', 'p256'))
def rekey_guard_polarity(ctx):
    """'rekey ... for rights the master key does not hold' fails: the error of rekey is raised when SOME requested right is
    absent — on the absent edge of contains_key, or through any(|r| !contains) taken on its true edge / all(|r| contains) on its
    false edge.  (`!any(contains)` would only fail when NO right is held.)"""
    from ..facts import switch_on, bool_edges
    F = ctx.F
    rb = F.fn('core::primitives::rekey')
    errs = [e for fb in F.family(rb.key) for e in lib.error_exits(fb) if e.kind == 'explicit' and e.variant == 'OperationNotPermitted']
    n = 0
    for e in lib.error_exits(rb):
        if e.kind != 'explicit' or e.variant != 'OperationNotPermitted':
            continue
        n += 1
        ok = False
        why = 'it is not controlled by a membership test of the requested rights'
        # (a) direct: on the false edge of contains_key
        for c in rb.calls(r'RevisionMap::<K, V>::contains_key$'):
            for (sb, neg) in switch_on(rb, c.dest['l']):
                te, fe = bool_edges(rb, sb, neg)
                if fe and rb.edge_dominates(fe, e.b):
                    ok = True
        # (b) through any / all with a predicate closure
        for c in rb.calls(r'^std::iter::Iterator::(any|all)$'):
            pol = None
            for (_i, cb, _rv) in lib.closure_args(F, c):
                ck = cb.calls(r'RevisionMap::<K, V>::contains_key$')
                if len(ck) != 1:
                    continue
                # does the closure return the result negated?
                src, d = lib.resolve_copy(cb, 0)
                ret = backward_slice(cb, [0], follow_mutarg=False)
                negs = sum(1 for x in ret.rvs if x.kind == 'assign' and x.rv['k'] == 'un' and x.rv['op'] == 'Not')
                pol = '-' if negs % 2 == 1 else '+'
            if pol is None:
                continue
            for (sb, neg) in switch_on(rb, c.dest['l']):
                te, fe = bool_edges(rb, sb, neg)
                on_true = te is not None and rb.edge_dominates(te, e.b)
                on_false = fe is not None and rb.edge_dominates(fe, e.b)
                good = (c.name == 'any' and pol == '-' and on_true) or (c.name == 'all' and pol == '+' and on_false)
                if good:
                    ok = True
                elif on_true or on_false:
                    why = 'it is raised on the %s edge of %s(|r| %scontains_key(r)): that is "%s", not "some requested right is absent"' % (
                        'true' if on_true else 'false', c.name, '!' if pol == '-' else '',
                        {('any', '+', True): 'some right is held', ('any', '+', False): 'no right is held', ('any', '-', False): 'all rights are held',
                         ('all', '+', True): 'all rights are held', ('all', '-', True): 'no right is held', ('all', '-', False): 'some right is held'}.get(
                            (c.name, pol, on_true), '?'))
        ctx.check(ok, rb.key, 'error <=> some requested right is absent',
                  'the OperationNotPermitted error of rekey (line %d) does not fire exactly when a requested right is missing: %s' % (e.ln, why),
                  'absent edge of contains_key / any(!contains) / all(contains)', rb.where(e.ln))
    ctx.floor(n, 1, 'OperationNotPermitted sites in rekey')


@rule('C09', 'lookups-consistent')
def lookups_consistent(ctx):
    """'Unknown attribute -> error, success otherwise' needs the ordered dictionary behind hierarchies to keep names and positions
    consistent across removals (C03.dict-remove-shifts)."""
    from . import c03
    c03.dict_remove_shifts(ctx)


@rule('C09', 'instance-is-stateless')
def instance_is_stateless(ctx):
    """'Each operation returns an error exactly in the documented situations': the outcome is decided by the arguments of the call, not by what the same instance was used for before. Structurally: the scheme instance holds its random generator and nothing else — no cache, no memo, no static, no
    thread-local (C19.state-audit)."""
    from . import c19
    c19.state_audit(ctx)
