"""E-TRANS — abstract hash transcripts.

For a function (with its closures) every hasher instance (tiny_keccak Sha3 / Kmac,
identified by its constructor call) gets the ordered list of its `update` inputs up
to `finalize`.  An input is abstracted as (kind, datum type, projection, origin):
kind is 'one' or 'iter' (update inside a closure run by an iterator method, or in a
loop); the datum type is the Rust type before serialize()/deref; projection is the
tuple field of the iterated element; origin names where the datum comes from
(parameter / field path / output of an earlier hasher)."""
import re

from .facts import (op_local, op_place, is_place, backward_slice, copy_chain_sources, IDENTITY_CALLS,
                    proj_names, field_path)
from . import lib

CTOR = (r'^tiny_keccak::Sha3::v\d+$', r'^tiny_keccak::Kmac::v\d+$', r'^(tiny_keccak|cosmian_crypto_core)::(Shake|Keccak|CShake)::v\d+$')
UPDATE = (r'Hasher::update$',)
FINALIZE = (r'Hasher::finalize$',)
DEREFS = (r'^std::ops::Deref::deref$', r'^std::ops::DerefMut::deref_mut$', r'^std::convert::AsRef::as_ref$',
          r'^std::borrow::Borrow::borrow$', r'^std::vec::Vec::<[^>]*>::as_slice$', r'^std::vec::Vec::<[^>]*>::as_mut_slice$',
          r'^std::string::String::as_str$', r'^std::string::String::as_bytes$', r'^core::str::<impl str>::as_bytes$')


def strip_ref(t):
    return re.sub(r"^&('[a-z_0-9]+ )?(mut )?", '', t or '')


LAST_ROOT = [('', ())]
LAST_LOCAL = [(None, None)]


class Hasher:
    def __init__(self, ctor):
        self.ctor = ctor
        self.pos = 0
        self.inlined_from = None
        self.algo = ctor.full.split('::', 1)[1] if '::' in ctor.full else ctor.full
        self.events = []
        self.out_local = None
        self.out_name = None
        self.finalize = None

    def sig(self):
        return [e.sig() for e in self.events]


class Upd:
    __slots__ = ('kind', 'dtype', 'proj', 'origin', 'call', 'body', 'rb', 'cond', 'via', 'root_ty', 'root_path', 'root_local', 'inl')

    def sig(self):
        return (self.kind, self.dtype, self.proj, self.origin)

    def __repr__(self):
        return '%s[%s]%s:%s' % (self.kind, self.origin, ('.%s' % self.proj) if self.proj is not None else '', self.dtype)


def base_of(body, op, depth=0):
    """Follow refs / moves / casts / Deref calls back to the place the bytes come from.
    Returns (local, field path, serialize_call or None, deref_of_type or None)."""
    ser = None
    dty = None
    path = ()
    cur = op_place(op) if is_place(op) else None
    if cur is None:
        return None, (), None, None
    l = cur['l']
    path = field_path(cur)
    first_ty = [None]

    def note(loc):
        if first_ty[0] is None:
            ty = strip_ref(body.local_ty(loc))
            ty = strip_ref(ty)
            if ty not in ('[u8]', 'std::vec::Vec<u8>') and not ty.startswith('zeroize::Zeroizing') and not ty.startswith('std::result::Result'):
                first_ty[0] = ty
    for _ in range(30):
        note(l)
        if body.is_param(l):
            break
        ds = [d for d in body.defs().get(l, []) if d.kind != 'mutarg' and d.via is None and not (d.lhs and d.lhs['p'])]
        if len(ds) > 1 and path and str(path[0]) in ('@Ok', '@Some', '@Continue'):
            # the success payload of a Result / Option assembled on several paths (an inlined helper's return value): the
            # definitions that build the other variant cannot supply it
            keep = []
            for d in ds:
                if d.kind == 'call' and d.call.is_(r'^std::ops::FromResidual::from_residual$'):
                    continue
                if d.kind == 'assign' and d.rv['k'] == 'agg' and 'vi' in d.rv and '@' + d.rv['variant'] != path[0]:
                    continue
                keep.append(d)
            ds = keep
        if len(ds) != 1:
            break
        d = ds[0]
        if d.kind == 'assign':
            rv = d.rv
            if rv['k'] == 'use' and is_place(rv['a']):
                pl = op_place(rv['a'])
                path = field_path(pl) + path
                l = pl['l']
                continue
            if rv['k'] in ('ref', 'rawptr'):
                pl = rv['pl']
                path = field_path(pl) + path
                l = pl['l']
                continue
            if rv['k'] == 'cast' and is_place(rv['a']):
                pl = op_place(rv['a'])
                path = field_path(pl) + path
                l = pl['l']
                continue
            if rv['k'] == 'agg' and rv.get('tuple') and path and str(path[0]).isdigit() and int(path[0]) < len(rv['ops']) \
                    and is_place(rv['ops'][int(path[0])]):
                pl = op_place(rv['ops'][int(path[0])])
                path = field_path(pl) + tuple(path[1:])
                l = pl['l']
                continue
            if rv['k'] == 'agg' and 'vi' in rv and len(path) >= 2 and path[0] == '@' + rv['variant'] and path[1] in rv.get('fields', []) \
                    and is_place(rv['ops'][rv['fields'].index(path[1])]):
                pl = op_place(rv['ops'][rv['fields'].index(path[1])])
                path = field_path(pl) + tuple(path[2:])
                l = pl['l']
                continue
            break
        else:
            c = d.call
            if c.is_(r'bytes_ser_de::Serializable::serialize$') and ser is None:
                ser = c
                pl = op_place(c.args[0])
                l, path = pl['l'], field_path(pl)
                continue
            if c.is_(r'^std::ops::Try::branch$') and c.args and is_place(c.args[0]):
                pl = op_place(c.args[0])
                if tuple(path[:2]) == ('@Continue', '0'):
                    inner = ('@Ok', '0') if (c.self_ty or '').startswith('std::result::Result<') else ('@Some', '0')
                    l, path = pl['l'], field_path(pl) + inner + tuple(path[2:])
                else:
                    l, path = pl['l'], ()
                continue
            if c.is_(*DEREFS) and c.args and is_place(c.args[0]):
                st = strip_ref(c.self_ty or '')
                if dty is None and ser is None and not st.startswith(('std::vec::Vec', 'zeroize::Zeroizing')):
                    dty = st
                pl = op_place(c.args[0])
                l, path = pl['l'], field_path(pl)
                continue
            break
    if dty is None and ser is None:
        dty = first_ty[0]
    return l, tuple(path), ser, dty


def base_alternatives(body, op, depth=0):
    """Like base_of, but when the walk stops at a local assigned a tuple in several places (the arms of a `match` that binds
    `(sk, Some(dk))` / `(sk, None)`), continues through each of them: [(local, path, serialize call, deref type)]."""
    l, path, ser, dty = base_of(body, op)
    if l is None or depth > 3 or body.is_param(l) or not path or not str(path[0]).isdigit():
        return [(l, path, ser, dty)]
    ds = [d for d in body.defs().get(l, []) if d.kind == 'assign' and d.via is None and not d.lhs['p']]
    if len(ds) < 2 or not all(d.rv['k'] == 'agg' and d.rv.get('tuple') and int(path[0]) < len(d.rv['ops']) for d in ds):
        return [(l, path, ser, dty)]
    out = []
    for d in ds:
        o = d.rv['ops'][int(path[0])]
        if not is_place(o):
            continue
        pl = op_place(o)
        synth = []
        for tok in path[1:]:
            tok = str(tok)
            if tok.startswith('@'):
                synth.append({'dc': tok[1:], 'vi': -1})
            else:
                synth.append({'f': int(tok) if tok.isdigit() else -1, 'n': tok, 'o': '', 'ty': ''})
        sub = {'cp': {'l': pl['l'], 'p': list(pl['p']) + synth}}
        for (l2, p2, s2, d2) in base_alternatives(body, sub, depth + 1):
            if l2 is None:
                continue
            # an arm that binds the other variant (`None` where `Some(x)` is followed) supplies nothing
            if p2 and str(p2[0]).startswith('@') and not body.is_param(l2):
                dd = [d for d in body.defs().get(l2, []) if d.kind == 'assign' and not d.lhs['p']]
                if dd and all(d.rv['k'] == 'agg' and 'vi' in d.rv and '@' + d.rv['variant'] != p2[0] for d in dd):
                    continue
            out.append((l2, tuple(p2), ser or s2, dty or d2))
    out.sort(key=lambda a: 0 if body.is_param(a[0]) else 1)
    return out or [(l, path, ser, dty)]


def hasher_id(F, body, op, depth=0):
    """(root body, constructor Call) of the hasher an `update` receiver refers to."""
    if depth > 5:
        return None
    l, path, _s, _d = base_of(body, op)
    if l is None:
        return None
    if body.kind == 'Closure' and l == 1:
        # captured: find the environment field
        sl = backward_slice(body, [op], follow_mutarg=False)
        for pl in sl.places:
            f = lib.env_field_of(pl)
            if f is not None:
                pb, cop = lib.upvar_operand(F, body, f)
                if pb is not None and cop is not None and is_place(cop):
                    r = hasher_id(F, pb, cop, depth + 1)
                    if r is not None:
                        return r
        return None
    for d in body.defs().get(l, []):
        if d.kind == 'call' and d.call.is_(*CTOR):
            return (body, d.call)
    return None


def origin_of(F, body, l, path, outs, depth=0):
    LAST_ROOT[0] = (body.local_ty(l) if l is not None else '', tuple(path))
    LAST_LOCAL[0] = (body, l)
    """Human / comparable name of where a datum comes from."""
    if body.is_param(l) and not (body.kind == 'Closure' and l == 1):
        nm = body.var_name(l) or 'arg%d' % l
        return 'param:' + nm, path
    if body.kind == 'Closure' and l == 1 and path:
        nm = re.sub(r'^_ref__', '', path[0])
        return 'captured:' + nm, path[1:]
    if l in outs:
        return 'hash-output#%d' % outs[l], path
    # loop variable: element of what is iterated
    for d in body.defs().get(l, []):
        if d.kind == 'call' and d.call.is_(r'^std::iter::Iterator::next$') and depth < 4:
            src = chain_source(F, body, d.call.args[0])
            sfx = chain_suffix()
            if src is not None:
                o, rest = origin_of(F, body, src[0], src[1], outs, depth + 1)
                inner = o + ''.join('.' + x for x in rest) + sfx
                p2 = tuple(x for x in path if x not in ('@Some',))
                if p2 and p2[0] == '0' and path[:2] == ('@Some', '0'):
                    p2 = p2[1:]
                return 'elem(%s)' % inner, p2
    nm = body.var_name(l)
    for d in body.defs().get(l, []):
        if d.kind == 'call':
            return 'local:%s<-%s' % (nm or '_', (d.call.name or '?')), path
    return 'local:%s' % (nm or '_%d' % l), path


CHAIN_FLAGS = [set()]


def chain_suffix():
    """'~rev' / '~partial' when the last chain walked by chain_source does not visit the collection in its own order / entirely."""
    fl = CHAIN_FLAGS[0]
    return ''.join('~' + x for x in sorted(fl))


def chain_source(F, body, op, depth=0):
    """Walk an iterator value back through adaptors to the collection it iterates:
    (local, path) of that collection, or None.  Records in CHAIN_FLAGS whether an adaptor on the way reverses the order
    (`rev`, an odd number of times) or drops elements (skip / take / step_by / filter ...)."""
    if depth == 0:
        CHAIN_FLAGS[0] = set()
    if depth > 10 or not is_place(op):
        return None
    l, path, _s, _d = base_of(body, op)
    if l is None:
        return None
    ds = [d for d in body.defs().get(l, []) if d.kind == 'call']
    if body.is_param(l) or not ds:
        return (l, path)
    c = ds[0].call
    if c.is_(r'^std::iter::(Iterator::(map|filter|filter_map|enumerate|zip|rev|skip|take|by_ref|peekable|cloned|copied|inspect)|'
             r'IntoIterator::into_iter)$', r'::(iter|iter_mut|values|keys|into_keys|drain)$') and c.args:
        cal = lib.local_callee(F, c)
        if cal is not None and not c.is_(r'^std::'):
            # crate-local iter(): the receiver is the collection
            l2, p2, _s, _d = base_of(body, c.args[0])
            return (l2, p2)
        if c.is_(r'^std::iter::Iterator::rev$'):
            CHAIN_FLAGS[0] ^= {'rev'}
        return chain_source(F, body, c.args[0], depth + 1)
    if c.is_(r'^std::iter::Iterator::(skip|take|step_by|filter|filter_map|skip_while|take_while|map_while|chain|cycle|flat_map|flatten)$') and c.args:
        CHAIN_FLAGS[0] |= {'partial'}
        return chain_source(F, body, c.args[0], depth + 1)
    return (l, path)


def closure_elem_origin(F, cb, outs, depth=0):
    """`elem(<origin of what is iterated>)` for the element parameter of a closure run by an iterator consumer; the iterated
    collection is named in the enclosing function — recursively when the consumer itself sits in such a closure."""
    if depth > 4:
        return None
    cs = [x for x in lib.closure_consumers(F, cb)]
    if not cs:
        return None
    (pb, cc, _idx) = cs[0]
    if not cc.is_(r'^std::iter::Iterator::') or not cc.args:
        return None
    src = chain_source(F, pb, cc.args[0])
    sfx = chain_suffix()
    if src is None:
        return None
    (sl, sp) = src
    if pb.kind == 'Closure' and sl is not None and sl >= 2 and pb.is_param(sl):
        outer = closure_elem_origin(F, pb, outs, depth + 1)
        if outer is None:
            return None
        inner = outer + ''.join('.' + x for x in sp)
    else:
        org, rest = origin_of(F, pb, sl, sp, outs)
        inner = org + ''.join('.' + x for x in rest)
    return 'elem(%s)' % (inner + sfx)


def iter_source(F, pb, consumer):
    if consumer.args:
        src = chain_source(F, pb, consumer.args[0])
        ety = strip_ref(consumer.self_ty or '')
        m = re.search(r"Iter<'_, (.*)>$", ety)
        if src is not None:
            return src, (m.group(1) if m else ety)
    return _iter_source_old(F, pb, consumer)


def _iter_source_old(F, pb, consumer):
    """What an iterator-method consumer iterates over: (origin string, element type)."""
    if not consumer.args:
        return '?', ''
    recv = consumer.args[0]
    sl = backward_slice(pb, [recv], follow_mutarg=False)
    its = [c for c in sl.calls if c.is_(r'::iter$', r'^std::iter::IntoIterator::into_iter$', r'::iter_mut$', r'::values$', r'::keys$')]
    ety = strip_ref(consumer.self_ty or '')
    m = re.search(r"Iter<'_, (.*)>$", ety)
    elem = m.group(1) if m else ety
    if not its:
        return '?', elem
    c0 = its[-1]
    l, path, _s, _d = base_of(pb, c0.args[0])
    return (l, path), elem


NAMED_DIGESTS = re.compile(r'primitives::(H_hash|J_hash|G_hash)$')


def transcripts(F, root, depth=0):
    """[Hasher] for function `root` (closures included), events in source order.  Hashers living in
    crate-local helper functions called from `root` (other than the scheme's named digests) are inlined:
    their inputs are re-expressed in terms of the caller's arguments, their output is the call's result."""
    hl = _transcripts_local(F, root)
    if depth >= 2:
        return hl
    from .props.c13 import rpo
    order = {b: i for i, b in enumerate(rpo(root))}
    outs = {}
    extra = []
    for c in root.calls():
        cal = lib.local_callee(F, c)
        if cal is None or cal.key == root.key or NAMED_DIGESTS.search(cal.key) or cal.kind == 'Closure':
            continue
        if not any(fb.calls(*CTOR) for fb in F.family(cal.key)):
            continue
        sub = transcripts(F, cal, depth + 1)
        ret = backward_slice(cal, [0], follow_mutarg=True)
        for h in sub:
            nh = Hasher(h.ctor)
            nh.finalize = h.finalize
            nh.inlined_from = cal.key
            nh.pos = order.get(c.b, 10 ** 6)
            if h.out_local is not None and h.out_local in ret.locals:
                nh.out_local = c.dest['l']
                nh.out_name = root.var_name(c.dest['l']) or h.out_name
            for u in h.events:
                nu = Upd()
                for s in Upd.__slots__:
                    setattr(nu, s, getattr(u, s, None))
                nu.rb = c.b
                nu.inl = (cal, u)
                nh.events.append(nu)
            extra.append((c, cal, nh))
    if not extra:
        return hl
    allh = []
    for h in hl:
        h.pos = order.get(h.ctor.b, 0)
        allh.append(h)
    for (_c, _cal, nh) in extra:
        allh.append(nh)
    allh.sort(key=lambda h: h.pos)
    for i, h in enumerate(allh):
        if h.out_local is not None:
            outs[h.out_local] = i + 1
    # re-express the inlined inputs in the caller's terms
    for (c, cal, nh) in extra:
        for nu in nh.events:
            (cal_b, u) = nu.inl
            rl, rp = getattr(u, 'root_local', None), tuple(getattr(u, 'root_path', ()) or ())
            if rl is not None and cal_b.is_param(rl) and rl - 1 < len(c.args) and is_place(c.args[rl - 1]):
                l2, p2, _s, _d = base_of(root, c.args[rl - 1])
                if l2 is not None:
                    org, rest = origin_of(F, root, l2, tuple(p2) + rp, outs)
                    pre = ''
                    m = re.match(r'^((?:elem\()*)', u.origin)
                    nu.origin = org + (''.join('.' + x for x in rest) if rest else '')
                    if u.origin.startswith('elem('):
                        nu.origin = 'elem(%s)' % nu.origin
                    nu.root_ty, nu.root_path = LAST_ROOT[0]
    # local hashers may consume outputs of inlined ones: recompute their 'hash-output' origins
    for h in hl:
        for u in h.events:
            rl = getattr(u, 'root_local', None)
            if rl is not None and u.body is root and rl in outs:
                u.origin = 'hash-output#%d' % outs[rl]
    return allh


def _transcripts_local(F, root):
    """[Hasher] for function `root` (closures included), events in source order."""
    from .props.c13 import rpo, loop_depths
    fam = F.family(root.key)
    hs = {}
    order = {b: i for i, b in enumerate(rpo(root))}
    depth, _dom = loop_depths(root)
    for c in root.calls(*CTOR):
        hs[c.b] = Hasher(c)
    outs = {}
    # finalize calls (root body only)
    for c in root.calls(*FINALIZE):
        hid = hasher_id(F, root, c.args[0])
        if hid is None or hid[1].b not in hs:
            continue
        h = hs[hid[1].b]
        h.finalize = c
        if len(c.args) > 1:
            l, path, _s, _d = base_of(root, c.args[1])
            h.out_local = l
            h.out_name = root.var_name(l)
    hlist = sorted(hs.values(), key=lambda h: order.get(h.ctor.b, 0))
    for i, h in enumerate(hlist):
        if h.out_local is not None:
            outs[h.out_local] = i + 1
    for body in fam:
        for c in body.calls(*UPDATE):
            hid = hasher_id(F, body, c.args[0])
            if hid is None or hid[0] is not root or hid[1].b not in hs:
                continue
            h = hs[hid[1].b]
            u = Upd()
            u.call, u.body = c, body
            alts = base_alternatives(body, c.args[1])
            l, path, ser, dty = alts[0]
            u.via = 'serialize' if ser is not None else None
            if ser is not None:
                u.dtype = strip_ref(ser.self_ty or '')
            elif dty is not None:
                u.dtype = dty
            else:
                u.dtype = strip_ref(body.local_ty(l)) if l is not None else '?'
            u.proj = None
            if body is root:
                u.rb = c.b
                u.kind = 'iter' if depth.get(c.b, 0) > 0 else 'one'
                org, rest = origin_of(F, body, l, path, outs)
                u.origin = org + (''.join('.' + x for x in rest) if rest else '')
            else:
                # closure: position and iteration source from the consuming call in the root
                cur = body
                cons = None
                for _ in range(5):
                    cs = [x for x in lib.closure_consumers(F, cur)]
                    if cs and cs[0][0] is root:
                        cons = cs[0]
                        break
                    if not cs:
                        break
                    cur = cs[0][0]
                if cons is None:
                    u.rb, u.kind, u.origin = None, 'iter', '?'
                else:
                    (pb, cc, idx) = cons
                    u.rb = cc.b
                    if cc.is_(r'^std::iter::Iterator::'):
                        u.kind = 'iter'
                        if l is not None and l >= 2 and body.is_param(l):
                            # the element handed to the closure: named exactly like the variable of the equivalent `for` loop,
                            # `elem(<what is iterated>)<.path>`, through nested closures as through nested loops
                            eo = closure_elem_origin(F, body, outs)
                            if eo is not None:
                                u.origin = eo + ''.join('.' + x for x in path)
                            else:
                                src, elem = iter_source(F, pb, cc)
                                sfx = chain_suffix()
                                if isinstance(src, tuple):
                                    org, rest = origin_of(F, pb, src[0], src[1], outs)
                                    u.origin = 'elem(%s)' % (org + (''.join('.' + x for x in rest) if rest else '') + sfx)
                                else:
                                    u.origin = src
                            u.proj = '.'.join(x for x in path if not x.startswith('@')) or None
                        else:
                            src, elem = iter_source(F, pb, cc)
                            sfx = chain_suffix()
                            if isinstance(src, tuple):
                                org, rest = origin_of(F, pb, src[0], src[1], outs)
                                u.origin = org + (''.join('.' + x for x in rest) if rest else '') + sfx
                            else:
                                u.origin = src
                            if l == 1:
                                org, rest = origin_of(F, body, l, path, outs)
                                u.origin = org
                                u.kind = 'iter-const'
                    else:
                        u.kind = 'one'
                        org, rest = origin_of(F, body, l, path, outs)
                        u.origin = org
            u.cond = None
            u.root_ty, u.root_path = LAST_ROOT[0]
            u.root_local = LAST_LOCAL[0][1] if LAST_LOCAL[0][0] is root else None
            u.inl = None
            if len(alts) > 1 and u.origin:
                # one update standing for several sources (one per arm of the match that bound the value): name them all
                names = []
                pre = u.origin
                first_sfx = ''.join('.' + x for x in path)
                stem = pre[:-len(first_sfx)] if first_sfx and pre.endswith(first_sfx) else None
                if stem is not None:
                    for (_l2, p2, _s2, _d2) in alts:
                        nm = stem + ''.join('.' + x for x in p2)
                        if nm not in names:
                            names.append(nm)
                    u.origin = '|'.join(names)
            h.events.append(u)
    # updates performed by a crate-local helper that receives `&mut hasher` (absorb_xxx(&mut kmac, item))
    for c in root.calls():
        cal = lib.local_callee(F, c)
        if cal is None or cal.kind == 'Closure' or cal.key == root.key:
            continue
        for ai, a in enumerate(c.args):
            if not is_place(a):
                continue
            ty = root.local_ty(op_local(a))
            if 'tiny_keccak::' not in ty and 'cosmian_crypto_core::Shake' not in ty:
                continue
            hid = hasher_id(F, root, a)
            if hid is None or hid[0] is not root or hid[1].b not in hs:
                continue
            h = hs[hid[1].b]
            for uc in cal.calls(*UPDATE):
                rl, rp, _s, _d = base_of(cal, uc.args[0])
                if rl != ai + 1:
                    continue
                u = Upd()
                u.call, u.body = uc, cal
                l, path, ser, dty = base_of(cal, uc.args[1])
                u.via = 'serialize' if ser is not None else None
                u.dtype = strip_ref(ser.self_ty or '') if ser is not None else (dty if dty is not None else
                                                                               (strip_ref(cal.local_ty(l)) if l is not None else '?'))
                u.proj = None
                u.rb = c.b
                u.kind = 'iter' if depth.get(c.b, 0) > 0 else 'one'
                u.cond = None
                u.inl = None
                if l is not None and cal.is_param(l) and l - 1 < len(c.args) and is_place(c.args[l - 1]):
                    l2, p2, _s2, _d2 = base_of(root, c.args[l - 1])
                    org, rest = origin_of(F, root, l2, tuple(p2) + tuple(path), outs)
                    u.origin = org + (''.join('.' + x for x in rest) if rest else '')
                    u.root_ty, u.root_path = LAST_ROOT[0]
                    u.root_local = LAST_LOCAL[0][1] if LAST_LOCAL[0][0] is root else None
                else:
                    org, rest = origin_of(F, cal, l, path, {})
                    u.origin = 'helper:' + org + (''.join('.' + x for x in rest) if rest else '')
                    u.root_ty, u.root_path, u.root_local = '', (), None
                h.events.append(u)
    for h in hlist:
        h.events.sort(key=lambda u: (order.get(u.rb, 10 ** 6), u.call.ln))
    return hlist
