//! ccfacts — a dumb fact exporter for the static checks of /verif.
//!
//! Injected with RUSTC_WORKSPACE_WRAPPER under `cargo +nightly check`.  For the
//! crates named in CCFACTS_CRATES (default: cosmian_cover_crypt) it writes the
//! type-checked, trait-resolved MIR of every body, plus ADT / impl tables, as
//! one JSON document `$CCFACTS_OUT/<crate>-<pid>.json` (single write).
//! All reasoning lives in /verif/analyses (python); nothing is decided here.
#![feature(rustc_private)]
extern crate rustc_abi;
extern crate rustc_driver;
extern crate rustc_hir;
extern crate rustc_interface;
extern crate rustc_middle;
extern crate rustc_span;

use rustc_driver::Compilation;
use rustc_hir::def::DefKind;
use rustc_hir::def_id::{DefId, LOCAL_CRATE};
use rustc_middle::mir::{
    self, AggregateKind, BinOp, Body, BorrowKind, CastKind, Operand, Place, PlaceElem, Rvalue,
    StatementKind, TerminatorKind, UnOp, VarDebugInfoContents,
};
use rustc_middle::ty::{self, Ty, TyCtxt};
use rustc_span::Span;
use std::fmt::Write as _;

// ---------------------------------------------------------------- tiny JSON
enum J {
    Null,
    Bool(bool),
    Num(i128),
    Str(String),
    Arr(Vec<J>),
    Obj(Vec<(&'static str, J)>),
}
fn s(x: impl Into<String>) -> J {
    J::Str(x.into())
}
fn n(x: usize) -> J {
    J::Num(x as i128)
}
impl J {
    fn write(&self, out: &mut String) {
        match self {
            J::Null => out.push_str("null"),
            J::Bool(b) => out.push_str(if *b { "true" } else { "false" }),
            J::Num(x) => {
                let _ = write!(out, "{x}");
            }
            J::Str(st) => {
                out.push('"');
                for c in st.chars() {
                    match c {
                        '"' => out.push_str("\\\""),
                        '\\' => out.push_str("\\\\"),
                        '\n' => out.push_str("\\n"),
                        '\r' => out.push_str("\\r"),
                        '\t' => out.push_str("\\t"),
                        c if (c as u32) < 0x20 => {
                            let _ = write!(out, "\\u{:04x}", c as u32);
                        }
                        c => out.push(c),
                    }
                }
                out.push('"');
            }
            J::Arr(v) => {
                out.push('[');
                for (i, x) in v.iter().enumerate() {
                    if i > 0 {
                        out.push(',');
                    }
                    x.write(out);
                }
                out.push(']');
            }
            J::Obj(v) => {
                out.push('{');
                for (i, (k, x)) in v.iter().enumerate() {
                    if i > 0 {
                        out.push(',');
                    }
                    out.push('"');
                    out.push_str(k);
                    out.push_str("\":");
                    x.write(out);
                }
                out.push('}');
            }
        }
    }
}

// ---------------------------------------------------------------- helpers
struct Cx<'tcx> {
    tcx: TyCtxt<'tcx>,
}

impl<'tcx> Cx<'tcx> {
    fn path(&self, did: DefId) -> String {
        self.tcx.def_path_str(did)
    }

    fn line(&self, sp: Span) -> J {
        let sm = self.tcx.sess.source_map();
        let lo = sm.lookup_char_pos(sp.lo());
        J::Num(lo.line as i128)
    }

    fn file_line(&self, sp: Span) -> String {
        let sm = self.tcx.sess.source_map();
        let lo = sm.lookup_char_pos(sp.lo());
        format!("{}:{}", lo.file.name.prefer_local_unconditionally(), lo.line)
    }

    fn ty(&self, t: Ty<'tcx>) -> J {
        s(format!("{t}"))
    }

    /// Structured view of a type head: adt path / closure key / ref / etc.
    fn ty_head(&self, t: Ty<'tcx>) -> J {
        match t.kind() {
            ty::Adt(adt, _) => J::Obj(vec![("adt", s(self.path(adt.did())))]),
            ty::Closure(did, _) => J::Obj(vec![("closure", s(self.path(*did)))]),
            ty::Ref(_, inner, m) => J::Obj(vec![
                ("ref", self.ty_head(*inner)),
                ("mut", J::Bool(m.is_mut())),
            ]),
            ty::RawPtr(inner, m) => J::Obj(vec![
                ("ptr", self.ty_head(*inner)),
                ("mut", J::Bool(m.is_mut())),
            ]),
            ty::FnDef(did, _) => J::Obj(vec![("fndef", s(self.path(*did)))]),
            ty::Tuple(ts) => J::Obj(vec![("tuple", n(ts.len()))]),
            ty::Array(..) => J::Obj(vec![("array", J::Bool(true))]),
            ty::Slice(..) => J::Obj(vec![("slice", J::Bool(true))]),
            ty::Param(p) => J::Obj(vec![("param", s(p.name.as_str()))]),
            ty::Dynamic(..) => J::Obj(vec![("dyn", J::Bool(true))]),
            _ => J::Obj(vec![("prim", s(format!("{t}")))]),
        }
    }

    fn place(&self, body: &Body<'tcx>, p: &Place<'tcx>) -> J {
        let tcx = self.tcx;
        let mut projs = Vec::new();
        let mut pty = mir::PlaceTy::from_ty(body.local_decls[p.local].ty);
        for elem in p.projection.iter() {
            let e = match elem {
                PlaceElem::Deref => s("*"),
                PlaceElem::Field(f, fty) => {
                    let (name, owner) = match pty.ty.kind() {
                        ty::Adt(adt, _) => {
                            let v = match pty.variant_index {
                                Some(v) => adt.variant(v),
                                None => adt.non_enum_variant(),
                            };
                            (
                                v.fields[f].name.to_string(),
                                format!("{}", self.path(adt.did())),
                            )
                        }
                        ty::Closure(did, _) => {
                            let names = tcx.closure_saved_names_of_captured_variables(*did);
                            let nm = names
                                .get(f)
                                .map(|x| x.to_string())
                                .unwrap_or_else(|| format!("{}", f.as_usize()));
                            (nm, format!("closure:{}", self.path(*did)))
                        }
                        ty::Tuple(_) => (format!("{}", f.as_usize()), "tuple".to_string()),
                        _ => (format!("{}", f.as_usize()), "?".to_string()),
                    };
                    J::Obj(vec![
                        ("f", n(f.as_usize())),
                        ("n", s(name)),
                        ("o", s(owner)),
                        ("ty", self.ty(fty)),
                    ])
                }
                PlaceElem::Downcast(name, vi) => J::Obj(vec![
                    (
                        "dc",
                        s(name.map(|x| x.to_string()).unwrap_or_else(|| "?".into())),
                    ),
                    ("vi", n(vi.as_usize())),
                ]),
                PlaceElem::Index(l) => J::Obj(vec![("idx", n(l.as_usize()))]),
                PlaceElem::ConstantIndex {
                    offset,
                    min_length,
                    from_end,
                } => J::Obj(vec![
                    ("cidx", J::Num(offset as i128)),
                    ("min", J::Num(min_length as i128)),
                    ("from_end", J::Bool(from_end)),
                ]),
                PlaceElem::Subslice { from, to, from_end } => J::Obj(vec![
                    ("sub_from", J::Num(from as i128)),
                    ("sub_to", J::Num(to as i128)),
                    ("from_end", J::Bool(from_end)),
                ]),
                PlaceElem::OpaqueCast(_) => s("opaque"),
                PlaceElem::UnwrapUnsafeBinder(_) => s("unwrap_binder"),
            };
            projs.push(e);
            pty = pty.projection_ty(tcx, elem);
        }
        J::Obj(vec![("l", n(p.local.as_usize())), ("p", J::Arr(projs))])
    }

    fn fn_ref(&self, caller: DefId, def: DefId, args: ty::GenericArgsRef<'tcx>) -> Vec<(&'static str, J)> {
        let tcx = self.tcx;
        let mut v: Vec<(&'static str, J)> = Vec::new();
        v.push(("def", s(self.path(def))));
        v.push(("full", s(tcx.def_path_str_with_args(def, args))));
        v.push((
            "gargs",
            J::Arr(args.iter().map(|a| s(format!("{a}"))).collect()),
        ));
        v.push(("name", s(tcx.item_name(def).to_string())));
        // trait method?
        if let Some(parent) = tcx.opt_parent(def) {
            match tcx.def_kind(parent) {
                DefKind::Trait => {
                    v.push(("trait", s(self.path(parent))));
                    if let Some(self_ty) = args.types().next() {
                        v.push(("self_ty", self.ty(self_ty)));
                        v.push(("self_head", self.ty_head(self_ty)));
                    }
                }
                DefKind::Impl { .. } => {
                    let st = tcx.type_of(parent).instantiate_identity().skip_norm_wip();
                    v.push(("impl_self", self.ty(st)));
                    v.push(("impl_self_head", self.ty_head(st)));
                }
                _ => {}
            }
        }
        let env = ty::TypingEnv::post_analysis(tcx, caller);
        match ty::Instance::try_resolve(tcx, env, def, args) {
            Ok(Some(inst)) => {
                let rd = inst.def_id();
                v.push(("res", s(self.path(rd))));
                v.push(("res_local", J::Bool(rd.is_local())));
                v.push(("res_kind", s(format!("{:?}", std::mem::discriminant(&inst.def)))));
                let kind = match inst.def {
                    ty::InstanceKind::Item(_) => "item",
                    ty::InstanceKind::Virtual(..) => "virtual",
                    ty::InstanceKind::Intrinsic(_) => "intrinsic",
                    ty::InstanceKind::ClosureOnceShim { .. } => "closure_once_shim",
                    ty::InstanceKind::FnPtrShim(..) => "fnptr_shim",
                    ty::InstanceKind::DropGlue(..) => "drop_glue",
                    ty::InstanceKind::CloneShim(..) => "clone_shim",
                    _ => "other",
                };
                v.push(("res_k", s(kind)));
                if let Some(p) = tcx.opt_parent(rd) {
                    if let DefKind::Impl { .. } = tcx.def_kind(p) {
                        let st = tcx.type_of(p).instantiate_identity().skip_norm_wip();
                        v.push(("res_impl_self", self.ty(st)));
                    }
                }
            }
            _ => {
                v.push(("res", J::Null));
            }
        }
        v
    }

    fn operand(&self, body: &Body<'tcx>, o: &Operand<'tcx>) -> J {
        let tcx = self.tcx;
        match o {
            Operand::Copy(p) => J::Obj(vec![("cp", self.place(body, p))]),
            Operand::Move(p) => J::Obj(vec![("mv", self.place(body, p))]),
            Operand::Constant(c) => {
                let cty = c.const_.ty();
                let mut v: Vec<(&'static str, J)> = vec![("ty", self.ty(cty))];
                v.push(("s", s(format!("{}", c.const_))));
                if let ty::FnDef(def, args) = cty.kind() {
                    v.push(("fn", J::Obj(self.fn_ref(body.source.def_id(), *def, args))));
                } else if let Some(si) =
                    c.const_
                        .try_eval_scalar_int(tcx, ty::TypingEnv::post_analysis(tcx, body.source.def_id()))
                {
                    let bits = si.to_bits(si.size());
                    v.push(("v", J::Num(bits as i128)));
                    v.push(("sz", n(si.size().bytes() as usize)));
                }
                // promoted reference?
                if let mir::Const::Unevaluated(uv, _) = c.const_ {
                    if let Some(p) = uv.promoted {
                        v.push(("promoted", n(p.as_usize())));
                    } else {
                        v.push(("uneval", s(self.path(uv.def))));
                    }
                }
                J::Obj(vec![("c", J::Obj(v))])
            }
            #[allow(unreachable_patterns)]
            _ => J::Obj(vec![("other", s(format!("{o:?}")))]),
        }
    }

    fn rvalue(&self, body: &Body<'tcx>, rv: &Rvalue<'tcx>) -> J {
        let tcx = self.tcx;
        match rv {
            Rvalue::Use(o, _) => J::Obj(vec![("k", s("use")), ("a", self.operand(body, o))]),
            Rvalue::Ref(_, bk, p) => J::Obj(vec![
                ("k", s("ref")),
                ("mut", J::Bool(matches!(bk, BorrowKind::Mut { .. }))),
                ("pl", self.place(body, p)),
            ]),
            Rvalue::RawPtr(kind, p) => J::Obj(vec![
                ("k", s("rawptr")),
                ("mut", J::Bool(format!("{kind:?}").contains("Mut"))),
                ("pl", self.place(body, p)),
            ]),
            Rvalue::CopyForDeref(p) => J::Obj(vec![
                ("k", s("use")),
                ("a", J::Obj(vec![("cp", self.place(body, p))])),
                ("cfd", J::Bool(true)),
            ]),
            Rvalue::Aggregate(k, ops) => {
                let mut v: Vec<(&'static str, J)> = vec![("k", s("agg"))];
                match &**k {
                    AggregateKind::Adt(did, vi, _, _, active) => {
                        let adt = tcx.adt_def(*did);
                        v.push(("adt", s(self.path(*did))));
                        v.push(("variant", s(adt.variant(*vi).name.to_string())));
                        v.push(("vi", n(vi.as_usize())));
                        let names: Vec<J> = adt
                            .variant(*vi)
                            .fields
                            .iter()
                            .map(|f| s(f.name.to_string()))
                            .collect();
                        v.push(("fields", J::Arr(names)));
                        if let Some(a) = active {
                            v.push(("active", n(a.as_usize())));
                        }
                    }
                    AggregateKind::Closure(did, _) => {
                        v.push(("closure", s(self.path(*did))));
                        let names = tcx.closure_saved_names_of_captured_variables(*did);
                        v.push((
                            "upvars",
                            J::Arr(names.iter().map(|x| s(x.to_string())).collect()),
                        ));
                    }
                    AggregateKind::Tuple => v.push(("tuple", J::Bool(true))),
                    AggregateKind::Array(t) => v.push(("array", self.ty(*t))),
                    other => v.push(("otherkind", s(format!("{other:?}")))),
                }
                v.push((
                    "ops",
                    J::Arr(ops.iter().map(|o| self.operand(body, o)).collect()),
                ));
                J::Obj(v)
            }
            Rvalue::BinaryOp(op, ab) => {
                let name = match op {
                    BinOp::Add => "Add",
                    BinOp::AddUnchecked => "AddUnchecked",
                    BinOp::AddWithOverflow => "AddWithOverflow",
                    BinOp::Sub => "Sub",
                    BinOp::SubUnchecked => "SubUnchecked",
                    BinOp::SubWithOverflow => "SubWithOverflow",
                    BinOp::Mul => "Mul",
                    BinOp::MulUnchecked => "MulUnchecked",
                    BinOp::MulWithOverflow => "MulWithOverflow",
                    BinOp::Div => "Div",
                    BinOp::Rem => "Rem",
                    BinOp::BitXor => "BitXor",
                    BinOp::BitAnd => "BitAnd",
                    BinOp::BitOr => "BitOr",
                    BinOp::Shl => "Shl",
                    BinOp::ShlUnchecked => "ShlUnchecked",
                    BinOp::Shr => "Shr",
                    BinOp::ShrUnchecked => "ShrUnchecked",
                    BinOp::Eq => "Eq",
                    BinOp::Lt => "Lt",
                    BinOp::Le => "Le",
                    BinOp::Ne => "Ne",
                    BinOp::Ge => "Ge",
                    BinOp::Gt => "Gt",
                    BinOp::Cmp => "Cmp",
                    BinOp::Offset => "Offset",
                };
                J::Obj(vec![
                    ("k", s("bin")),
                    ("op", s(name)),
                    ("a", self.operand(body, &ab.0)),
                    ("b", self.operand(body, &ab.1)),
                ])
            }
            Rvalue::UnaryOp(op, a) => {
                let name = match op {
                    UnOp::Not => "Not",
                    UnOp::Neg => "Neg",
                    UnOp::PtrMetadata => "PtrMetadata",
                };
                J::Obj(vec![
                    ("k", s("un")),
                    ("op", s(name)),
                    ("a", self.operand(body, a)),
                ])
            }
            Rvalue::Cast(ck, a, t) => {
                let kind = match ck {
                    CastKind::IntToInt => "IntToInt".to_string(),
                    CastKind::Transmute => "Transmute".to_string(),
                    other => format!("{other:?}"),
                };
                J::Obj(vec![
                    ("k", s("cast")),
                    ("ck", s(kind)),
                    ("a", self.operand(body, a)),
                    ("ty", self.ty(*t)),
                ])
            }
            Rvalue::Discriminant(p) => {
                J::Obj(vec![("k", s("discr")), ("pl", self.place(body, p))])
            }
            Rvalue::Repeat(a, cnt) => J::Obj(vec![
                ("k", s("repeat")),
                ("a", self.operand(body, a)),
                ("n", s(format!("{cnt}"))),
            ]),
            other => J::Obj(vec![("k", s("other")), ("s", s(format!("{other:?}")))]),
        }
    }

    fn body(&self, key: String, did: DefId, body: &Body<'tcx>, promoted_of: Option<String>) -> J {
        let tcx = self.tcx;
        let kind = tcx.def_kind(did);
        let mut v: Vec<(&'static str, J)> = vec![("key", s(key))];
        v.push(("kind", s(format!("{kind:?}"))));
        v.push(("def", s(self.path(did))));
        if let Some(p) = promoted_of {
            v.push(("promoted_of", s(p)));
        }
        if let Some(nm) = tcx.opt_item_name(did) {
            v.push(("name", s(nm.to_string())));
        }
        if let Some(parent) = tcx.opt_parent(did) {
            v.push(("parent", s(self.path(parent))));
            v.push(("parent_kind", s(format!("{:?}", tcx.def_kind(parent)))));
            if let DefKind::Impl { of_trait } = tcx.def_kind(parent) {
                let st = tcx.type_of(parent).instantiate_identity().skip_norm_wip();
                v.push(("impl_self", self.ty(st)));
                v.push(("impl_self_head", self.ty_head(st)));
                if of_trait {
                    let tr = tcx.impl_trait_ref(parent).instantiate_identity().skip_norm_wip();
                    v.push(("impl_trait", s(self.path(tr.def_id))));
                    v.push(("impl_trait_full", s(format!("{tr}"))));
                }
            }
        }
        if matches!(kind, DefKind::Fn | DefKind::AssocFn) {
            v.push(("pub", J::Bool(tcx.visibility(did).is_public())));
            v.push(("vis", s(format!("{:?}", tcx.visibility(did)))));
        }
        v.push(("root", s(self.path(tcx.typeck_root_def_id(did)))));
        v.push(("span", s(self.file_line(tcx.def_span(did)))));
        v.push(("argc", n(body.arg_count)));
        let locals: Vec<J> = body
            .local_decls
            .iter()
            .map(|d| {
                J::Obj(vec![
                    ("ty", self.ty(d.ty)),
                    ("h", self.ty_head(d.ty)),
                ])
            })
            .collect();
        v.push(("locals", J::Arr(locals)));
        let mut dbg = Vec::new();
        for vdi in &body.var_debug_info {
            if let VarDebugInfoContents::Place(p) = &vdi.value {
                dbg.push(J::Obj(vec![
                    ("name", s(vdi.name.to_string())),
                    ("pl", self.place(body, p)),
                    (
                        "arg",
                        match vdi.argument_index {
                            Some(i) => J::Num(i as i128),
                            None => J::Null,
                        },
                    ),
                ]));
            }
        }
        v.push(("vars", J::Arr(dbg)));
        let mut blocks = Vec::new();
        for (_bb, data) in body.basic_blocks.iter_enumerated() {
            let mut stmts = Vec::new();
            for st in &data.statements {
                match &st.kind {
                    StatementKind::Assign(b) => {
                        let (lhs, rv) = &**b;
                        stmts.push(J::Obj(vec![
                            ("lhs", self.place(body, lhs)),
                            ("rv", self.rvalue(body, rv)),
                            ("ln", self.line(st.source_info.span)),
                            ("exp", J::Bool(st.source_info.span.from_expansion())),
                        ]));
                    }
                    StatementKind::SetDiscriminant { place, variant_index } => {
                        stmts.push(J::Obj(vec![
                            ("lhs", self.place(body, place)),
                            (
                                "rv",
                                J::Obj(vec![
                                    ("k", s("setdiscr")),
                                    ("vi", n(variant_index.as_usize())),
                                ]),
                            ),
                            ("ln", self.line(st.source_info.span)),
                            ("exp", J::Bool(st.source_info.span.from_expansion())),
                        ]));
                    }
                    _ => {}
                }
            }
            let term = data.terminator();
            let sp = term.source_info.span;
            let mut t: Vec<(&'static str, J)> = Vec::new();
            match &term.kind {
                TerminatorKind::Goto { target } => {
                    t.push(("k", s("goto")));
                    t.push(("t", n(target.as_usize())));
                }
                TerminatorKind::SwitchInt { discr, targets } => {
                    t.push(("k", s("switch")));
                    t.push(("d", self.operand(body, discr)));
                    t.push((
                        "cases",
                        J::Arr(
                            targets
                                .iter()
                                .map(|(val, bb)| J::Arr(vec![J::Num(val as i128), n(bb.as_usize())]))
                                .collect(),
                        ),
                    ));
                    t.push(("else", n(targets.otherwise().as_usize())));
                }
                TerminatorKind::Return => t.push(("k", s("return"))),
                TerminatorKind::Unreachable => t.push(("k", s("unreachable"))),
                TerminatorKind::UnwindResume => t.push(("k", s("resume"))),
                TerminatorKind::UnwindTerminate(_) => t.push(("k", s("terminate"))),
                TerminatorKind::Drop { place, target, unwind, .. } => {
                    t.push(("k", s("drop")));
                    t.push(("pl", self.place(body, place)));
                    t.push(("t", n(target.as_usize())));
                    if let mir::UnwindAction::Cleanup(bb) = unwind {
                        t.push(("uw", n(bb.as_usize())));
                    }
                }
                TerminatorKind::Call {
                    func,
                    args,
                    destination,
                    target,
                    unwind,
                    ..
                } => {
                    t.push(("k", s("call")));
                    t.push(("f", self.operand(body, func)));
                    t.push((
                        "args",
                        J::Arr(args.iter().map(|a| self.operand(body, &a.node)).collect()),
                    ));
                    t.push(("dest", self.place(body, destination)));
                    match target {
                        Some(bb) => t.push(("t", n(bb.as_usize()))),
                        None => t.push(("t", J::Null)),
                    }
                    if let mir::UnwindAction::Cleanup(bb) = unwind {
                        t.push(("uw", n(bb.as_usize())));
                    }
                }
                TerminatorKind::Assert {
                    cond,
                    expected,
                    msg,
                    target,
                    unwind,
                } => {
                    t.push(("k", s("assert")));
                    t.push(("cond", self.operand(body, cond)));
                    t.push(("expected", J::Bool(*expected)));
                    let (mk, detail) = match &**msg {
                        mir::AssertKind::BoundsCheck { .. } => ("bounds", String::new()),
                        mir::AssertKind::Overflow(op, ..) => ("overflow", format!("{op:?}")),
                        mir::AssertKind::OverflowNeg(_) => ("overflow", "Neg".to_string()),
                        mir::AssertKind::DivisionByZero(_) => ("div0", String::new()),
                        mir::AssertKind::RemainderByZero(_) => ("rem0", String::new()),
                        mir::AssertKind::MisalignedPointerDereference { .. } => ("ptrcheck", "misaligned".to_string()),
                        mir::AssertKind::NullPointerDereference => ("ptrcheck", "null".to_string()),
                        other => ("otherassert", format!("{:?}", std::mem::discriminant(other))),
                    };
                    t.push(("msg", s(mk)));
                    t.push(("op", s(detail)));
                    t.push(("t", n(target.as_usize())));
                    if let mir::UnwindAction::Cleanup(bb) = unwind {
                        t.push(("uw", n(bb.as_usize())));
                    }
                }
                TerminatorKind::FalseEdge { real_target, .. } => {
                    t.push(("k", s("goto")));
                    t.push(("t", n(real_target.as_usize())));
                }
                TerminatorKind::FalseUnwind { real_target, .. } => {
                    t.push(("k", s("goto")));
                    t.push(("t", n(real_target.as_usize())));
                }
                other => {
                    t.push(("k", s("otherterm")));
                    t.push(("s", s(format!("{other:?}"))));
                }
            }
            t.push(("ln", self.line(sp)));
            t.push(("exp", J::Bool(sp.from_expansion())));
            blocks.push(J::Obj(vec![
                ("cleanup", J::Bool(data.is_cleanup)),
                ("st", J::Arr(stmts)),
                ("term", J::Obj(t)),
            ]));
        }
        v.push(("blocks", J::Arr(blocks)));
        J::Obj(v)
    }
}

struct Cb;
impl rustc_driver::Callbacks for Cb {
    fn after_analysis<'tcx>(
        &mut self,
        _c: &rustc_interface::interface::Compiler,
        tcx: TyCtxt<'tcx>,
    ) -> Compilation {
        let krate = tcx.crate_name(LOCAL_CRATE).to_string();
        let wanted = std::env::var("CCFACTS_CRATES").unwrap_or_else(|_| "cosmian_cover_crypt".into());
        if !wanted.split(',').any(|w| w == krate) {
            return Compilation::Continue;
        }
        let outdir = match std::env::var("CCFACTS_OUT") {
            Ok(d) => d,
            Err(_) => return Compilation::Continue,
        };
        let doc = rustc_middle::ty::print::with_no_trimmed_paths!(export(tcx, &krate));
        let mut out = String::with_capacity(64 << 20);
        doc.write(&mut out);
        let ctype = tcx
            .crate_types()
            .iter()
            .map(|c| format!("{c:?}"))
            .collect::<Vec<_>>()
            .join("+");
        let fname = format!("{outdir}/{krate}-{ctype}-{}.json", std::process::id());
        std::fs::write(&fname, out).expect("ccfacts: cannot write facts");
        Compilation::Continue
    }
}

fn export<'tcx>(tcx: TyCtxt<'tcx>, krate: &str) -> J {
    let cx = Cx { tcx };
    let mut bodies = Vec::new();
    for def in tcx.mir_keys(()) {
        let did = def.to_def_id();
        let kind = tcx.def_kind(did);
        if !matches!(
            kind,
            DefKind::Fn | DefKind::AssocFn | DefKind::Closure | DefKind::Const { .. } | DefKind::AssocConst { .. } | DefKind::Static { .. } | DefKind::AnonConst | DefKind::InlineConst
        ) {
            continue;
        }
        // constants: use mir_for_ctfe-free path — only functions/closures carry
        // runtime code; constants are exported through their evaluated values.
        if !matches!(kind, DefKind::Fn | DefKind::AssocFn | DefKind::Closure) {
            continue;
        }
        let key = cx.path(did);
        let body = tcx.optimized_mir(did);
        bodies.push(cx.body(key.clone(), did, body, None));
        for (i, p) in tcx.promoted_mir(did).iter_enumerated() {
            bodies.push(cx.body(
                format!("{key}::promoted[{}]", i.as_usize()),
                did,
                p,
                Some(key.clone()),
            ));
        }
    }
    // ADTs, impls, statics
    let mut adts = Vec::new();
    let mut impls = Vec::new();
    let mut statics = Vec::new();
    let mut consts = Vec::new();
    for id in tcx.hir_crate_items(()).definitions() {
        let did = id.to_def_id();
        match tcx.def_kind(did) {
            DefKind::Struct | DefKind::Enum | DefKind::Union => {
                let adt = tcx.adt_def(did);
                let variants: Vec<J> = adt
                    .variants()
                    .iter()
                    .map(|v| {
                        J::Obj(vec![
                            ("name", s(v.name.to_string())),
                            (
                                "fields",
                                J::Arr(
                                    v.fields
                                        .iter()
                                        .map(|f| {
                                            let fty = tcx.type_of(f.did).instantiate_identity().skip_norm_wip();
                                            J::Obj(vec![
                                                ("name", s(f.name.to_string())),
                                                ("ty", cx.ty(fty)),
                                                ("h", cx.ty_head(fty)),
                                                ("vis", s(format!("{:?}", f.vis))),
                                                ("pub", J::Bool(f.vis.is_public())),
                                            ])
                                        })
                                        .collect(),
                                ),
                            ),
                        ])
                    })
                    .collect();
                adts.push(J::Obj(vec![
                    ("path", s(cx.path(did))),
                    ("kind", s(format!("{:?}", tcx.def_kind(did)))),
                    ("pub", J::Bool(tcx.visibility(did).is_public())),
                    ("vis", s(format!("{:?}", tcx.visibility(did)))),
                    ("span", s(cx.file_line(tcx.def_span(did)))),
                    ("variants", J::Arr(variants)),
                ]));
            }
            DefKind::Impl { of_trait } => {
                let st = tcx.type_of(did).instantiate_identity().skip_norm_wip();
                let mut v: Vec<(&'static str, J)> = vec![
                    ("path", s(cx.path(did))),
                    ("self", cx.ty(st)),
                    ("self_head", cx.ty_head(st)),
                    ("span", s(cx.file_line(tcx.def_span(did)))),
                ];
                if of_trait {
                    let tr = tcx.impl_trait_ref(did).instantiate_identity().skip_norm_wip();
                    v.push(("trait", s(cx.path(tr.def_id))));
                    v.push(("trait_full", s(format!("{tr}"))));
                }
                let items: Vec<J> = tcx
                    .associated_items(did)
                    .in_definition_order()
                    .map(|it| {
                        J::Obj(vec![
                            ("name", s(it.name().to_string())),
                            ("key", s(cx.path(it.def_id))),
                            ("kind", s(format!("{:?}", tcx.def_kind(it.def_id)))),
                        ])
                    })
                    .collect();
                v.push(("items", J::Arr(items)));
                impls.push(J::Obj(v));
            }
            DefKind::Static { mutability, .. } => {
                let t = tcx.type_of(did).instantiate_identity().skip_norm_wip();
                statics.push(J::Obj(vec![
                    ("path", s(cx.path(did))),
                    ("mut", J::Bool(mutability.is_mut())),
                    ("ty", cx.ty(t)),
                    ("span", s(cx.file_line(tcx.def_span(did)))),
                ]));
            }
            DefKind::Const { .. } | DefKind::AssocConst { .. } => {
                let t = tcx.type_of(did).instantiate_identity().skip_norm_wip();
                let mut v: Vec<(&'static str, J)> = vec![("path", s(cx.path(did))), ("ty", cx.ty(t))];
                if tcx.generics_of(did).is_empty() && tcx.generics_of(did).parent.is_none() {
                    if let Ok(val) = tcx.const_eval_poly(did) {
                        if let Some(si) = val.try_to_scalar_int() {
                            v.push(("v", J::Num(si.to_bits(si.size()) as i128)));
                        }
                    }
                }
                consts.push(J::Obj(v));
            }
            _ => {}
        }
    }
    let cfgs: Vec<J> = tcx
        .sess
        .config
        .iter()
        .filter(|(k, _)| k.as_str() == "feature")
        .filter_map(|(_, v)| v.map(|x| s(x.to_string())))
        .collect();
    J::Obj(vec![
        ("crate", s(krate)),
        ("features", J::Arr(cfgs)),
        ("bodies", J::Arr(bodies)),
        ("adts", J::Arr(adts)),
        ("impls", J::Arr(impls)),
        ("statics", J::Arr(statics)),
        ("consts", J::Arr(consts)),
    ])
}

fn main() {
    let mut args: Vec<String> = std::env::args().collect();
    // RUSTC_WORKSPACE_WRAPPER passes the real rustc path as argv[1].
    if args.len() > 1 && (args[1].ends_with("rustc") || args[1].contains("/rustc")) {
        args.remove(1);
    }
    rustc_driver::run_compiler(&args, &mut Cb);
}
