//! Type-level witnesses (rustdoc tests).  Each `compile_fail,E0xxx` witness has a compiling
//! twin that differs only in the offending line, so a witness whose path is merely wrong
//! cannot pass.  Run with `cargo +nightly test --doc --offline` (error codes are honoured
//! on nightly only).

/// The secrets of a user key cannot be read or replaced outside the crate (C02.grant, C08).
/// ```compile_fail,E0616
/// fn f(k: &cosmian_cover_crypt::UserSecretKey) -> usize { let _s = &k.secrets; 0 }
/// ```
/// ```compile_fail,E0616
/// fn f(k: &mut cosmian_cover_crypt::UserSecretKey) { k.signature = None; }
/// ```
/// ```compile_fail,E0616
/// fn f(k: &cosmian_cover_crypt::UserSecretKey) -> usize { let _s = &k.id; 0 }
/// ```
/// twin:
/// ```
/// fn f(k: &cosmian_cover_crypt::UserSecretKey) -> usize { k.tracing_level() }
/// ```
pub struct UserKeyRepresentationIsPrivate;

/// The secrets, the signing key and the tracing key of a master key are private (C06.mutators, C08, C17).
/// ```compile_fail,E0616
/// fn f(k: &cosmian_cover_crypt::MasterSecretKey) -> usize { let _s = &k.secrets; 0 }
/// ```
/// ```compile_fail,E0616
/// fn f(k: &cosmian_cover_crypt::MasterSecretKey) -> usize { let _s = &k.signing_key; 0 }
/// ```
/// ```compile_fail,E0616
/// fn f(k: &cosmian_cover_crypt::MasterSecretKey) -> usize { let _s = &k.tsk; 0 }
/// ```
/// twin:
/// ```
/// fn f(k: &cosmian_cover_crypt::MasterSecretKey) -> usize { let _s = &k.access_structure; 0 }
/// ```
pub struct MasterKeyRepresentationIsPrivate;

/// The published keys of a public key are private (C06.publish-guard).
/// ```compile_fail,E0616
/// fn f(k: &cosmian_cover_crypt::MasterPublicKey) -> usize { let _s = &k.encryption_keys; 0 }
/// ```
/// twin:
/// ```
/// fn f(k: &cosmian_cover_crypt::MasterPublicKey) -> usize { k.tracing_level() }
/// ```
pub struct PublicKeyRepresentationIsPrivate;

/// An encapsulation cannot be assembled or edited field by field outside the crate (C07).
/// ```compile_fail,E0616
/// fn f(e: &mut cosmian_cover_crypt::XEnc) { e.tag = [0; 16]; }
/// ```
/// ```compile_fail,E0616
/// fn f(e: &cosmian_cover_crypt::XEnc) -> usize { e.c.len() }
/// ```
/// twin:
/// ```
/// fn f(e: &cosmian_cover_crypt::XEnc) -> usize { e.count() }
/// ```
pub struct EncapsulationRepresentationIsPrivate;

/// The instance RNG is reachable only through the guard accessor (C19).
/// ```compile_fail,E0616
/// fn f(c: &cosmian_cover_crypt::api::Covercrypt) { let _ = &c.rng; }
/// ```
/// twin:
/// ```
/// fn f(c: &cosmian_cover_crypt::api::Covercrypt) { let _g = c.rng(); }
/// ```
pub struct InstanceStateIsPrivate;

/// A scheme instance can be shared between threads (C19): compile-pass witness.
/// ```
/// fn assert_send_sync<T: Send + Sync>() {}
/// assert_send_sync::<cosmian_cover_crypt::api::Covercrypt>();
/// ```
/// and keys can be moved to other threads:
/// ```
/// fn assert_send<T: Send>() {}
/// assert_send::<cosmian_cover_crypt::UserSecretKey>();
/// assert_send::<cosmian_cover_crypt::MasterPublicKey>();
/// assert_send::<cosmian_cover_crypt::XEnc>();
/// ```
/// and borrowed by several threads at once:
/// ```
/// fn assert_sync<T: Sync>() {}
/// assert_sync::<cosmian_cover_crypt::UserSecretKey>();
/// assert_sync::<cosmian_cover_crypt::MasterPublicKey>();
/// assert_sync::<cosmian_cover_crypt::MasterSecretKey>();
/// assert_sync::<cosmian_cover_crypt::XEnc>();
/// ```
/// twin that must fail (a guard is not Send), showing the assertion is not vacuous:
/// ```compile_fail,E0277
/// fn assert_send<T: Send>() {}
/// assert_send::<std::sync::MutexGuard<'static, u8>>();
/// ```
pub struct InstanceIsSendSync;
