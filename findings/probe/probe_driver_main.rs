#![feature(rustc_private)]
extern crate rustc_driver;
extern crate rustc_interface;
extern crate rustc_middle;
extern crate rustc_hir;
extern crate rustc_span;
extern crate rustc_abi;
use rustc_driver::Compilation;
use rustc_middle::ty::{self, TyCtxt};
use rustc_middle::mir::{self, TerminatorKind, Operand, Rvalue, StatementKind, AggregateKind, PlaceElem, Place, Body};
use rustc_hir::def::DefKind;

fn place_str<'tcx>(tcx: TyCtxt<'tcx>, body: &Body<'tcx>, p: &Place<'tcx>) -> String {
    let mut s = format!("_{}", p.local.as_usize());
    let mut pty = mir::PlaceTy::from_ty(body.local_decls[p.local].ty);
    for elem in p.projection.iter() {
        match elem {
            PlaceElem::Deref => s = format!("(*{s})"),
            PlaceElem::Field(f, _) => {
                let name = match pty.ty.kind() {
                    ty::Adt(adt, _) => {
                        let v = match pty.variant_index { Some(v) => adt.variant(v), None => adt.non_enum_variant() };
                        format!("{}::{}", tcx.def_path_str(adt.did()), v.fields[f].name)
                    }
                    ty::Closure(did, _) => {
                        let names = tcx.closure_saved_names_of_captured_variables(*did);
                        format!("upvar:{}", names[f])
                    }
                    _ => format!("{}", f.as_usize()),
                };
                s = format!("{s}.[{name}]");
            }
            PlaceElem::Downcast(name, _) => s = format!("({s} as {:?})", name),
            other => s = format!("{s}.<{:?}>", other),
        }
        pty = pty.projection_ty(tcx, elem);
    }
    s
}
fn op_str<'tcx>(tcx: TyCtxt<'tcx>, body: &Body<'tcx>, o: &Operand<'tcx>) -> String {
    match o {
        Operand::Copy(p) => format!("copy {}", place_str(tcx, body, p)),
        Operand::Move(p) => format!("move {}", place_str(tcx, body, p)),
        Operand::Constant(c) => {
            let v = c.const_.try_eval_scalar_int(tcx, ty::TypingEnv::fully_monomorphized());
            format!("const {:?} :: {} = {:?}", c.const_, c.const_.ty(), v)
        }
        _ => format!("{:?}", o),
    }
}
fn dump<'tcx>(tcx: TyCtxt<'tcx>, name: &str, body: &Body<'tcx>) {
    println!("=== {name}");
    for v in &body.var_debug_info { println!("  debug {} => {:?}", v.name, v.value); }
    for (bb, data) in body.basic_blocks.iter_enumerated() {
        if data.is_cleanup { continue; }
        for st in &data.statements {
            if let StatementKind::Assign(b) = &st.kind {
                let (lhs, rv) = &**b;
                let r = match rv {
                    Rvalue::Aggregate(k, ops) => {
                        let kind = match &**k {
                            AggregateKind::Adt(did, vi, ..) => format!("Adt {} variant {}", tcx.def_path_str(*did), vi.as_usize()),
                            AggregateKind::Closure(did, _) => format!("Closure {}", tcx.def_path_str(*did)),
                            AggregateKind::Tuple => "Tuple".to_string(),
                            o => format!("{:?}", o),
                        };
                        format!("Aggregate[{kind}]({})", ops.iter().map(|o| op_str(tcx, body, o)).collect::<Vec<_>>().join(", "))
                    }
                    Rvalue::Use(o, _) => format!("Use({})", op_str(tcx, body, o)),
                    Rvalue::Ref(_, bk, p) => format!("Ref[{:?}]({})", bk, place_str(tcx, body, p)),
                    Rvalue::BinaryOp(op, b2) => format!("BinaryOp[{:?}]({}, {})", op, op_str(tcx, body, &b2.0), op_str(tcx, body, &b2.1)),
                    Rvalue::Discriminant(p) => format!("Discriminant({})", place_str(tcx, body, p)),
                    o => format!("Other({:?})", o),
                };
                println!("  {:?}: {} = {}", bb, place_str(tcx, body, lhs), r);
            }
        }
        if let Some(t) = &data.terminator {
            match &t.kind {
                TerminatorKind::Call { func, args, destination, target, .. } => {
                    let callee = if let Operand::Constant(c) = func { if let ty::FnDef(cd, ga) = c.const_.ty().kind() {
                        let env = ty::TypingEnv::post_analysis(tcx, body.source.def_id());
                        let r = ty::Instance::try_resolve(tcx, env, *cd, ga).ok().flatten();
                        format!("{} => {:?}", tcx.def_path_str_with_args(*cd, ga), r.map(|i| (tcx.def_path_str(i.def_id()), tcx.def_kind(i.def_id()))))
                    } else { "?".into() } } else { format!("indirect {}", op_str(tcx, body, func)) };
                    println!("  {:?}: {} = CALL {callee} ({}) -> {:?}", bb, place_str(tcx, body, destination), args.iter().map(|a| op_str(tcx, body, &a.node)).collect::<Vec<_>>().join(", "), target);
                }
                TerminatorKind::SwitchInt { discr, targets } => {
                    println!("  {:?}: SWITCH {} -> {:?} otherwise {:?}", bb, op_str(tcx, body, discr), targets.iter().collect::<Vec<_>>(), targets.otherwise());
                }
                TerminatorKind::Assert { cond, expected, msg, target, .. } => {
                    println!("  {:?}: ASSERT {} == {} [{:?}] -> {:?}", bb, op_str(tcx, body, cond), expected, std::mem::discriminant(&**msg), target);
                }
                TerminatorKind::Drop { place, target, .. } => println!("  {:?}: DROP {} -> {:?}", bb, place_str(tcx, body, place), target),
                TerminatorKind::Return => println!("  {:?}: RETURN", bb),
                TerminatorKind::Goto { target } => println!("  {:?}: GOTO {:?}", bb, target),
                _ => {}
            }
        }
    }
}
struct Cb;
impl rustc_driver::Callbacks for Cb {
    fn after_analysis<'tcx>(&mut self, _c: &rustc_interface::interface::Compiler, tcx: TyCtxt<'tcx>) -> Compilation {
        let krate = tcx.crate_name(rustc_span::def_id::LOCAL_CRATE);
        if krate.as_str() != "cosmian_cover_crypt" { return Compilation::Continue; }
        let want = std::env::var("PROBE_FN").unwrap_or_default();
        for def in tcx.mir_keys(()) {
            let did = def.to_def_id();
            let path = tcx.def_path_str(did);
            if !want.split(',').any(|w| !w.is_empty() && path.contains(w)) { continue; }
            if !matches!(tcx.def_kind(did), DefKind::Fn | DefKind::AssocFn | DefKind::Closure) { continue; }
            let body = tcx.optimized_mir(did);
            dump(tcx, &format!("{path} [{:?}] vis={:?}", tcx.def_kind(did), if matches!(tcx.def_kind(did), DefKind::Fn|DefKind::AssocFn) { Some(tcx.visibility(did)) } else { None }), body);
            for (i, p) in tcx.promoted_mir(did).iter_enumerated() {
                dump(tcx, &format!("{path}::promoted[{:?}]", i), p);
            }
        }
        Compilation::Continue
    }
}
fn main() {
    let mut args: Vec<String> = std::env::args().collect();
    args.remove(1);
    rustc_driver::run_compiler(&args, &mut Cb);
}
