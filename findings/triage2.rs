use cosmian_cover_crypt::{api::Covercrypt, cc_keygen, traits::KemAc, AccessPolicy, QualifiedAttribute};
fn ap(s: &str) -> AccessPolicy { AccessPolicy::parse(s).unwrap() }
#[test]
fn d14_recaps_after_rekey_disable() {
    let cc = Covercrypt::default();
    let (mut msk, mpk) = cc_keygen(&cc, false).unwrap();
    let (_, enc) = cc.encaps(&mpk, &ap("DPT::FIN || DPT::HR")).unwrap();
    assert_eq!(enc.count(), 2);
    let _ = cc.rekey(&mut msk, &ap("DPT::FIN")).unwrap();
    msk.access_structure.disable_attribute(&QualifiedAttribute::new("DPT", "FIN")).unwrap();
    let mpk2 = cc.update_msk(&mut msk).unwrap();
    let r = cc.recaps(&msk, &mpk2, &enc);
    println!("D14 recaps of {{FIN,HR}} after rekey(FIN)+disable(FIN): {:?}", r.as_ref().map(|(_, e)| e.count()).map_err(|e| e.to_string()));
    // control: without the rekey
    let cc = Covercrypt::default();
    let (mut msk, mpk) = cc_keygen(&cc, false).unwrap();
    let (_, enc) = cc.encaps(&mpk, &ap("DPT::FIN || DPT::HR")).unwrap();
    msk.access_structure.disable_attribute(&QualifiedAttribute::new("DPT", "FIN")).unwrap();
    let mpk2 = cc.update_msk(&mut msk).unwrap();
    let r = cc.recaps(&msk, &mpk2, &enc);
    println!("D14 control (no rekey): {:?}", r.as_ref().map(|(_, e)| e.count()).map_err(|e| e.to_string()));
}
