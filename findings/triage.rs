// Scratch triage of suspected defects (NOT part of the verification machinery).
use cosmian_cover_crypt::{
    api::Covercrypt, cc_keygen, traits::KemAc, AccessPolicy, EncryptionHint, MasterSecretKey,
    QualifiedAttribute, UserSecretKey, XEnc,
};
use cosmian_crypto_core::bytes_ser_de::Serializable;

fn ap(s: &str) -> AccessPolicy {
    AccessPolicy::parse(s).unwrap()
}

#[test]
fn d1_id_collision() {
    let cc = Covercrypt::default();
    let (mut msk, _) = cc_keygen(&cc, false).unwrap();
    msk.access_structure
        .del_attribute(&QualifiedAttribute::new("DPT", "RD"))
        .unwrap();
    msk.access_structure
        .add_attribute(QualifiedAttribute::new("DPT", "Sales"), EncryptionHint::Classic, None)
        .unwrap();
    let mpk = cc.update_msk(&mut msk).unwrap();
    let usk_dev = cc.generate_user_secret_key(&mut msk, &ap("DPT::DEV")).unwrap();
    let (_, enc) = cc.encaps(&mpk, &ap("DPT::Sales")).unwrap();
    let r = cc.decaps(&usk_dev, &enc).unwrap();
    println!("D1 DEV user opens Sales encapsulation: {}", r.is_some());
}

#[test]
fn d2_partial_rekey_keep_old() {
    let cc = Covercrypt::default();
    let (mut msk, mpk) = cc_keygen(&cc, false).unwrap();
    let mut usk = cc.generate_user_secret_key(&mut msk, &ap("SEC::TOP")).unwrap();
    let (s_old, enc_old) = cc.encaps(&mpk, &ap("SEC::LOW")).unwrap();
    assert_eq!(cc.decaps(&usk, &enc_old).unwrap(), Some(s_old.clone()));
    let _mpk2 = cc.rekey(&mut msk, &ap("SEC::LOW")).unwrap();
    cc.refresh_usk(&mut msk, &mut usk, true).unwrap();
    let r = cc.decaps(&usk, &enc_old).unwrap();
    println!("D2 keep-old refreshed key still opens old encapsulation: {}", r == Some(s_old));
}

#[test]
fn d3_prune_then_refresh() {
    let cc = Covercrypt::default();
    let (mut msk, mpk) = cc_keygen(&cc, false).unwrap();
    let mut usk = cc.generate_user_secret_key(&mut msk, &ap("DPT::FIN")).unwrap();
    let (_s_old, enc_old) = cc.encaps(&mpk, &ap("DPT::FIN")).unwrap();
    let _ = cc.rekey(&mut msk, &ap("DPT::FIN")).unwrap();
    let _ = cc.prune_master_secret_key(&mut msk, &ap("DPT::FIN")).unwrap();
    for keep in [true, false] {
        let mut u = usk.clone();
        cc.refresh_usk(&mut msk, &mut u, keep).unwrap();
        let r = cc.decaps(&u, &enc_old).unwrap();
        println!("D3 keep={keep}: refreshed-after-prune key opens encapsulation under pruned secret: {}", r.is_some());
    }
    let _ = &mut usk;
}

#[test]
fn d4_disable_then_rekey() {
    let cc = Covercrypt::default();
    let (mut msk, _mpk) = cc_keygen(&cc, false).unwrap();
    msk.access_structure
        .disable_attribute(&QualifiedAttribute::new("DPT", "FIN"))
        .unwrap();
    let mpk = cc.update_msk(&mut msk).unwrap();
    println!("D4 encaps after disable+update is_err: {}", cc.encaps(&mpk, &ap("DPT::FIN")).is_err());
    let mpk = cc.rekey(&mut msk, &ap("DPT::FIN")).unwrap();
    println!("D4 encaps after disable+update+rekey is_err: {}", cc.encaps(&mpk, &ap("DPT::FIN")).is_err());
}

fn leb(bytes: &[u8], pos: &mut usize) -> u64 {
    let mut v = 0u64;
    let mut shift = 0;
    loop {
        let b = bytes[*pos];
        *pos += 1;
        v |= ((b & 0x7f) as u64) << shift;
        if b & 0x80 == 0 {
            return v;
        }
        shift += 7;
    }
}

fn wleb(mut n: u64, out: &mut Vec<u8>) {
    loop {
        let mut b = (n & 0x7f) as u8;
        n >>= 7;
        if n != 0 {
            b |= 0x80;
        }
        out.push(b);
        if n == 0 {
            break;
        }
    }
}

#[test]
fn d5_reframed_usk() {
    let cc = Covercrypt::default();
    let (mut msk, _mpk) = cc_keygen(&cc, false).unwrap();
    let mut usk = cc.generate_user_secret_key(&mut msk, &ap("SEC::LOW")).unwrap();
    let _ = cc.rekey(&mut msk, &ap("SEC::LOW")).unwrap();
    cc.refresh_usk(&mut msk, &mut usk, true).unwrap();
    let bytes = usk.serialize().unwrap().to_vec();
    // parse
    let mut p = 0;
    let n = leb(&bytes, &mut p) as usize;
    p += 32 * n;
    let n = leb(&bytes, &mut p) as usize;
    p += 32 * n;
    let head_end = p;
    let n_rights = leb(&bytes, &mut p) as usize;
    let mut rights: Vec<(Vec<u8>, Vec<Vec<u8>>)> = vec![];
    for _ in 0..n_rights {
        let l = leb(&bytes, &mut p) as usize;
        let r = bytes[p..p + l].to_vec();
        p += l;
        let nk = leb(&bytes, &mut p) as usize;
        let mut ks = vec![];
        for _ in 0..nk {
            assert_eq!(bytes[p], 0, "classic expected");
            ks.push(bytes[p + 1..p + 33].to_vec());
            p += 33;
        }
        rights.push((r, ks));
    }
    let sig = bytes[p..].to_vec();
    assert_eq!(sig.len(), 32);
    // reframe first right with chain of 2: (R,[S1,S2]) -> (R||S1,[S2])
    let idx = rights.iter().position(|(_, ks)| ks.len() == 2).expect("chain of 2");
    let (r, ks) = rights[idx].clone();
    let mut r2 = r.clone();
    r2.extend_from_slice(&ks[0]);
    rights[idx] = (r2, vec![ks[1].clone()]);
    let mut out = bytes[..head_end].to_vec();
    wleb(rights.len() as u64, &mut out);
    for (r, ks) in &rights {
        wleb(r.len() as u64, &mut out);
        out.extend_from_slice(r);
        wleb(ks.len() as u64, &mut out);
        for k in ks {
            out.push(0);
            out.extend_from_slice(k);
        }
    }
    out.extend_from_slice(&sig);
    let mut forged = UserSecretKey::deserialize(&out).unwrap();
    assert!(forged != usk);
    let res = cc.refresh_usk(&mut msk, &mut forged, true);
    println!("D5 refresh of re-framed (forged) usk accepted: {}", res.is_ok());
}

#[test]
fn d6_refresh_nokeep_after_delete() {
    let cc = Covercrypt::default();
    let (mut msk, _mpk) = cc_keygen(&cc, false).unwrap();
    let mut usk = cc.generate_user_secret_key(&mut msk, &ap("DPT::FIN")).unwrap();
    msk.access_structure
        .del_attribute(&QualifiedAttribute::new("DPT", "FIN"))
        .unwrap();
    let _ = cc.update_msk(&mut msk).unwrap();
    let before = usk.serialize().unwrap().to_vec();
    let res = cc.refresh_usk(&mut msk, &mut usk, false);
    let after = usk.serialize().unwrap().to_vec();
    println!("D6 refresh(keep=false) after delete is_err: {} ; usk unchanged: {} ; usk len before/after {}/{}", res.is_err(), before == after, before.len(), after.len());
}

#[test]
fn d7_update_with_new_disabled_right() {
    let cc = Covercrypt::default();
    let (mut msk, _mpk) = cc_keygen(&cc, false).unwrap();
    msk.access_structure
        .add_attribute(QualifiedAttribute::new("DPT", "NEW"), EncryptionHint::Classic, None)
        .unwrap();
    msk.access_structure
        .disable_attribute(&QualifiedAttribute::new("DPT", "NEW"))
        .unwrap();
    let before = msk.serialize().unwrap().to_vec();
    let res = cc.update_msk(&mut msk);
    let after = msk.serialize().unwrap().to_vec();
    println!("D7 update is_err: {} ; msk unchanged: {} ; len before/after {}/{}", res.is_err(), before == after, before.len(), after.len());
}

#[test]
fn d8_rekey_partial() {
    let cc = Covercrypt::default();
    let (mut msk, _mpk) = cc_keygen(&cc, false).unwrap();
    msk.access_structure
        .add_attribute(QualifiedAttribute::new("DPT", "NEW"), EncryptionHint::Classic, None)
        .unwrap();
    let before = msk.serialize().unwrap().to_vec();
    let res = cc.rekey(&mut msk, &ap("*"));
    let after = msk.serialize().unwrap().to_vec();
    println!("D8 rekey is_err: {} ; msk unchanged: {} ; len before/after {}/{}", res.is_err(), before == after, before.len(), after.len());
}

#[test]
fn d9a_tracing_level_underflow() {
    // tag(16) + n_traps=0 + flavour 0 + len 0
    let mut b = vec![0u8; 16];
    b.extend_from_slice(&[0, 0, 0]);
    let enc = XEnc::deserialize(&b).unwrap();
    let r = std::panic::catch_unwind(|| enc.tracing_level());
    println!("D9a XEnc::tracing_level on zero traps panics: {}", r.is_err());
}

#[test]
fn d9b_capacity() {
    let mut b = vec![0u8; 16];
    // n_traps = 2^62
    wleb(1u64 << 62, &mut b);
    let r = std::panic::catch_unwind(|| XEnc::deserialize(&b).is_err());
    println!("D9b XEnc::deserialize with huge trap count: {:?}", r.map_err(|_| "PANIC"));
}

#[test]
fn d9c_zero_rights_usk_loops() {
    let cc = Covercrypt::default();
    let (mut msk, mpk) = cc_keygen(&cc, false).unwrap();
    let usk = cc.generate_user_secret_key(&mut msk, &ap("DPT::FIN")).unwrap();
    let bytes = usk.serialize().unwrap().to_vec();
    let mut p = 0;
    let n = leb(&bytes, &mut p) as usize;
    p += 32 * n;
    let n = leb(&bytes, &mut p) as usize;
    p += 32 * n;
    let mut out = bytes[..p].to_vec();
    out.push(0); // zero rights, no signature
    let usk0 = UserSecretKey::deserialize(&out).unwrap();
    let (_, enc) = cc.encaps(&mpk, &ap("DPT::FIN")).unwrap();
    let (tx, rx) = std::sync::mpsc::channel();
    std::thread::spawn(move || {
        let cc = Covercrypt::default();
        let r = cc.decaps(&usk0, &enc).map(|o| o.is_some());
        let _ = tx.send(format!("{r:?}"));
    });
    match rx.recv_timeout(std::time::Duration::from_secs(5)) {
        Ok(r) => println!("D9c decaps with zero-rights usk returned {r}"),
        Err(_) => println!("D9c decaps with zero-rights usk DID NOT TERMINATE within 5s"),
    }
}

#[test]
fn d10_parse_non_ascii() {
    for s in ["é", "é::a", "(é::a)", "|é", "A::b && é::c", "A::é"] {
        let r = std::panic::catch_unwind(|| AccessPolicy::parse(s).map(|p| format!("{p:?}")).map_err(|e| e.to_string()));
        println!("D10 parse({s:?}) -> {}", match r { Ok(v) => format!("{v:?}"), Err(_) => "PANIC".to_string() });
    }
}

#[test]
fn d11_write_return() {
    let cc = Covercrypt::default();
    let (msk, _mpk) = cc_keygen(&cc, false).unwrap();
    let mut ser = cosmian_crypto_core::bytes_ser_de::Serializer::new();
    let n = msk.write(&mut ser).unwrap();
    let l = ser.finalize().len();
    println!("D11 MasterSecretKey::write returned {n}, wrote {l}, length() {}", msk.length());
    let _: Option<MasterSecretKey> = None;
}

#[test]
fn d12_msk_rollback_refresh() {
    let cc = Covercrypt::default();
    let (mut msk, _mpk) = cc_keygen(&cc, false).unwrap();
    let snapshot = msk.serialize().unwrap().to_vec();
    let mut usk = cc.generate_user_secret_key(&mut msk, &ap("DPT::FIN")).unwrap();
    let mut old_msk = MasterSecretKey::deserialize(&snapshot).unwrap();
    let before = usk.serialize().unwrap().to_vec();
    let res = cc.refresh_usk(&mut old_msk, &mut usk, true);
    let after = usk.serialize().unwrap().to_vec();
    println!("D12 refresh with rolled-back msk is_err: {} ; usk unchanged: {} ({} -> {})", res.is_err(), before == after, before.len(), after.len());
}
