use cosmian_cover_crypt::AccessStructure;
use cosmian_crypto_core::bytes_ser_de::Serializable;
fn main() {
    let shift: u32 = std::env::args().nth(1).unwrap().parse().unwrap();
    let mut b = vec![0u8, 1u8];
    let mut n: u64 = 1u64 << shift;
    loop { let mut x = (n & 0x7f) as u8; n >>= 7; if n != 0 { x |= 0x80; } b.push(x); if n == 0 { break; } }
    eprintln!("input {} bytes", b.len());
    let r = AccessStructure::deserialize(&b);
    eprintln!("returned is_err={}", r.is_err());
}
