"""Planned self-test mutants (data only).

Each mutant is a textual replacement applied to a scratch copy of the
*repaired* tree (all of findings/planned_fixes applied).  `survives` records
whether the 33 repository tests still pass with the mutant (measured once, see
DESIGN.md section 8).  `rule` is the rule that must fire.
"""

MUTANTS = [
    # id, property, rule, file, old, new
    ("M02a", "C02", "C02.guard", "src/core/primitives.rs",
     """                    let c_ij = usk.set_traps(&r);
                    if c == c_ij {
                        return Ok(Some(ss));""",
     """                    let c_ij = usk.set_traps(&r);
                    if c.len() == c_ij.len() {
                        return Ok(Some(ss));"""),
    ("M05b", "C05", "C05.prune-newest", "src/core/primitives.rs",
     "        msk.secrets.keep(coordinate, 1);",
     "        msk.secrets.keep(coordinate, 2);"),
    ("M07a", "C07", "C07.binding", "src/core/primitives.rs",
     None, None),  # special: drop F from U on the three classic sides, see runner
    ("M07b", "C07", "C07.aead", "src/encrypted_header.rs",
     None, None),  # special: authentication_data -> None on both sides
    ("M08b", "C08", "C08.verify-first", "src/core/primitives.rs",
     "    if fresh_signature != usk.signature {",
     "    if usk.signature.is_some() && fresh_signature != usk.signature {"),
    ("M09d", "C09", "C09.contract-table", "src/abe_policy/access_structure.rs",
     """            Some(d) => d.disable_attribute(&attr.name),
            None => Err(Error::DimensionNotFound(attr.dimension.to_string())),""",
     """            Some(d) => d.disable_attribute(&attr.name),
            None => Ok(()),"""),
    ("M11a", "C11", "C11.truth-tables", "src/abe_policy/attribute.rs",
     "        if self == Self::Hybridized || rhs == Self::Hybridized {",
     "        if self == Self::Hybridized && rhs == Self::Hybridized {"),
    ("M11b", "C11", "C11.creation", "src/core/primitives.rs",
     "            let secret = RightSecretKey::random(rng, key.is_hybridized())?;",
     "            let secret = RightSecretKey::random(rng, false)?;"),
    ("M12a", "C12", "C12.guarded-slice", "src/ae.rs",
     """        if ctx.len() < Self::NONCE_LENGTH {
            return Err(Error::CryptoCoreError(
                cosmian_crypto_core::CryptoCoreError::DecryptionError,
            ));
        }
""", ""),
    ("M12b", "C16", "C16.labels", "src/encrypted_header.rs",
     None, None),  # special: metadata key derived with label [1] on both sides
    ("M13a", "C13", "C13.fields", "src/core/serialization/mod.rs",
     None, None),  # special: activation flag dropped from the MSK wire format
    ("M16a", "C16", "C16.nonce", "src/ae.rs",
     "        let nonce = Nonce::<{ Self::NONCE_LENGTH }>::new(&mut *rng);",
     "        let _ = &rng;\n        let nonce = Nonce::<{ Self::NONCE_LENGTH }>::try_from_slice(&[0; Self::NONCE_LENGTH])?;"),
    ("M16b", "C16", "C16.seed", "src/core/primitives.rs",
     "    let S = Secret::random(rng);",
     "    let S = Secret::<SHARED_SECRET_LENGTH>::new();"),
    ("M17a", "C17", "C17.registered", "src/core/mod.rs",
     "        if !self.is_known(&id) {",
     "        if false && !self.is_known(&id) {"),
    ("M18b", "C18", "C18.guard", "src/core/primitives.rs",
     "            if encapsulation.c == c_ij {",
     "            if encapsulation.c.len() == c_ij.len() {"),
]

# Reverting a repair is a mutant by construction (the pinned tree passes the
# 33 tests): F01->C04.iter, F02->C05.subsequence, F03->C06.flag-provenance,
# F04->C09.refresh-total/C10.atomic, F05,F06->C10.atomic, F07->C14.alloc,
# F08->C14.panic, F09->C15.char-boundary, F10->C13.count, F11->C14.alloc,
# F12->C18.flag-position.
REVERTS = ["F01", "F02", "F03", "F04", "F05", "F06", "F07", "F08", "F09", "F10", "F11", "F12"]
