#!/usr/bin/env python3
"""selftest/run.py [--all | ids...] [--tests]

Applies each catalogued mutant to a scratch copy of /repo HEAD (outside /repo and
/verif), runs the quick check of the properties it must break, and reports whether
the expected rule fired.  With --tests also runs the repository test-suite on the
mutant (slow) to confirm that it survives.  Scratch copies are removed."""
import json
import os
import re
import shutil
import subprocess
import sys
import tempfile

HERE = os.path.dirname(os.path.abspath(__file__))
VERIF = os.path.dirname(HERE)
sys.path.insert(0, HERE)
from catalogue import MUTANTS  # noqa: E402


def scratch():
    d = tempfile.mkdtemp(prefix='mut.', dir='/tmp')
    p = subprocess.Popen(['git', '-C', '/repo', 'archive', 'HEAD'], stdout=subprocess.PIPE)
    subprocess.check_call(['tar', '-x', '-C', d], stdin=p.stdout)
    p.wait()
    return d


def apply(m, d):
    if 'patch_abs' in m:
        subprocess.check_call(['git', 'init', '-q'], cwd=d)
        r = subprocess.run(['git', 'apply', m['patch_abs']], cwd=d, capture_output=True, text=True)
        if r.returncode != 0:
            raise RuntimeError('patch does not apply: ' + r.stderr)
        return
    if 'patch' in m:
        subprocess.check_call(['git', 'init', '-q'], cwd=d)
        r = subprocess.run(['git', 'apply', os.path.join(HERE, 'mutants', m['patch'])], cwd=d,
                           capture_output=True, text=True)
        if r.returncode != 0:
            raise RuntimeError('patch does not apply: ' + r.stderr)
        return
    for (f, old, new) in m['edits']:
        p = os.path.join(d, f)
        t = open(p).read()
        if t.count(old) < 1:
            raise RuntimeError('edit anchor not found in %s: %r' % (f, old[:60]))
        t = t.replace(old, new) if m.get('all') else t.replace(old, new, 1)
        open(p, 'w').write(t)


def run_one(m, tests=False):
    d = scratch()
    res = {'id': m['id'], 'props': m['props'], 'expect': m.get('expect', ''), 'fired': {}, 'keys': {}}
    try:
        apply(m, d)
        env = dict(os.environ, VERIF_REPO=d)
        for p in m['props']:
            r = subprocess.run([os.path.join(VERIF, 'bin', 'check'), p], env=env, capture_output=True, text=True)
            keys = re.findall(r'^  (C\d+\..+)$', r.stdout, re.M)
            res['fired'][p] = (r.returncode == 1 and 'VIOLATION property=%s' % p in r.stdout)
            res['keys'][p] = keys
            if 'repo-does-not-build' in r.stdout:
                res['build_failed'] = True
        if tests:
            r = subprocess.run(['cargo', 'test', '--offline', '--no-fail-fast'], cwd=d, capture_output=True, text=True,
                               env=dict(os.environ, CARGO_NET_OFFLINE='true', CARGO_TARGET_DIR='/tmp/mut-target'))
            m_ = re.findall(r'test result: (\w+)\. (\d+) passed; (\d+) failed', r.stdout)
            res['tests'] = m_[:1]
    except Exception as e:
        res['error'] = str(e)
    finally:
        shutil.rmtree(d, ignore_errors=True)
    return res


def main():
    args = [a for a in sys.argv[1:] if not a.startswith('--')]
    tests = '--tests' in sys.argv
    sel = [m for m in MUTANTS if '--all' in sys.argv or m['id'] in args or any(m['id'].startswith(a) for a in args)]
    bad = 0
    for m in sel:
        r = run_one(m, tests)
        exp = m.get('expect', '')
        ok = all(r['fired'].get(p) for p in m['props']) and not r.get('error') and not r.get('build_failed')
        if ok and exp:
            ok = any(exp in k for p in m['props'] for k in r['keys'].get(p, []))
        print('%-10s %-12s %s %s %s' % (m['id'], ','.join(m['props']), 'CAUGHT' if ok else 'MISSED',
                                       r.get('error', '') or ('BUILD-FAILED' if r.get('build_failed') else ''),
                                       r.get('tests', '')))
        if not ok:
            bad += 1
            for p, ks in r['keys'].items():
                for k in ks:
                    print('      ', k)
    print('%d mutants, %d not caught' % (len(sel), bad))
    sys.exit(1 if bad else 0)


if __name__ == '__main__':
    main()
