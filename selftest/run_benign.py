#!/usr/bin/env python3
"""Applies each behaviour-preserving edit to a scratch copy and runs ALL quick checks: none may alarm."""
import json, os, re, subprocess, sys
HERE = os.path.dirname(os.path.abspath(__file__))
sys.path.insert(0, HERE)
import run as st
from benign import BENIGN
ids = [json.loads(l)['id'] for l in open(os.path.join(st.VERIF, 'properties.jsonl'))]
if os.environ.get('VERIF_BENIGN_PROPS'):
    ids = os.environ['VERIF_BENIGN_PROPS'].split(',')      # after a change to some properties' rules only
sel = [b for b in BENIGN if len(sys.argv) < 2 or any(b['id'].startswith(a) for a in sys.argv[1:])]
bad = 0
for b in sel:
    d = st.scratch()
    try:
        st.apply(b, d)
        env = dict(os.environ, VERIF_REPO=d)
        alarms = []
        for p in ids:
            r = subprocess.run([os.path.join(st.VERIF, 'bin', 'check'), p], env=env, capture_output=True, text=True)
            if r.returncode != 0:
                alarms += re.findall(r'^  (C\d+\..+)$', r.stdout, re.M)
        print('%-28s %s' % (b['id'], 'quiet' if not alarms else 'FALSE ALARM'))
        for a in alarms:
            print('      ', a)
        bad += bool(alarms)
    except Exception as e:
        print(b['id'], 'ERROR', e)
        bad += 1
    finally:
        import shutil; shutil.rmtree(d, ignore_errors=True)
print('%d benign edits, %d with alarms' % (len(sel), bad))
