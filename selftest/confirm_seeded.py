#!/usr/bin/env python3
"""confirm_seeded.py <worktree> <prop>: independently confirm the sub-agent's deliverables and, if confirmed,
store them under /verif/seeded/<prop>-<n>/ (patch.diff, demo.diff, meta.json).

For each change k: (1) change + demo applied: the 33 baseline tests pass and at least one demo test fails;
(2) demo only: everything passes.  Runs in the given worktree (its target dir is reused)."""
import json, os, re, subprocess, sys, shutil
wt, prop = sys.argv[1], sys.argv[2]
offset = int(sys.argv[3]) if len(sys.argv) > 3 else 0
VERIF = '/verif'
base = set(n.split('::', 1)[1] for n in json.load(open('/root/.vp/BASELINE.json'))['stable_pass'])
env = dict(os.environ, CARGO_NET_OFFLINE='true', CARGO_TARGET_DIR=os.path.join(wt, 'target'))


def sh(*a, **k):
    return subprocess.run(a, cwd=wt, capture_output=True, text=True, **k)


def clean():
    sh('git', 'checkout', '--', '.')
    sh('git', 'clean', '-fdq', '-e', 'out', '-e', 'target')


def run_tests():
    r = subprocess.run(['cargo', 'test', '--offline', '--no-fail-fast'], cwd=wt, env=env, capture_output=True, text=True)
    res = dict(re.findall(r'^test (\S+) \.\.\. (ok|FAILED)', r.stdout, re.M))
    return res, r


out = {}
for k in (1, 2, 3):
    ch, demo = os.path.join(wt, 'out', 'change%d.diff' % k), os.path.join(wt, 'out', 'demo%d.diff' % k)
    if not (os.path.exists(ch) and os.path.exists(demo)):
        continue
    clean()
    a1, a2 = sh('git', 'apply', ch), sh('git', 'apply', demo)
    if a1.returncode or a2.returncode:
        out[k] = 'does not apply: %s %s' % (a1.stderr[:100], a2.stderr[:100]); clean(); continue
    res1, r1 = run_tests()
    if not res1:
        out[k] = 'no test output with change (build failed?): ' + r1.stderr[-300:]; clean(); continue
    base_fail1 = [n for n in base if res1.get(n) != 'ok']
    demo_fail1 = [n for n, v in res1.items() if v == 'FAILED' and n not in base]
    clean()
    sh('git', 'apply', demo)
    res2, r2 = run_tests()
    fail2 = [n for n, v in res2.items() if v == 'FAILED']
    clean()
    ok = (not base_fail1) and bool(demo_fail1) and res2 and not fail2 and len([n for n in base if res2.get(n) == 'ok']) == len(base)
    out[k] = {'confirmed': ok, 'with_change': {'baseline_not_ok': base_fail1, 'demo_failed': demo_fail1, 'n_tests': len(res1)},
              'without_change': {'failed': fail2, 'n_tests': len(res2)}}
    if ok:
        d = os.path.join(VERIF, 'seeded', '%s-%d' % (prop, k + offset))
        os.makedirs(d, exist_ok=True)
        shutil.copy(ch, os.path.join(d, 'patch.diff'))
        shutil.copy(demo, os.path.join(d, 'demo.diff'))
        notes = open(os.path.join(wt, 'out', 'notes.md')).read() if os.path.exists(os.path.join(wt, 'out', 'notes.md')) else ''
        meta = {'property': prop, 'source': 'independent sub-agent given only the property text and a scratch worktree',
                'what_it_needs_to_manifest': 'see notes.md', 'confirmed_by': 'selftest/confirm_seeded.py',
                'ran': ['git apply patch.diff demo.diff; cargo test --offline --no-fail-fast  -> baseline 33 ok, demo failed: %s' % demo_fail1,
                        'git apply demo.diff (no change); cargo test --offline --no-fail-fast -> %d tests, 0 failed' % len(res2)],
                'detected_by': None}
        json.dump(meta, open(os.path.join(d, 'meta.json'), 'w'), indent=1)
        open(os.path.join(d, 'notes.md'), 'w').write(notes)
print(json.dumps({prop: out}, indent=1))
