#!/bin/sh
# selftest/try.sh <patch> <Cxx>... : apply a patch to a scratch copy of /repo HEAD and run checks on it.
# Evidence written by these runs describes the scratch copy: re-run the real check afterwards.
set -e
P=$(readlink -f "$1"); shift
D=$(mktemp -d /tmp/mut.XXXXXX)
trap 'rm -rf "$D"' EXIT
git -C /repo archive HEAD | tar -x -C "$D"
(cd "$D" && git init -q && git apply "$P") || { echo "PATCH DOES NOT APPLY"; exit 2; }
cd /verif
for p in "$@"; do
  VERIF_REPO="$D" bin/check "$p" 2>&1 | grep -E "^  C[0-9]+\.|^C[0-9]+ |KNOWN" || true
done
