#!/usr/bin/env python3
"""For every /verif/seeded/<id>/patch.diff: run all quick checks on a scratch copy with the patch applied,
record which fire in meta.json (detected_by) and print a table."""
import glob, json, os, re, subprocess, sys, shutil
HERE = os.path.dirname(os.path.abspath(__file__))
sys.path.insert(0, HERE)
import run as st
ids = [json.loads(l)['id'] for l in open(os.path.join(st.VERIF, 'properties.jsonl'))]
sel = sys.argv[1:]
for d_in in sorted(glob.glob(os.path.join(st.VERIF, 'seeded', '*'))):
    name = os.path.basename(d_in)
    if sel and not any(name.startswith(s) for s in sel):
        continue
    mp = os.path.join(d_in, 'meta.json')
    meta = json.load(open(mp))
    d = st.scratch()
    try:
        subprocess.check_call(['git', 'init', '-q'], cwd=d)
        r = subprocess.run(['git', 'apply', os.path.join(d_in, 'patch.diff')], cwd=d, capture_output=True, text=True)
        if r.returncode != 0:
            print(name, 'patch does not apply on /repo HEAD'); continue
        env = dict(os.environ, VERIF_REPO=d)
        fired = {}
        for p in ids:
            r = subprocess.run([os.path.join(st.VERIF, 'bin', 'check'), p], env=env, capture_output=True, text=True)
            if r.returncode != 0:
                fired[p] = re.findall(r'^  (C\d+\..+)$', r.stdout, re.M)
        meta['detected_by'] = fired
        meta['detected_by_own_property_check'] = meta['property'] in fired
        json.dump(meta, open(mp, 'w'), indent=1)
        print('%-8s own=%s  %s' % (name, meta['property'] in fired, ', '.join('%s(%s)' % (p, ks[0].split(':')[0].split('.', 1)[1] if ks else '') for p, ks in fired.items())))
    finally:
        shutil.rmtree(d, ignore_errors=True)
