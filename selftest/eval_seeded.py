#!/usr/bin/env python3
"""eval_seeded.py <dir with change*.diff> [props...] : apply each change to a scratch copy of /repo HEAD
and run the given (default: all) quick checks; print which fire."""
import glob, json, os, re, subprocess, sys, shutil
HERE = os.path.dirname(os.path.abspath(__file__))
sys.path.insert(0, HERE)
import run as st
d_in = sys.argv[1]
ids = sys.argv[2:] or [json.loads(l)['id'] for l in open(os.path.join(st.VERIF, 'properties.jsonl'))]
for ch in sorted(glob.glob(os.path.join(d_in, 'change*.diff')) + glob.glob(os.path.join(d_in, 'patch.diff')) + glob.glob(os.path.join(d_in, 'refactor*.diff'))):
    d = st.scratch()
    try:
        subprocess.check_call(['git', 'init', '-q'], cwd=d)
        r = subprocess.run(['git', 'apply', ch], cwd=d, capture_output=True, text=True)
        if r.returncode != 0:
            print(ch, 'DOES NOT APPLY', r.stderr[:200]); continue
        env = dict(os.environ, VERIF_REPO=d)
        fired = {}
        for p in ids:
            r = subprocess.run([os.path.join(st.VERIF, 'bin', 'check'), p], env=env, capture_output=True, text=True)
            if r.returncode != 0:
                fired[p] = re.findall(r'^  (C\d+\..+)$', r.stdout, re.M)
        print('%s: %s' % (os.path.basename(ch), 'CAUGHT by ' + ','.join(fired) if fired else 'MISSED'))
        for p, ks in fired.items():
            for k in ks[:4]:
                print('      ', k)
    finally:
        shutil.rmtree(d, ignore_errors=True)
