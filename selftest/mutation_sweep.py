#!/usr/bin/env python3
"""Systematic sweep of small, ordinary source mutations (operator swaps, off-by-one, dropped statements, swapped ends of a
list, ...) over the non-test code of /repo.

  python3 selftest/mutation_sweep.py gen                  -> .cache/sweep/mutants.jsonl (one candidate per line)
  python3 selftest/mutation_sweep.py run [-j N] [--limit K] [--filter REGEX]
        for every candidate: apply to a per-worker copy, `cargo test --offline --lib` (the 33 tests);
        mutants that do not compile or that the tests kill are dropped; for the survivors all 19 quick checks are run
        on the worker copy (VERIF_REPO) and the checks that fire are recorded -> .cache/sweep/results.jsonl
  python3 selftest/mutation_sweep.py report               -> summary + the survivors no check reports

Survivors that no check reports are either equivalent mutants, breaks of behaviour no listed property covers, or blind
spots; they are triaged by hand (selftest/sweep_triage.md)."""
import json
import os
import re
import shutil
import subprocess
import sys
import tempfile
from concurrent.futures import ThreadPoolExecutor

HERE = os.path.dirname(os.path.abspath(__file__))
VERIF = os.path.dirname(HERE)
REPO = '/repo'
OUT = os.path.join(VERIF, '.cache', 'sweep')
FILES = ['src/api.rs', 'src/ae.rs', 'src/bytes_de.rs', 'src/encrypted_header.rs',
         'src/abe_policy/access_policy.rs', 'src/abe_policy/access_structure.rs', 'src/abe_policy/attribute.rs',
         'src/abe_policy/dimension.rs', 'src/abe_policy/rights.rs',
         'src/core/mod.rs', 'src/core/primitives.rs', 'src/core/serialization/mod.rs',
         'src/data_struct/dictionary.rs', 'src/data_struct/revision_map.rs', 'src/data_struct/revision_vec.rs']

# (name, regex, replacement) applied once per match on a code line
OPS = [
    ('eq->ne', r' == ', ' != '), ('ne->eq', r' != ', ' == '),
    ('lt->le', r' < ', ' <= '), ('le->lt', r' <= ', ' < '), ('gt->ge', r' > ', ' >= '), ('ge->gt', r' >= ', ' > '),
    ('and->or', r' && ', ' || '), ('or->and', r' \|\| ', ' && '),
    ('true->false', r'\btrue\b', 'false'), ('false->true', r'\bfalse\b', 'true'),
    ('push_back->front', r'\bpush_back\b', 'push_front'), ('push_front->back', r'\bpush_front\b', 'push_back'),
    ('front->back', r'\.front\(\)', '.back()'), ('back->front', r'\.back\(\)', '.front()'),
    ('front_mut->back_mut', r'\.front_mut\(\)', '.back_mut()'),
    ('pop_front->pop_back', r'\bpop_front\b', 'pop_back'), ('pop_back->pop_front', r'\bpop_back\b', 'pop_front'),
    ('plus1->', r' \+ 1\b', ''), ('minus1->', r' - 1\b', ''), ('plus->minus', r' \+ (?!=)', ' - '),
    ('min->max', r'\.min\(', '.max('), ('max->min', r'\.max\(', '.min('),
    ('not->', r'(?<![=!<>])!(?=[a-zA-Z_(*])(?!\[)', ''),
    ('rev->', r'\.rev\(\)', ''),
    ('any->all', r'\.any\(', '.all('), ('all->any', r'\.all\(', '.any('),
    ('eq0->eq1', r'== 0\b', '== 1'), ('eq1->eq0', r'== 1\b', '== 0'), ('0eq->1eq', r'\b0 == ', '1 == '), ('1eq->0eq', r'\b1 == ', '0 == '),
    ('is_some->is_none', r'\.is_some\(\)', '.is_none()'), ('is_none->is_some', r'\.is_none\(\)', '.is_some()'),
    ('is_empty->not', r'(\b[\w.]+)\.is_empty\(\)', r'!\1.is_empty()'),
    ('Hyb->Classic', r'\bEncryptionHint::Hybridized\b', 'EncryptionHint::Classic'),
    ('Classic->Hyb', r'\bEncryptionHint::Classic\b', 'EncryptionHint::Hybridized'),
    ('ED->DO', r'\bAttributeStatus::EncryptDecrypt\b', 'AttributeStatus::DecryptOnly'),
    ('DO->ED', r'\bAttributeStatus::DecryptOnly\b', 'AttributeStatus::EncryptDecrypt'),
    ('take_while->skip_while', r'\.take_while\(', '.skip_while('),
    ('iter->iter.rev', r'\.iter\(\)(?=\s*(\.map|\.zip|\.for_each|\.try_for_each|\.filter_map|\)|\s*\{|$))', '.iter().rev()'),
    ('usk->enc rights', r'\bap_to_usk_rights\b', 'ap_to_enc_rights'), ('enc->usk rights', r'\bap_to_enc_rights\b', 'ap_to_usk_rights'),
    ('1->2', r'\(([a-z_.]+), 1\)', r'(\1, 2)'),
    ('clone-swap T/U', r'\(T, U\)', '(U, T)'), ('swap &T,&U', r'&T, &U', '&U, &T'),
    ('Some->None', r'\bSome\(K2\)', 'None'),
    ('if->true', r'^(\s*(?:\} else )?if )(?!let )(.+)( \{)$', r'\1true\3'),
    ('if->false', r'^(\s*(?:\} else )?if )(?!let )(.+)( \{)$', r'\1false\3'),
    ('.0->.1', r'\.0\b(?!\.)', '.1'), ('.1->.0', r'\.1\b(?!\.)', '.0'),
    ('swap-args', r'\((&?\*?\*?[A-Za-z_][\w.]*), (&?\*?\*?[A-Za-z_][\w.]*)\)', r'(\2, \1)'),
    ('0..->1..', r'\b0\.\.(?=[a-zA-Z_(])', '1..'),
    ('Some->None ret', r'Ok\(Some\([^()]*\)\)', 'Ok(None)'),
    ('1u8->2u8', r'\b1u8\b', '2u8'), ('0u8->1u8', r'\b0u8\b', '1u8'),
    ('T->U', r'&\*?\*?T\b', '&U'), ('U->T', r'&\*?\*?U\b', '&T'),
    ('take+1', r'\.take\(([^()]+)\)', r'.take(\1 + 1)'),
    ('+=->=', r' \+= ', ' = '),
    ('?->ok', r'^(\s*(?!let |n \+= |return )[^=]*\))\?;$', r'\1.ok();'),
]
DELETE_STMT = re.compile(r'^\s*(?!let |return|if |for |while |match |else|\}|//|#|use |pub |fn |impl |mod |type |const |static |struct |enum )'
                         r'[A-Za-z_][\w.:<>&*]*\s*[.(].*\)\??;\s*$')


def code_lines(path):
    """(line number, text) of the lines that are not tests, comments, attributes or imports."""
    with open(path) as f:
        lines = f.read().split('\n')
    skip_from = None
    out = []
    i = 0
    n = len(lines)
    skip_until = -1
    while i < n:
        s = lines[i].strip()
        if s.startswith('#[test]'):
            depth = 0
            started = False
            k = i + 1
            while k < n:
                depth += lines[k].count('{') - lines[k].count('}')
                if '{' in lines[k]:
                    started = True
                if started and depth <= 0:
                    break
                k += 1
            i = k + 1
            continue
        if s.startswith('#[cfg(test)]'):
            j = i + 1
            while j < n and not lines[j].strip():
                j += 1
            nxt = lines[j].strip() if j < n else ''
            if nxt.startswith('mod ') or nxt.startswith('pub mod ') or nxt.startswith('pub(crate) mod'):
                break           # test modules close the file
            # a single test-only item: skip it by brace matching
            depth = 0
            started = False
            k = j
            while k < n:
                depth += lines[k].count('{') - lines[k].count('}')
                if '{' in lines[k]:
                    started = True
                if started and depth <= 0:
                    break
                k += 1
            i = k + 1
            continue
        if s and not s.startswith('//') and not s.startswith('#[') and not s.startswith('use ') and not s.startswith('///'):
            out.append((i, lines[i]))
        i += 1
    return lines, out


def gen():
    os.makedirs(OUT, exist_ok=True)
    cands = []
    for rel in FILES:
        lines, code = code_lines(os.path.join(REPO, rel))
        for (i, text) in code:
            body = text.split('//')[0]
            if re.search(r'"[^"]*$', body) and body.count('"') % 2 == 1:
                continue
            for (name, pat, rep) in OPS:
                if name == 'plus->minus' and re.search(r'\b(Hash|Clone|Eq|Debug|Serialize|Sized|Send|Sync|PartialEq|Deserialize|Ord)\b|<[A-Z]', body):
                    continue
                for m in re.finditer(pat, body):
                    # not inside a string literal
                    if body[:m.start()].count('"') % 2 == 1:
                        continue
                    new = body[:m.start()] + m.expand(rep) if '\\1' in rep else body[:m.start()] + rep
                    new = (body[:m.start()] + re.sub(pat, rep, body[m.start():m.end()], count=1) + body[m.end():])
                    if new == body:
                        continue
                    cands.append({'file': rel, 'line': i + 1, 'op': name, 'before': text, 'after': new + text[len(body):]})
            if DELETE_STMT.match(body) and not re.search(r'\b(Ok|Err|Some|None)\(', body.strip()[:6]):
                cands.append({'file': rel, 'line': i + 1, 'op': 'delete-stmt', 'before': text, 'after': ''})
    prev = {}
    mp = os.path.join(OUT, 'mutants.jsonl')
    if os.path.exists(mp):
        for l in open(mp):
            d = json.loads(l)
            prev[(d['file'], d['line'], d['op'], d['after'])] = d['id']
    nxt = max([int(v[1:]) for v in prev.values()] + [-1]) + 1
    for c in cands:
        k = (c['file'], c['line'], c['op'], c['after'])
        if k in prev:
            c['id'] = prev[k]
        else:
            c['id'] = 'S%04d' % nxt
            nxt += 1
    with open(os.path.join(OUT, 'mutants.jsonl'), 'w') as f:
        for c in cands:
            f.write(json.dumps(c) + '\n')
    print('%d candidates -> %s' % (len(cands), os.path.join(OUT, 'mutants.jsonl')))


class Worker:
    def __init__(self, idx):
        self.dir = tempfile.mkdtemp(prefix='sweep%d.' % idx, dir='/tmp')
        subprocess.check_call('git -C %s archive HEAD | tar -x -C %s' % (REPO, self.dir), shell=True)
        shutil.copy(os.path.join(REPO, 'Cargo.lock'), self.dir) if os.path.exists(os.path.join(REPO, 'Cargo.lock')) else None
        self.env = dict(os.environ, CARGO_NET_OFFLINE='true', CARGO_TARGET_DIR=os.path.join(self.dir, 'target'))
        # warm build
        subprocess.run(['cargo', 'test', '--offline', '--lib', '--no-run'], cwd=self.dir, env=self.env, capture_output=True)

    def run(self, c, ids):
        path = os.path.join(self.dir, c['file'])
        with open(path) as f:
            orig = f.read()
        lines = orig.split('\n')
        if lines[c['line'] - 1] != c['before']:
            return dict(c, status='stale')
        lines[c['line'] - 1] = c['after']
        with open(path, 'w') as f:
            f.write('\n'.join(lines))
        try:
            r = subprocess.run(['cargo', 'test', '--offline', '--lib', '--no-run'], cwd=self.dir, env=self.env, capture_output=True, text=True,
                               timeout=600)
            if r.returncode != 0:
                return dict(c, status='no-build')
            # own process group: a mutant that makes a test spin must not outlive the timeout (cargo's child would)
            pr = subprocess.Popen(['cargo', 'test', '--offline', '--lib', '--', '--test-threads', '4'], cwd=self.dir, env=self.env,
                                  stdout=subprocess.PIPE, stderr=subprocess.PIPE, text=True, start_new_session=True)
            try:
                so, se = pr.communicate(timeout=300)
            except subprocess.TimeoutExpired:
                import signal
                os.killpg(pr.pid, signal.SIGKILL)
                pr.communicate()
                return dict(c, status='killed', by='timeout')

            class _R:
                pass
            r = _R()
            r.stdout, r.returncode = so, pr.returncode
            m = re.search(r'test result: (\w+)\. (\d+) passed; (\d+) failed', r.stdout)
            if not m or m.group(1) != 'ok':
                failed = re.findall(r'^test (\S+) \.\.\. FAILED', r.stdout, re.M)
                return dict(c, status='killed', by=failed[:3])
            fired = {}
            env = dict(os.environ, VERIF_REPO=self.dir)
            for p in ids:
                rr = subprocess.run([os.path.join(VERIF, 'bin', 'check'), p], env=env, capture_output=True, text=True)
                if rr.returncode != 0:
                    fired[p] = re.findall(r'^  (C\d+\..+)$', rr.stdout, re.M)[:3]
            return dict(c, status='survived', fired=fired)
        finally:
            with open(path, 'w') as f:
                f.write(orig)

    def close(self):
        shutil.rmtree(self.dir, ignore_errors=True)


def run(argv):
    j = 6
    limit = None
    flt = None
    i = 0
    while i < len(argv):
        if argv[i] == '-j':
            j = int(argv[i + 1]); i += 2
        elif argv[i] == '--limit':
            limit = int(argv[i + 1]); i += 2
        elif argv[i] == '--filter':
            flt = re.compile(argv[i + 1]); i += 2
        else:
            i += 1
    ids = [json.loads(l)['id'] for l in open(os.path.join(VERIF, 'properties.jsonl'))]
    cands = [json.loads(l) for l in open(os.path.join(OUT, 'mutants.jsonl'))]
    done = set()
    resp = os.path.join(OUT, 'results.jsonl')
    if os.path.exists(resp):
        for l in open(resp):
            done.add(json.loads(l)['id'])
    todo = [c for c in cands if c['id'] not in done and (flt is None or flt.search(c['file'] + ':' + c['op']))]
    if limit:
        todo = todo[:limit]
    print('%d to run on %d workers' % (len(todo), j), flush=True)
    workers = [Worker(k) for k in range(j)]
    import threading
    lock = threading.Lock()
    free = list(workers)

    def one(c):
        with lock:
            w = free.pop()
        try:
            r = w.run(c, ids)
        except Exception as e:       # noqa
            r = dict(c, status='error', err=repr(e)[:200])
        finally:
            with lock:
                free.append(w)
        with lock:
            with open(resp, 'a') as f:
                f.write(json.dumps(r) + '\n')
            print(r['id'], r['file'], r['line'], r['op'], r['status'], sorted(r.get('fired', {})), flush=True)
        return r
    try:
        with ThreadPoolExecutor(max_workers=j) as ex:
            list(ex.map(one, todo))
    finally:
        for w in workers:
            w.close()


def recheck(argv):
    """Re-run the checks (not the tests) on every mutant that survived the tests; rewrites results.jsonl."""
    j = int(argv[1]) if len(argv) > 1 and argv[0] == '-j' else 8
    ids = [json.loads(l)['id'] for l in open(os.path.join(VERIF, 'properties.jsonl'))]
    resp = os.path.join(OUT, 'results.jsonl')
    rs = [json.loads(l) for l in open(resp)]
    sv = [r for r in rs if r['status'] == 'survived']

    def one(r):
        d = tempfile.mkdtemp(prefix='sweepre.', dir='/tmp')
        try:
            subprocess.check_call('git -C %s archive HEAD | tar -x -C %s' % (REPO, d), shell=True)
            path = os.path.join(d, r['file'])
            lines = open(path).read().split('\n')
            if lines[r['line'] - 1] != r['before']:
                r['status'] = 'stale'
                return
            lines[r['line'] - 1] = r['after']
            open(path, 'w').write('\n'.join(lines))
            env = dict(os.environ, VERIF_REPO=d)
            fired = {}
            for p in ids:
                rr = subprocess.run([os.path.join(VERIF, 'bin', 'check'), p], env=env, capture_output=True, text=True)
                if rr.returncode != 0:
                    fired[p] = re.findall(r'^  (C\d+\..+)$', rr.stdout, re.M)[:3]
            r['fired'] = fired
            print(r['id'], sorted(fired), flush=True)
        finally:
            shutil.rmtree(d, ignore_errors=True)
    with ThreadPoolExecutor(max_workers=j) as ex:
        list(ex.map(one, sv))
    with open(resp, 'w') as f:
        for r in rs:
            f.write(json.dumps(r) + '\n')


def report():
    rs = [json.loads(l) for l in open(os.path.join(OUT, 'results.jsonl'))]
    by = {}
    for r in rs:
        by.setdefault(r['status'], []).append(r)
    print({k: len(v) for k, v in by.items()})
    sv = by.get('survived', [])
    caught = [r for r in sv if r['fired']]
    print('survived the 33 tests: %d; reported by some check: %d; by none: %d' % (len(sv), len(caught), len(sv) - len(caught)))
    for r in sv:
        if not r['fired']:
            print('%s %s:%d [%s]\n    - %s\n    + %s' % (r['id'], r['file'], r['line'], r['op'], r['before'].strip(), r['after'].strip()))


if __name__ == '__main__':
    cmd = sys.argv[1] if len(sys.argv) > 1 else 'report'
    if cmd == 'gen':
        gen()
    elif cmd == 'run':
        run(sys.argv[2:])
    elif cmd == 'try':
        pass
    elif cmd == 'recheck':
        recheck(sys.argv[2:])
    else:
        report()


def try_one(argv):
    """python3 selftest/mutation_sweep.py try S0115 [Cxx ...]: apply one candidate to a scratch copy and run checks."""
    mid = argv[0]
    props = argv[1:] or [json.loads(l)['id'] for l in open(os.path.join(VERIF, 'properties.jsonl'))]
    c = [json.loads(l) for l in open(os.path.join(OUT, 'mutants.jsonl')) if json.loads(l)['id'] == mid][0]
    d = tempfile.mkdtemp(prefix='sweeptry.', dir='/tmp')
    try:
        subprocess.check_call('git -C %s archive HEAD | tar -x -C %s' % (REPO, d), shell=True)
        path = os.path.join(d, c['file'])
        lines = open(path).read().split('\n')
        assert lines[c['line'] - 1] == c['before']
        lines[c['line'] - 1] = c['after']
        open(path, 'w').write('\n'.join(lines))
        env = dict(os.environ, VERIF_REPO=d)
        for p in props:
            rr = subprocess.run([os.path.join(VERIF, 'bin', 'check'), p], env=env, capture_output=True, text=True)
            keys = re.findall(r'^  (C\d+\..+)$', rr.stdout, re.M)
            print(p, 'FIRES' if rr.returncode else 'quiet', keys[:3])
    finally:
        shutil.rmtree(d, ignore_errors=True)


if __name__ == '__main__' and len(sys.argv) > 1 and sys.argv[1] == 'try':
    try_one(sys.argv[2:])
