"""Catalogue of seeded mutants.  Each compiles; those marked survive=True were
measured to keep the repository's 33 tests green.  `expect` is a substring of the
violation key that must be reported."""

P = 'src/core/primitives.rs'
M = 'src/core/mod.rs'
S = 'src/core/serialization/mod.rs'

MUTANTS = [
    # ---- reverts of the twelve repairs (the pinned tree passes the 33 tests)
    {'id': 'R01', 'props': ['C04', 'C14'], 'patch': 'revert-01.patch', 'expect': 'RevisionIterator'},
    {'id': 'R02', 'props': ['C05'], 'patch': 'revert-02.patch', 'expect': 'subsequence'},
    {'id': 'R03', 'props': ['C06'], 'expect': 'flag-provenance', 'edits': [(P,
        "            let secret = RightSecretKey::random(rng, key.is_hybridized())?;\n            msk.secrets.insert(r, (is_activated, secret));",
        "            let secret = RightSecretKey::random(rng, key.is_hybridized())?;\n            let _ = is_activated;\n            msk.secrets.insert(r, (true, secret));")]},
    {'id': 'R04', 'props': ['C10'], 'patch': 'revert-04.patch', 'expect': 'rekey'},
    {'id': 'R05', 'props': ['C10', 'C09'], 'patch': 'revert-05.patch', 'expect': 'refresh'},
    {'id': 'R06', 'props': ['C10'], 'patch': 'revert-06.patch', 'expect': 'update_msk'},
    {'id': 'R07', 'props': ['C14'], 'patch': 'revert-07.patch', 'expect': 'alloc'},
    {'id': 'R08', 'props': ['C14'], 'patch': 'revert-08.patch', 'expect': 'panic'},
    {'id': 'R09', 'props': ['C15'], 'patch': 'revert-09.patch', 'expect': 'char-boundary'},
    {'id': 'R10', 'props': ['C13'], 'patch': 'revert-10.patch', 'expect': 'count'},
    {'id': 'R11', 'props': ['C14'], 'patch': 'revert-11.patch', 'expect': 'read_vec'},
    {'id': 'R12', 'props': ['C18'], 'patch': 'revert-12.patch', 'expect': 'flag-position'},
    # ---- C02
    {'id': 'M02a', 'props': ['C02'], 'expect': 'trap-guard', 'edits': [(P,
        "                    let c_ij = usk.set_traps(&r);\n                    if c == c_ij {\n                        return Ok(Some(ss));",
        "                    let c_ij = usk.set_traps(&r);\n                    if c.len() == c_ij.len() {\n                        return Ok(Some(ss));")]},
    {'id': 'M02b', 'props': ['C02'], 'expect': 'tag-guard', 'edits': [(P,
        "                if tag == &tag_ij {\n                    // Fujisaki-Okamoto\n                    let r = G_hash(&S)?;",
        "                if tag == tag {\n                    // Fujisaki-Okamoto\n                    let r = G_hash(&S)?;")]},
    {'id': 'M02c', 'props': ['C02'], 'expect': 'dispatch', 'edits': [(P,
        "h_decaps(rng, usk, &A, &encapsulation.c, &encapsulation.tag, encs)",
        "h_decaps(rng, usk, &A, &usk.ps, &encapsulation.tag, encs)")]},
    {'id': 'M02d', 'props': ['C02'], 'expect': 'grant', 'edits': [(P,
        "            msk.secrets.get(&coordinate).and_then(|msk_chain| {",
        "            msk.secrets.iter().next().map(|(_, c)| c).and_then(|msk_chain| {")]},
    # ---- C18
    {'id': 'M18a', 'props': ['C18'], 'expect': 'trap-guard', 'edits': [(P,
        "            if encapsulation.c == c_ij {", "            if encapsulation.c.len() == c_ij.len() {")]},
    {'id': 'M18b', 'props': ['C18'], 'expect': 'session_key<=activated', 'all': True, 'edits': [(P,
        "                        if is_activated {", "                        if is_activated || true {")]},
    {'id': 'M18c', 'props': ['C18'], 'expect': 'wiring', 'edits': [('src/api.rs',
        "        let (_ss, rights) = full_decaps(msk, encapsulation)?;\n        primitives::encaps(\n            &mut *self.rng.lock().expect(\"Mutex lock failed!\"),\n            mpk,\n            &rights,\n        )",
        "        let (ss, rights) = full_decaps(msk, encapsulation)?;\n        primitives::encaps(\n            &mut *self.rng.lock().expect(\"Mutex lock failed!\"),\n            mpk,\n            &rights,\n        ).map(|(_, enc)| (ss, enc))")]},
    {'id': 'M18d', 'props': ['C18'], 'expect': 'encaps(rights)', 'edits': [('src/api.rs',
        "            mpk,\n            &rights,\n        )\n    }\n}",
        "            mpk,\n            &rights.into_iter().take(1).collect(),\n        )\n    }\n}")]},
    # ---- C06
    {'id': 'M06a', 'props': ['C06'], 'expect': 'cpk<=front-flag', 'edits': [(M,
        "                        if *is_activated {\n                            Some((r.clone(), csk.cpk(&h)))",
        "                        if *is_activated || !csk.is_hybridized() {\n                            Some((r.clone(), csk.cpk(&h)))")]},
    {'id': 'M06b', 'props': ['C06'], 'expect': 'flag-provenance', 'edits': [(P,
        "        let is_activated = AttributeStatus::EncryptDecrypt == status;",
        "        let is_activated = EncryptionHint::Classic == hint || AttributeStatus::EncryptDecrypt == status;")]},
    {'id': 'M06c', 'props': ['C06'], 'expect': 'status-monotone', 'edits': [('src/abe_policy/attribute.rs',
        "        if self == Self::DecryptOnly || rhs == Self::DecryptOnly {",
        "        if self == Self::DecryptOnly && rhs == Self::DecryptOnly {")]},
    {'id': 'M06d', 'props': ['C06'], 'expect': 'mutators', 'edits': [(P,
        "pub fn prune(msk: &mut MasterSecretKey, coordinates: &HashSet<Right>) {",
        "pub fn reactivate(msk: &mut MasterSecretKey, r: &Right) {\n    if let Some((flag, _)) = msk.secrets.get_latest_mut(r) {\n        *flag = true;\n    }\n}\n\npub fn prune(msk: &mut MasterSecretKey, coordinates: &HashSet<Right>) {")]},
    {'id': 'M06e', 'props': ['C06', 'C13'], 'expect': '', 'edits': [(S,
        "                    let is_activated = de.read_leb128_u64()? == 1;",
        "                    let is_activated = de.read_leb128_u64()? <= 1;")]},
]
