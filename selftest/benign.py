"""Behaviour-preserving edits: no check may raise an alarm on them (selftest/run_benign.py)."""
P = 'src/core/primitives.rs'
M = 'src/core/mod.rs'
S = 'src/core/serialization/mod.rs'

BENIGN = [
    {'id': 'B01-rename-locals', 'edits': [
        (P, "                let (tag_ij, ss) = J_hash(&S, &U);\n                if tag == &tag_ij {\n                    // Fujisaki-Okamoto\n                    let r = G_hash(&S)?;\n                    let c_ij = usk.set_traps(&r);\n                    if c == c_ij {",
            "                let (candidate_tag, ss) = J_hash(&S, &U);\n                if tag == &candidate_tag {\n                    // Fujisaki-Okamoto\n                    let scalar = G_hash(&S)?;\n                    let traps = usk.set_traps(&scalar);\n                    if c == traps {")]},
    {'id': 'B02-swap-eq-operands', 'edits': [
        (P, "    if fresh_signature != usk.signature {", "    if usk.signature != fresh_signature {"),
        (P, "                    if tag == &tag_ij {\n                        // Fujisaki-Okamoto\n                        let r = G_hash(&S_ij)?;", "                    if &tag_ij == tag {\n                        // Fujisaki-Okamoto\n                        let r = G_hash(&S_ij)?;")]},
    {'id': 'B03-no-prealloc', 'edits': [
        (S, "        let mut traps = Vec::with_capacity(n_traps.min(de.value().len()));", "        let mut traps = Vec::new();"),
        (S, "        let mut users = HashSet::with_capacity(n_users.min(de.value().len()));", "        let mut users = HashSet::new();")]},
    {'id': 'B04-prune-const', 'edits': [
        (P, "pub fn prune(msk: &mut MasterSecretKey, coordinates: &HashSet<Right>) {\n    for coordinate in coordinates {\n        msk.secrets.keep(coordinate, 1);",
            "pub fn prune(msk: &mut MasterSecretKey, coordinates: &HashSet<Right>) {\n    const KEPT: usize = 1;\n    for coordinate in coordinates {\n        msk.secrets.keep(coordinate, KEPT);")]},
    {'id': 'B05-new-api-method', 'edits': [
        ('src/api.rs', "    /// Returns a new encapsulation with the same rights as the one given, along\n    /// with a freshly generated shared secret.",
            "    /// Returns the tracing level of the given master public key.\n    pub fn tracing_level_of(&self, mpk: &MasterPublicKey) -> usize {\n        mpk.tracing_level()\n    }\n\n    /// Returns a new encapsulation with the same rights as the one given, along\n    /// with a freshly generated shared secret.")]},
    {'id': 'B06-loop-to-iterator', 'edits': [
        (S, "        let mut tracers = LinkedList::new();\n        for _ in 0..n_pk {\n            let tracer = de.read()?;\n            tracers.push_back(tracer);\n        }\n        Ok(Self(tracers))",
            "        let tracers = (0..n_pk)\n            .map(|_| de.read())\n            .collect::<Result<LinkedList<_>, _>>()?;\n        Ok(Self(tracers))")]},
    {'id': 'B07-match-instead-of-if', 'edits': [
        (M, "                    secrets.front().and_then(|(is_activated, csk)| {\n                        if *is_activated {\n                            Some((r.clone(), csk.cpk(&h)))\n                        } else {\n                            None\n                        }\n                    })",
            "                    match secrets.front() {\n                        Some((true, csk)) => Some((r.clone(), csk.cpk(&h))),\n                        _ => None,\n                    }")]},
    {'id': 'B08-early-return-verify', 'edits': [
        (P, "    if fresh_signature != usk.signature {\n        Err(Error::KeyError(\n            \"USK failed the integrity check\".to_string(),\n        ))\n    } else {\n        Ok(())\n    }",
            "    if fresh_signature == usk.signature {\n        return Ok(());\n    }\n    Err(Error::KeyError(\n        \"USK failed the integrity check\".to_string(),\n    ))")]},
    {'id': 'B09-extra-logging-lines', 'edits': [
        (P, "    let (is_hybridized, mut coordinate_keys) = mpk.select_subkeys(encryption_set)?;\n", "    // select the public keys of the targeted rights\n\n\n    let (is_hybridized, mut coordinate_keys) = mpk.select_subkeys(encryption_set)?;\n")]},
    {'id': 'B10-refresh-reorder', 'edits': [
        (P, "    usk.id = new_id;\n    usk.secrets = new_rights;\n    usk.signature = signature;", "    usk.signature = signature;\n    usk.secrets = new_rights;\n    usk.id = new_id;")]},
    {'id': 'B11-saturating-to-checked', 'edits': [
        (M, "        self.c.len().saturating_sub(1)\n", "        self.c.len().checked_sub(1).unwrap_or(0)\n")]},
    {'id': 'B12-is_hybridized-matches', 'edits': [
        (M, "    pub fn is_hybridized(&self) -> bool {\n        match self {\n            Self::Hybridized { .. } => true,\n            Self::Classic { .. } => false,\n        }\n    }", "    pub fn is_hybridized(&self) -> bool {\n        matches!(self, Self::Hybridized { .. })\n    }")]},
]
