"""Behaviour-preserving edits: no check may raise an alarm on them (selftest/run_benign.py)."""
P = 'src/core/primitives.rs'
M = 'src/core/mod.rs'
S = 'src/core/serialization/mod.rs'

BENIGN = [
    {'id': 'B01-rename-locals', 'edits': [
        (P, "                let (tag_ij, ss) = J_hash(&S, &U);\n                if tag == &tag_ij {\n                    // Fujisaki-Okamoto\n                    let r = G_hash(&S)?;\n                    let c_ij = usk.set_traps(&r);\n                    if c == c_ij {",
            "                let (candidate_tag, ss) = J_hash(&S, &U);\n                if tag == &candidate_tag {\n                    // Fujisaki-Okamoto\n                    let scalar = G_hash(&S)?;\n                    let traps = usk.set_traps(&scalar);\n                    if c == traps {")]},
    {'id': 'B02-swap-eq-operands', 'edits': [
        (P, "    if fresh_signature != usk.signature {", "    if usk.signature != fresh_signature {"),
        (P, "                    if tag == &tag_ij {\n                        // Fujisaki-Okamoto\n                        let r = G_hash(&S_ij)?;", "                    if &tag_ij == tag {\n                        // Fujisaki-Okamoto\n                        let r = G_hash(&S_ij)?;")]},
    {'id': 'B03-no-prealloc', 'edits': [
        (S, "        let mut traps = Vec::with_capacity(n_traps.min(de.value().len()));", "        let mut traps = Vec::new();"),
        (S, "        let mut users = HashSet::with_capacity(n_users.min(de.value().len()));", "        let mut users = HashSet::new();")]},
    {'id': 'B04-prune-const', 'edits': [
        (P, "pub fn prune(msk: &mut MasterSecretKey, coordinates: &HashSet<Right>) {\n    for coordinate in coordinates {\n        msk.secrets.keep(coordinate, 1);",
            "pub fn prune(msk: &mut MasterSecretKey, coordinates: &HashSet<Right>) {\n    const KEPT: usize = 1;\n    for coordinate in coordinates {\n        msk.secrets.keep(coordinate, KEPT);")]},
    {'id': 'B05-new-api-method', 'edits': [
        ('src/api.rs', "    /// Returns a new encapsulation with the same rights as the one given, along\n    /// with a freshly generated shared secret.",
            "    /// Returns the tracing level of the given master public key.\n    pub fn tracing_level_of(&self, mpk: &MasterPublicKey) -> usize {\n        mpk.tracing_level()\n    }\n\n    /// Returns a new encapsulation with the same rights as the one given, along\n    /// with a freshly generated shared secret.")]},
    {'id': 'B06-loop-to-iterator', 'edits': [
        (S, "        let mut tracers = LinkedList::new();\n        for _ in 0..n_pk {\n            let tracer = de.read()?;\n            tracers.push_back(tracer);\n        }\n        Ok(Self(tracers))",
            "        let tracers = (0..n_pk)\n            .map(|_| de.read())\n            .collect::<Result<LinkedList<_>, _>>()?;\n        Ok(Self(tracers))")]},
    {'id': 'B07-match-instead-of-if', 'edits': [
        (M, "                    secrets.front().and_then(|(is_activated, csk)| {\n                        if *is_activated {\n                            Some((r.clone(), csk.cpk(&h)))\n                        } else {\n                            None\n                        }\n                    })",
            "                    match secrets.front() {\n                        Some((true, csk)) => Some((r.clone(), csk.cpk(&h))),\n                        _ => None,\n                    }")]},
    {'id': 'B08-early-return-verify', 'edits': [
        (P, "    if fresh_signature != usk.signature {\n        Err(Error::KeyError(\n            \"USK failed the integrity check\".to_string(),\n        ))\n    } else {\n        Ok(())\n    }",
            "    if fresh_signature == usk.signature {\n        return Ok(());\n    }\n    Err(Error::KeyError(\n        \"USK failed the integrity check\".to_string(),\n    ))")]},
    {'id': 'B09-extra-logging-lines', 'edits': [
        (P, "    let (is_hybridized, mut coordinate_keys) = mpk.select_subkeys(encryption_set)?;\n", "    // select the public keys of the targeted rights\n\n\n    let (is_hybridized, mut coordinate_keys) = mpk.select_subkeys(encryption_set)?;\n")]},
    {'id': 'B10-refresh-reorder', 'edits': [
        (P, "    usk.id = new_id;\n    usk.secrets = new_rights;\n    usk.signature = signature;", "    usk.signature = signature;\n    usk.secrets = new_rights;\n    usk.id = new_id;")]},
    {'id': 'B11-saturating-to-checked', 'edits': [
        (M, "        self.c.len().saturating_sub(1)\n", "        self.c.len().checked_sub(1).unwrap_or(0)\n")]},
    {'id': 'B12-is_hybridized-matches', 'edits': [
        (M, "    pub fn is_hybridized(&self) -> bool {\n        match self {\n            Self::Hybridized { .. } => true,\n            Self::Classic { .. } => false,\n        }\n    }", "    pub fn is_hybridized(&self) -> bool {\n        matches!(self, Self::Hybridized { .. })\n    }")]},
    {'id': 'B13-rename-params', 'all': True, 'edits': [
        (P, "    rights: HashMap<Right, (EncryptionHint, AttributeStatus)>,\n) -> Result<(), Error> {", "    universe: HashMap<Right, (EncryptionHint, AttributeStatus)>,\n) -> Result<(), Error> {"),
        (P, "    for (r, (hint, status)) in &rights {", "    for (r, (hint, status)) in &universe {"),
        (P, "    msk.secrets.retain(|r| rights.contains_key(r));", "    msk.secrets.retain(|r| universe.contains_key(r));"),
        (P, "    for (r, (hint, status)) in rights {\n        let is_activated", "    for (r, (hint, status)) in universe {\n        let is_activated"),
        (M, "    fn random(rng: &mut impl CryptoRngCore, hybridize: bool) -> Result<Self, Error> {\n        let sk = <ElGamal as Nike>::SecretKey::random(rng);\n        if hybridize {",
            "    fn random(rng: &mut impl CryptoRngCore, with_pq: bool) -> Result<Self, Error> {\n        let sk = <ElGamal as Nike>::SecretKey::random(rng);\n        if with_pq {"),
        (M, "    fn refresh_id(&mut self, rng: &mut impl CryptoRngCore, id: UserId) -> Result<UserId, Error> {\n        if !self.is_known(&id) {\n            Err(Error::Tracing(\"unknown user\".to_string()))\n        } else if id.tracing_level() != self.tracing_level() {\n            let new_id = self.generate_user_id(rng)?;\n            self.add_user(new_id.clone());\n            self.del_user(&id);\n            Ok(new_id)",
            "    fn refresh_id(&mut self, rng: &mut impl CryptoRngCore, uid: UserId) -> Result<UserId, Error> {\n        let id = uid;\n        if !self.is_known(&id) {\n            Err(Error::Tracing(\"unknown user\".to_string()))\n        } else if id.tracing_level() != self.tracing_level() {\n            let new_id = self.generate_user_id(rng)?;\n            self.add_user(new_id.clone());\n            self.del_user(&id);\n            Ok(new_id)"),
    ]},
    {'id': 'B14-rename-decaps-params', 'edits': [
        (P, "fn c_decaps(\n    rng: &mut impl CryptoRngCore,\n    usk: &UserSecretKey,\n    A: &<ElGamal as Nike>::PublicKey,\n    c: &[<ElGamal as Nike>::PublicKey],\n    tag: &[u8; TAG_LENGTH],\n    encs: &Vec<[u8; SHARED_SECRET_LENGTH]>,\n) -> Result<Option<Secret<SHARED_SECRET_LENGTH>>, Error> {\n    let T = {\n        let mut hasher = Sha3::v256();\n        let mut T = Secret::<SHARED_SECRET_LENGTH>::new();\n        c.iter().try_for_each(|ck| {",
            "fn c_decaps(\n    rng: &mut impl CryptoRngCore,\n    usk: &UserSecretKey,\n    A: &<ElGamal as Nike>::PublicKey,\n    traps: &[<ElGamal as Nike>::PublicKey],\n    early_abort_tag: &[u8; TAG_LENGTH],\n    masked_seeds: &Vec<[u8; SHARED_SECRET_LENGTH]>,\n) -> Result<Option<Secret<SHARED_SECRET_LENGTH>>, Error> {\n    let (c, tag, encs) = (traps, early_abort_tag, masked_seeds);\n    let T = {\n        let mut hasher = Sha3::v256();\n        let mut T = Secret::<SHARED_SECRET_LENGTH>::new();\n        c.iter().try_for_each(|ck| {")]},
    {'id': 'B15-rename-helper-fns', 'all': True, 'edits': [
        (P, "fn xor_2<", "fn xor_arrays<"), (P, "xor_2(&S,", "xor_arrays(&S,"),
        (P, "fn shuffle<T>", "fn shuffle_in_place<T>"), (P, "shuffle(&mut", "shuffle_in_place(&mut")]},
    {'id': 'B16-extract-digest-helpers', 'edits': [
        (P, "/// Attempts to open the given classic encapsulations with this user secret key.\nfn c_decaps(",
            "/// Computes the digest T over the traps (classic mode).\nfn classic_t(c: &[<ElGamal as Nike>::PublicKey]) -> Result<Secret<SHARED_SECRET_LENGTH>, Error> {\n    let mut hasher = Sha3::v256();\n    let mut T = Secret::<SHARED_SECRET_LENGTH>::new();\n    c.iter().try_for_each(|ck| {\n        hasher.update(&ck.serialize()?);\n        Ok::<_, Error>(())\n    })?;\n    hasher.finalize(&mut *T);\n    Ok(T)\n}\n\n/// Computes the digest U over T and the masked seeds.\nfn digest_u<'a>(\n    T: &Secret<SHARED_SECRET_LENGTH>,\n    seeds: impl Iterator<Item = &'a [u8; SHARED_SECRET_LENGTH]>,\n) -> Secret<SHARED_SECRET_LENGTH> {\n    let mut U = Secret::<SHARED_SECRET_LENGTH>::new();\n    let mut hasher = Sha3::v256();\n    hasher.update(&**T);\n    seeds.for_each(|F| hasher.update(F));\n    hasher.finalize(&mut *U);\n    U\n}\n\n/// Attempts to open the given classic encapsulations with this user secret key.\nfn c_decaps("),
        (P, "    encs: &Vec<[u8; SHARED_SECRET_LENGTH]>,\n) -> Result<Option<Secret<SHARED_SECRET_LENGTH>>, Error> {\n    let T = {\n        let mut hasher = Sha3::v256();\n        let mut T = Secret::<SHARED_SECRET_LENGTH>::new();\n        c.iter().try_for_each(|ck| {\n            hasher.update(&ck.serialize()?);\n            Ok::<_, Error>(())\n        })?;\n        hasher.finalize(&mut *T);\n        T\n    };\n\n    let U = {\n        let mut U = Secret::<SHARED_SECRET_LENGTH>::new();\n        let mut hasher = Sha3::v256();\n        hasher.update(&*T);\n        encs.iter().for_each(|F| hasher.update(F));\n        hasher.finalize(&mut *U);\n        U\n    };\n",
            "    encs: &Vec<[u8; SHARED_SECRET_LENGTH]>,\n) -> Result<Option<Secret<SHARED_SECRET_LENGTH>>, Error> {\n    let T = classic_t(c)?;\n    let U = digest_u(&T, encs.iter());\n")]},
]

# behaviour-preserving refactorings written by independent sub-agents (selftest/benign_patches/*.diff,
# each confirmed by the agent to keep the 33 tests green); every check must stay quiet on them
import glob as _glob, os as _os
for _p in sorted(_glob.glob(_os.path.join(_os.path.dirname(_os.path.abspath(__file__)), 'benign_patches', '*.diff'))):
    BENIGN.append({'id': 'A-' + _os.path.basename(_p)[:-5], 'patch_abs': _p})
